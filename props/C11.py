"""C11 A misbehaving server can never crash or hang the client transport (partial: runtime facts are explored, not proved)."""
from vlib.core import Case
from vlib import clientconn_gen as g

ID = "C11"
COMPONENTS = ["s_clienttransport"]
T4 = ["ClientConn"]
PROOF_MODULES = ["GrpcProofs.Properties.C11"]
THEOREMS = ["GrpcProofs.C11." + t for t in (
    "status_never_changes", "newstream_result_never_changes", "every_stream_gets_a_status", "close_completes",
    "exactly_one_status", "status_code_legal", "stream_terminates_at_deadline", "blocked_newstream_returns_at_deadline",
    "blocked_newstream_returns_on_close", "frame_for_unknown_stream_is_ignored", "data_for_unknown_stream",
    "unprocessed_can_flip_after_done", "decodeGrpcMessage_never_panics", "decodeLoop_length")] + [
    "GrpcProofs.Lemmas.ClientConn.mono_step", "GrpcProofs.Lemmas.ClientConn.inv_step", "GrpcProofs.Lemmas.ClientConn.Reach.inv"]
DESIGN_REF = "DESIGN.md section 8, C11"
TECHNIQUE = ("Lean 4: monotonicity relation + inductive invariant over a per-connection state machine of http2Client, each proved for "
             "every event (reader-loop iteration on any framer output, loopy item, NewStream attempt, RPC-goroutine reaction, Close "
             "phase), hence for every frame sequence and interleaving; tie T2: the REAL http2Client in a testing/synctest bubble "
             "against a raw-frame peer (frame grammar incl. malformed frames, CONTINUATION, truncated input, stalled peer), snapshot "
             "diffed after every op; panic / goroutine-leak / hang detection by the bubble; T4 regenerated tables")
LEVEL_TEXT = ("Machine-checked proof that for every frame sequence the framer can deliver (any frame types, fields, order, stream and "
              "connection errors), interleaved in every way with loopy, the RPC goroutines and Close, and followed by the connection "
              "going away: every stream ever opened ends with exactly one terminal outcome (never changed afterwards, legal code: 0..16 "
              "chosen by the client or io.EOF with the trailers' status; the grpc-message percent-decoder, ported with explicit index "
              "checks, never reads out of range; codes: 0..16 "
              "chosen by the client or io.EOF with the trailers' status), a returned NewStream keeps its result, RPCs react to their "
              "deadline at once, frames for unknown/removed streams are ignored. The model is diffed against the real transport after "
              "every op (all stream records, transport state, frames written); each case runs in a synctest bubble that must be empty "
              "after Close (a leaked goroutine, a panic or a hang kills the run and is reported).")
LEVEL_NOTE = ("PARTIAL by nature: 'never panics', 'no goroutine outlives the connection' and real blocking are Go-runtime facts the Lean "
              "model cannot exhibit; they are only EXPLORED by the correspondence run. 'Any sequence of bytes': below the framer the "
              "input is reduced to what x/net/http2 returns (parsed frame | StreamError | other error); raw byte strings are exercised "
              "as frames with arbitrary type/flags/stream/payload and as truncated input, not as arbitrary mid-frame garbage; HPACK "
              "only with literal representations (plus an invalid index). Trusted: Lean kernel, the hand model (atomic handlers), "
              "lean/GrpcModel/Model/H2Wire.lean (framer glue), the harness. Observation (not counted as a violation, reproduced on the "
              "real transport and proved on the model): a GOAWAY / RST_STREAM(REFUSED_STREAM) that arrives after a stream got its "
              "final status but before loopy removed it from activeStreams still flips Unprocessed() to true.")
GAP = "panics, goroutine leaks, real blocking (explored by T2 only); arbitrary byte garbage inside a frame; HPACK Huffman/indexing; BDP estimator and keepalive are switched off in the harness"
ASSUMPTIONS = ["handlers of the reader goroutine, loopy items and NewStream attempts are atomic w.r.t. each other",
               "x/net/http2 framer and HPACK decoder behave as ported in H2Wire.lean (validated by the differential run)"]
TRUSTED = ["harness/synct/c_clientconn_test.go (peer, snapshot, bubble)", "lean/GrpcModel/Model/ClientConnSim.lean (settle = run to quiescence)"]
RULE = ("every way a stream can end (RST with each code, trailers / trailers-only with good, out-of-range and malformed grpc-status, "
        "non-gRPC responses with body, 1xx, END_STREAM without trailers, HEADERS in the middle, flow-control violation with and "
        "without padding, truncated header list, invalid header names, zero WINDOW_UPDATE, bad padding, cancel, deadline, GOAWAY, "
        "Close, peer EOF, connection error; header VALUE grammars: grpc-message percent escapes (all strings of length <= 4 over "
        "{%, hex digits of both cases, a non-hex byte}, longer random mixes of valid / invalid-hex / truncated escapes with their "
        "prefixes), grpc-status and :status integers (signs, ranges, junk), -bin base64 (padding shapes), content-type prefixes — "
        "each compared with the model incl. the decoded status message) x reader/non-reader RPC x half-closed or not, each followed by more frames for the dead "
        "stream; hold windows (stalled peer); random sequences over the whole frame grammar incl. malformed frames, CONTINUATION "
        "splits, unknown types, truncated input, 1-8 concurrent RPCs with deadlines, SETTINGS changes. Non-trivial = at least one "
        "stream was opened and at least one peer frame was delivered; distinct = distinct op list.")


def gen(rng, tier):
    n = {"quick": 450, "thorough": 25000, "search": 5000}[tier]
    reps = {"quick": 1, "thorough": 6, "search": 3}[tier]
    for _ in range(reps):
        for ops, tag in g.stream_lifecycles(rng):
            yield Case("s_clienttransport", ops + ["end"], tag)
        for ops, tag in g.directed_hold(rng):
            yield Case("s_clienttransport", ops + ["end"], tag)
    for ops, tag in g.header_value_cases(rng, {"quick": 60, "thorough": 3000, "search": 600}[tier]):
        yield Case("s_clienttransport", ops, tag)
    for i in range(n):
        mcs = rng.choice([0, 1, 1, 2, 3]) if rng.random() < 0.2 else None
        mhl = rng.choice([10, 100, 5000]) if rng.random() < 0.06 else None
        b = g.Builder(rng, mcs=mcs, mhl=mhl, allow_hold=rng.random() < 0.3)
        for _ in range(rng.randrange(0, 9 if rng.random() < 0.2 else 4)):
            b.new()
        b.random_tail(rng.randrange(4, 45))
        yield Case("s_clienttransport", b.ops + ["end"], "rand-%d" % i)


def nontrivial(case, impl_lines):
    opened = any("rpcs=" in o and any(e[:1] in "ABD" for e in o.split("rpcs=")[1].split(" ")[0].split(",")) for o in impl_lines)
    return opened and any(op.startswith("f ") for op in case.ops)
