"""C19 Retry backoff and retry throttling follow gRFC A6 arithmetic."""
import struct

from vlib.core import Case

ID = "C19"
COMPONENTS = ["s_shouldretry", "retrycfg"]
T4 = ["Retry"]
PROOF_MODULES = ["GrpcProofs.Properties.C19"]
THEOREMS = ["GrpcProofs.C19." + t for t in (
    "tokens_in_range", "shouldRetry_keeps_range", "failure_costs_one", "malformed_pushback_costs_one", "token_touched_iff",
    "success_adds_ratio", "refused_iff_at_or_below_half", "no_throttler_never_refuses", "throttling_valid_iff",
    "throttling_validation",
    "parse_pushback_spec", "pushback_is_delay", "pushback_resets_k",
    "backoff_in_band", "backoff_in_band_parser_limits", "k_counts_retries_since_pushback",
    "duration_clamped", "policy_valid_iff", "policy_max_capped")]
DESIGN_REF = "DESIGN.md section 8, C19"
TECHNIQUE = ("Lean 4 theorems over exact rationals (invariant over all throttler op sequences, case analysis of shouldRetry in "
             "source order, floor/linear arithmetic for the jitter band) + T2 differential run of the real shouldRetry / "
             "retryThrottler / parseServiceConfig inside a synctest bubble (retry timer observed as virtual time)")
LEVEL_TEXT = ("Machine-checked Lean proofs, for all policies, all throttler histories, all pushback byte strings and every jitter "
              "draw r in [0,1), that the modelled shouldRetry waits exactly the pushback when one is given and otherwise "
              "floor(base*(0.8+0.4r)) with base = min(initial*mult^k, max), k = retries since the last pushback; that the bucket "
              "stays in [0,maxTokens], loses exactly one token for a retryable-code failure or malformed pushback and nothing "
              "otherwise, gains tokenRatio (capped) on success, and refuses exactly when tokens <= maxTokens/2 after the removal. "
              "The two int64 conversions are modelled with the saturation guards the code has since /repo dab5ad1 and 0ecebdc, so the "
              "band and pushback theorems hold at full strength (delay = min(pushback ms, MaxInt64 ns); floor(0.8*base) <= delay <= 1.2*base "
              "for every policy inside the parser's limits), and the throttling range check is proved for every accepted config (e52eadc).")
LEVEL_NOTE = ("Reading: durations are integer ns, so 'lies in [0.8,1.2] x base' is checked as floor(0.8*base) <= delay <= 1.2*base "
              "(no tolerance; float rounding of math.Pow / the products can only matter for jitter draws within ~1e-16 of 0 or 1). "
              "'removes one token' is exact (x-1 is exact in binary64 on [0,1024]); 'adds tokenRatio' is a float addition and is "
              "checked through the correctly-rounded interval |impl - (tokens+ratio)| <= (tokens+ratio)*2^-53; the throttler model "
              "state is re-synchronised to the implementation's reported bucket after every op. Trusted: the fabricated finished "
              "transport.ClientStream used to feed trailers/status to the real shouldRetry (harness/shims/internal/transport/fakestream.go); "
              "amd64 float->int64 conversion semantics (out of range -> MinInt64, now unreachable behind the guard). A pushback above "
              "~292 years is read as 'wait MaxInt64 ns' (the largest time.Duration). Findings F15, F15p, F32 are fixed in /repo; their "
              "witnesses stay in the generator as regression inputs.")
GAP = "IEEE rounding inside math.Pow and the float products (ideal rationals in the model); subnormal maxTokens; JSON number syntax beyond plain decimals"
ASSUMPTIONS = ["rand.Float64() returns a value in [0,1)", "time.Duration is int64 ns; int64(float64) out of range yields MinInt64 (amd64)",
               "strconv.Atoi accepts exactly [+-]?[0-9]+ within int64", "synctest virtual time: elapsed time of shouldRetry equals the timer duration (clamped at 0 and at the bubble horizon)"]
RULE = ("cases = short scripts on one real retryThrottler: thr <max> <ratio> (valid, boundary and invalid decimals through the real "
        "parseServiceConfig + applyServiceConfigAndBalancer), then random throttle/success/sr ops; sr = one real shouldRetry call "
        "with random flags (finished/committed/drop/stream/transparent/unprocessed/trailers-only/first/disabled), pushback header "
        "lists (absent, 0, small, huge, negative, +n, malformed, empty, several), codes in/out of the policy, policies with "
        "boundary backoffs (1ns .. MaxInt64) and multipliers (<1, 1, >1, huge), k up to 2000, numRetries around maxAttempts; "
        "retrycfg = real Duration.UnmarshalJSON and convertRetryPolicy on boundary strings. Non-trivial = a case containing at "
        "least one sr that reached the throttling stage or a throttle/success op.")

MAXI = 2**63 - 1


def bits(x):
    return struct.unpack("<Q", struct.pack("<d", float(x)))[0]


def hexs(s):
    return "x" + s.encode().hex()


def dec3(rng, hi):
    """a plain decimal with up to 3 fraction digits in (0, hi]"""
    n = rng.randrange(1, hi * 1000 + 1)
    if n % 1000 == 0:
        return str(n // 1000)
    return ("%d.%03d" % (n // 1000, n % 1000)).rstrip("0")


MAXTOK = ["1", "2", "3", "4", "5", "10", "100", "1000", "0.5", "0.001", "999.999", "7.5", "2.5", "1.5", "0.25", "1000.0", "6"]
RATIO = ["0.1", "0.5", "1", "0.001", "2.5", "1000", "0.3", "0.7", "0.125", "3", "1000000", "0.999", "0.01", "10.5"]
BADTHR = [("0", "0.1"), ("-1", "0.1"), ("1000.001", "0.1"), ("1001", "1"), ("10", "0"), ("10", "-0.5"), ("0.0", "1"),
          ("1000.5", "0.5"), ("-0.001", "-1"), ("5000", "0.1")]

INITS = [1, 2, 3, 7, 999, 1000, 10**6, 10**9, 1500000000, 2**53 + 1, 10**15, 10**18, 6 * 10**18, 7686143364045646506,
         7686143364045646507, 8 * 10**18, MAXI - 1, MAXI]
MULTS = [1.0, 2.0, 1.5, 1.1, 0.5, 1.3, 10.0, 1e10, 1e-3, 1.6, 3.0, 0.999, 1e300, 1e-300, 1.0000001]
PUSH = [["0"], ["1"], ["5"], ["123"], ["1000"], ["86400000"], ["+7"], ["-0"], ["-1"], ["-100"], [""], ["abc"], ["1.5"], ["1e3"],
        [" 5"], ["5 "], ["0x10"], ["1_000"], ["٣"], ["9223372036854"], ["9223372036855"], ["18446744073710"],
        ["9223372036854775807"], ["9223372036854775808"], ["-9223372036854775808"], ["99999999999999999999"],
        ["1", "2"], ["5", "5"], ["", ""], ["1", "x", "3"], ["00012"], ["+"], ["-"], ["8276687236854"], ["8000000000000"]]


def pol_str(rng, allow_huge=True):
    ma = rng.choice([2, 2, 3, 4, 5, 5, 5, 6, 10, 1, 0])
    r = rng.random()
    if r < 0.55:
        init = rng.choice(INITS[:9])
        mx = rng.choice(INITS[:12])
    elif r < 0.8 or not allow_huge:
        init = rng.randrange(1, 10**rng.randrange(1, 13))
        mx = rng.randrange(1, 10**rng.randrange(1, 13))
    else:
        init = rng.choice(INITS)
        mx = rng.choice(INITS)
    mult = rng.choice(MULTS) if rng.random() < 0.8 else round(rng.uniform(0.2, 4.0), rng.randrange(0, 4)) or 1.0
    codes = sorted(rng.sample([1, 2, 4, 8, 10, 13, 14, 16], rng.randrange(1, 4)))
    return "%d:%d:%d:%d:%s" % (ma, init, mx, bits(mult), ",".join(map(str, codes))), codes, init, mx, mult


def sr_op(rng, huge_ok):
    """returns (op, may_saturate)"""
    f = {}
    eligible = rng.random() < 0.75
    for k, p in (("fin", .06), ("com", .08), ("drop", .06), ("atr", .15), ("unp", .15), ("dis", .06)):
        f[k] = int(rng.random() < (p * (0.25 if eligible else 2.5)))
    f["st"] = int(rng.random() < 0.8)
    f["to"] = int(rng.random() < (0.92 if eligible else 0.5))
    f["first"] = int(rng.random() < 0.5)
    if rng.random() < 0.08:
        pol, codes = "-", []
        init = mx = 0
        mult = 1.0
    else:
        pol, codes, init, mx, mult = pol_str(rng, huge_ok)
    code = rng.choice(codes) if codes and rng.random() < 0.8 else rng.choice([0, 1, 2, 3, 4, 5, 8, 13, 14, 15, 16, 17])
    if code == 0 and not f["st"]:
        code = 2      # without a stream the code comes from the error, which is never OK
    r = rng.random()
    if r < 0.45:
        pb = "-"
        pbl = None
    else:
        pbl = rng.choice(PUSH) if rng.random() < 0.8 else [str(rng.randrange(0, 10**rng.randrange(1, 8)))]
        pb = ",".join(hexs(v) for v in pbl)
    nr = rng.choice([0, 0, 0, 1, 1, 2, 3, 4, 5, 8])
    sp = rng.choice([0, 0, 1, 1, 2, 3, 4, 5, 7, 50, 2000]) if rng.random() < 0.9 else rng.randrange(0, 30)
    # saturation / scheduling hazards of the bubble clock: huge delays only when allowed (last op of a case)
    big = False
    if pbl is not None and len(pbl) == 1 and pbl[0].lstrip("+").isdigit() and int(pbl[0]) > 10**10 and f["st"]:
        big = True
    if pol != "-":
        try:
            b = min(init * mult ** sp, mx)
        except OverflowError:
            b = mx
        if b > 10**16:
            big = True
    ctx = 0
    if not f["st"] and not big and rng.random() < 0.15 and init >= 10 and mx >= 10 and (mult >= 1 or sp == 0):
        ctx = 1
    op = ("sr fin=%d com=%d drop=%d st=%d atr=%d unp=%d to=%d pb=%s code=%d first=%d dis=%d pol=%s nr=%d sp=%d ctx=%d" %
          (f["fin"], f["com"], f["drop"], f["st"], f["atr"], f["unp"], f["to"], pb, code, f["first"], f["dis"], pol, nr, sp, ctx))
    return op, big


def thr_case(rng, n, clean=False):
    """clean=True: no inputs that hit the known findings of C19 (used by C18 for the decision table)"""
    ops = []
    r = rng.random()
    if clean and 0.12 <= r < 0.24:
        r = 0.5
    if r < 0.12:
        ops.append("thr none")
    elif r < 0.24:
        ops.append("thr %s %s" % rng.choice(BADTHR) + " %d" % (rng.random() < 0.7))
    elif r < 0.6:
        ops.append("thr %s %s %d" % (rng.choice(MAXTOK), rng.choice(RATIO), clean or rng.random() < 0.5))
    else:
        ops.append("thr %s %s %d" % (dec3(rng, rng.choice([1, 5, 20, 1000])), dec3(rng, rng.choice([1, 1, 3, 50])), clean or rng.random() < 0.5))
    psucc = rng.choice([0.1, 0.3, 0.5, 0.8])
    pthr = rng.choice([0.1, 0.3, 0.6])
    for i in range(n):
        x = rng.random()
        if x < pthr:
            ops.append("throttle")
        elif x < pthr + psucc * (1 - pthr) * 0.6:
            ops.append("success")
        else:
            op, big = sr_op(rng, huge_ok=False)
            while big:          # huge delays saturate the bubble clock: only as the last op of a case
                op, big = sr_op(rng, huge_ok=False)
            ops.append(op)
    if not clean and rng.random() < 0.35:
        for _ in range(20):
            op, big = sr_op(rng, huge_ok=True)
            if big:
                ops.append(op)
                break
    return ops


def directed():
    """decision-table corners and the overflow witnesses"""
    P = "5:1000000000:10000000000:%d:14" % bits(2.0)
    base = dict(fin=0, com=0, drop=0, st=1, atr=0, unp=0, to=1, pb="-", code=14, first=0, dis=0, pol=P, nr=0, sp=0, ctx=0)

    def mk(**kw):
        d = dict(base)
        d.update(kw)
        return "sr " + " ".join("%s=%s" % (k, d[k]) for k in ("fin", "com", "drop", "st", "atr", "unp", "to", "pb", "code", "first", "dis", "pol", "nr", "sp", "ctx"))
    cases = []
    # source-order corners: each early exit alone, and each pair with the one before it
    flags = ["fin", "com", "drop", "atr", "unp", "dis"]
    for thr in ("thr none", "thr 4 0.5 1"):
        ops = [thr, mk()]
        for a in flags:
            for st in (0, 1):
                for first in (0, 1):
                    ops.append(mk(**{a: 1, "st": st, "first": first}))
        for i, a in enumerate(flags):
            for b in flags[i + 1:]:
                ops.append(mk(**{a: 1, b: 1, "first": 1}))
                ops.append(mk(**{a: 1, b: 1, "first": 1, "st": 0}))
        ops += [mk(to=0), mk(to=0, pb=hexs("abc")), mk(code=5), mk(pol="-"), mk(pb=hexs("-1"), code=5), mk(pb=hexs("x"), pol="-"),
                mk(st=0, pb=hexs("7")), mk(st=0, code=5), mk(nr=3), mk(nr=4), mk(nr=5), mk(nr=4, pb=hexs("3")), mk(pb=hexs("3"), sp=4),
                mk(sp=1), mk(sp=2), mk(sp=3), mk(sp=4), mk(sp=10)]
        cases.append(Case("s_shouldretry", ops, "directed-order"))
    # token boundary: max 4 -> thresh 2: tokens 4 ->3 ok, 3->2 refused
    cases.append(Case("s_shouldretry", ["thr 4 1 0", mk(), mk(), "success", mk(), "success", "success", mk(), mk(pb=hexs("zz")), mk(pb=hexs("1") + "," + hexs("2")),
                                        mk(code=5), "throttle", "throttle", "throttle", "throttle", "success", "throttle"], "directed-bucket"))
    cases.append(Case("s_shouldretry", ["thr 1 0.3 1", mk(), "success", "success", "success", "success", mk(), "success", mk(pb=hexs("9"))], "directed-bucket-small"))
    # overflow witnesses (F15 / F15p): several draws each, every one in its own case (bubble clock saturates)
    H = "5:%d:%d:%d:14" % (MAXI, MAXI, bits(1.0))
    for i in range(6):
        cases.append(Case("s_shouldretry", [mk(pol=H)], "directed-f15-%d" % i))
    for v in ("9223372036855", "18446744073710", "9223372036854775807", "9223372036854", "8000000000000"):
        cases.append(Case("s_shouldretry", [mk(pb=hexs(v))], "directed-pushback-" + v))
    return cases


DUR = ["1s", "0s", "0.1s", "1.5s", ".5s", "1.s", "s", ".s", "1", "", "-1s", "-0.5s", "+1s", "1.000000001s", "1.0000000001s", "0.000000001s",
       "315576000000s", "315576000001s", "9223372036s", "9223372036.854775807s", "9223372036.854775806s", "9223372036.854775808s",
       "9223372037s", "-9223372036.854775808s", "-9223372036.854775807s", "-9223372037s", "-315576000001s", "1.2.3s", "1e3s", "1 s", " 1s",
       "0.s", "00s", "007s", "1.123456789s", "1.1234567890s", "99999999999999999999s", "9000000000s", "0.999999999s", "-.5s", "-s", "--1s",
       "1.-5s", "1.+5s", "+.5s", "1S", "1ss", "1ms"]


def cfg_cases(rng, n):
    ops = ["dur " + hexs(d) for d in DUR]
    for _ in range(n):
        r = rng.random()
        if r < 0.5:
            sec = rng.choice([0, 1, 9, 10**rng.randrange(0, 12), 9223372036, 9223372035, 9223372037, 315576000000, rng.randrange(0, 10**11)])
            frac = "%0*d" % (rng.randrange(1, 11), rng.randrange(0, 10**9))
            s = "%s%d.%ss" % (rng.choice(["", "", "-"]), sec, frac)
        else:
            s = "".join(rng.choice("0123456789.s-+e ") for _ in range(rng.randrange(0, 8))) + rng.choice(["s", "s", "s", ""])
        ops.append("dur " + hexs(s))
    # convertRetryPolicy: rp <chanMax arg of WithMaxCallAttempts> <maxAttempts> <initial> <max> <mult decimal> <codes>
    durs = ["1s", "0.1s", "0s", "-1s", "0.000000001s", "9000000000s", "315576000000s"]
    for cm in (-1, 0, 1, 2, 3, 5, 7, 100):
        for ma in (-1, 0, 1, 2, 3, 4, 5, 6, 7, 99, 100, 101):
            ops.append("rp %d %d %s %s 2 14" % (cm, ma, hexs("1s"), hexs("10s")))
    for _ in range(n // 2):
        ops.append("rp %d %d %s %s %s %s" % (rng.choice([0, 2, 3, 5, 8]), rng.choice([0, 1, 2, 3, 5, 9]), hexs(rng.choice(durs)), hexs(rng.choice(durs)),
                                             rng.choice(["2", "1", "0.5", "0", "-1", "1.1", "0.001"]),
                                             rng.choice(["14", "-", "4,14", "1,2,13", "14,14"])))
    return [Case("retrycfg", ops[i:i + 2000], "retrycfg-%d" % (i // 2000)) for i in range(0, len(ops), 2000)]


def gen(rng, tier):
    n = {"quick": 1500, "thorough": 40000, "search": 12000}[tier]
    for c in directed():
        yield c
    for c in cfg_cases(rng, {"quick": 3000, "thorough": 100000, "search": 30000}[tier]):
        yield c
    for i in range(n):
        yield Case("s_shouldretry", thr_case(rng, rng.randrange(3, 25)), "rand-%d" % i)


def nontrivial(case, impl_lines):
    if case.component == "retrycfg":
        return True
    return any(op.startswith(("throttle", "success")) or (op.startswith("sr ") and out.split(" ")[0] in ("retry", "exhausted", "ctxerr"))
               for op, out in zip(case.ops, impl_lines))
