"""C27 Compression is negotiated and applied consistently."""
import itertools

from vlib.core import Case

ID = "C27"
COMPONENTS = ["s_compress"]
T4 = ["Framing"]
PROOF_MODULES = ["GrpcProofs.Properties.C27"]
THEOREMS = ["GrpcProofs.C27." + t for t in (
    "payload_format_constants",
    "encoding_implies_flag_client", "flag_iff_encoding_client_partial", "flag_iff_encoding_server_partial",
    "empty_message_flag_clear", "flag_iff_encoding_counterexample_empty",
    "server_only_advertised_or_used_partial", "server_only_advertised_or_used_counterexample",
    "unsupported_is_unimplemented_server", "unsupported_is_internal_client", "flagged_identity_is_internal",
    "never_deliver_undecoded", "roundtrip_client_to_server", "roundtrip_server_to_client", "toy_roundtrip")]
DESIGN_REF = "DESIGN.md section 8, C27"
TECHNIQUE = ("Lean 4: decision model of both endpoints (client stream open/send/receive, server stream open/receive/SetSendCompressor/send) "
             "with compressors as a parameter; theorems for all registries, option combinations, header values and payloads by case "
             "analysis; counterexample theorems for the literal readings the code does not satisfy (empty message, legacy RPCCompressor); tie T2: real client<->real server with "
             "an HTTP/2 wire tap, hand-written HTTP/2 client -> real server, real client -> hand-written HTTP/2 server, over the finite grid; "
             "T4: payloadFormat constants")
LEVEL_TEXT = ("Machine-checked proofs about a model of grpc-go's compression negotiation that is diffed, wire byte for wire byte, against "
              "the real client and server on every run: compressed flag <-> non-identity grpc-encoding for every non-empty message (client: "
              "always; server: always, whatever the handler does with SetSendCompressor - the legacy RPCCompressor + SetSendCompressor(identity) "
              "case was defect F34, fixed in /repo 25f0536); a server without "
              "the legacy RPCCompressor option compresses only with a compressor the client advertised or used (with it: known finding F18); "
              "unsupported request encoding -> UNIMPLEMENTED before the handler, undecodable compressed response -> INTERNAL; whatever is "
              "delivered is the frame's bytes (flag 0) or their decompression by the compressor named in grpc-encoding (flag 1).")
LEVEL_NOTE = ("Reading F12 (adjudicated as a reading, not a defect): `compress` never compresses a zero-length message, so an EMPTY message "
              "carries flag 0 even on a gzip stream. The gRPC wire spec allows flag 0 on any message and every receiver accepts it; the literal "
              "'if and only if' is therefore proved for non-empty messages (flag_iff_encoding_*_partial), the exception is stated as a theorem "
              "(empty_message_flag_clear, flag_iff_encoding_counterexample_empty) and the monitor accepts flag 0 only for empty messages. "
              "'Unsupported encoding fails ... INTERNAL (client)' is read as: a message that is flagged compressed in an encoding the client "
              "cannot decode fails the RPC; an unflagged message on such a stream is delivered as is (it is not encoded). Compressors are the "
              "harness' toy transform (so wire bytes are predictable); gzip itself is not modelled (decomp(comp x)=x is the assumption). "
              "The e2e client/server share one process-wide registry (set per op through an export shim); differing registries are reached "
              "through the raw peers and the legacy options. Names are ASCII without spaces/commas.")
GAP = "gzip/real compressors (a parameter), message size limits, PreparedMsg, retries/hedging, stats/binlog payload views"
ASSUMPTIONS = ["decomp name (comp name x) = x for every registered compressor", "HTTP/2 + hpack deliver header values and DATA bytes faithfully"]
RULE = ("ops over the grid registry {-,c1,c1+c2} x UseCompressor {-,c1,c2,c3,identity} x WithCompressor {-,c1,lz} x WithDecompressor {-,c1,lz} x "
        "AcceptCompressors {nil,c1,c2,c1+c2,c3,...} x RPCCompressor {-,c1,lz} x RPCDecompressor {-,c1,lz} x SetSendCompressor {-,identity,c1,c2,c3} "
        "x message lists (empty message, non-empty, mixed): quick = directed sub-grids + random sample; thorough = the whole e2e grid; raw peers: "
        "arbitrary grpc-encoding / grpc-accept-encoding values and frames with flag 0/1/2, well- and ill-compressed payloads; a directed "
        "family of names that are substrings / superstrings / case variants of each other and of advertised lists with white space and "
        "empty tokens (the membership test of SetSendCompressor must be exact on trimmed tokens). "
        "Non-trivial op = some compression option/header is set.")

REGS = ["-", "c1", "c1+c2"]
USES = ["-", "c1", "c2", "c3", "identity"]
LEGS = ["-", "c1", "lz"]
ACCEPTS = ["nil", "c1", "c2", "c1+c2", "c3"]
ACCEPTS_X = ACCEPTS + ["-", "identity", "c1+c1", "identity+c2", "c2+c1"]
SETS = ["-", "identity", "c1", "c2", "c3"]
MSGS = ["6162", "e", "6162,e,63", "e,00ff5a", "-"]


def comp(name, hx):
    d = bytes.fromhex(hx) if hx != "e" else b""
    return (name.encode() + b":" + bytes(b ^ 0x5A for b in d)).hex()


def e2e(reg="c1+c2", use="-", cleg="-", cdc="-", accept="nil", scp="-", sdc="-", setsend="-", reqs="6162,e", resps="6364,e"):
    return "e2e %s %s %s %s %s %s %s %s %s %s" % (reg, use, cleg, cdc, accept, scp, sdc, setsend, reqs, resps)


def full_grid(rng):
    for reg, use, cleg, cdc, accept, scp, sdc, ss in itertools.product(REGS, USES, LEGS, LEGS, ACCEPTS, LEGS, LEGS, SETS):
        yield e2e(reg, use, cleg, cdc, accept, scp, sdc, ss, rng.choice(MSGS[:4]), rng.choice(MSGS[:4]))


def directed():
    # client choice x server reaction
    for reg, use, cleg, scp, sdc, ss in itertools.product(REGS, USES, LEGS, LEGS, LEGS, SETS):
        yield e2e(reg=reg, use=use, cleg=cleg, scp=scp, sdc=sdc, setsend=ss)
    # what the client accepts x what the server answers with
    for reg, accept, cdc, scp, ss, use in itertools.product(REGS, ACCEPTS_X, LEGS, LEGS, SETS, ["-", "c1"]):
        yield e2e(reg=reg, use=use, accept=accept, cdc=cdc, scp=scp, setsend=ss, reqs="6162", resps="e,6364")
    for m1, m2 in itertools.product(MSGS, MSGS):
        for use, scp in (("c1", "-"), ("-", "c1"), ("c2", "lz"), ("-", "-")):
            yield e2e(use=use, scp=scp, reqs=m1, resps=m2)


ENCS = ["-", "c1", "c2", "c3", "lz", "identity"]
ACCS = ["-", "c1", "c2", "c1,c2", "c2,c1,c3", "lz", "identity"]


def frames_for(rng, enc):
    """request/response frames a raw peer sends: correct, wrong compressor, uncompressed-but-flagged, flag 2, empty"""
    out = []
    for _ in range(rng.choice([1, 1, 2, 3])):
        hx = rng.choice(["6162", "e", "00ff5a", "63"])
        r = rng.random()
        name = enc if enc not in ("-", "identity") else "c1"
        if r < 0.35:
            out.append("0:" + hx)
        elif r < 0.70:
            out.append("1:" + comp(name, hx))
        elif r < 0.80:
            out.append("1:" + comp(rng.choice(["c1", "c2", "zz"]), hx))
        elif r < 0.90:
            out.append("1:" + hx)
        else:
            out.append("%d:%s" % (rng.choice([2, 3, 255]), hx))
    return ",".join(out)


def rawc(rng):
    reg, scp, sdc, ss = rng.choice(REGS), rng.choice(LEGS), rng.choice(LEGS), rng.choice(SETS)
    enc, acc = rng.choice(ENCS), rng.choice(ACCS)
    return "rawc %s %s %s %s %s %s %s %s" % (reg, scp, sdc, ss, enc, acc, frames_for(rng, enc), rng.choice(MSGS))


def raws(rng):
    reg, use, cleg, cdc = rng.choice(REGS), rng.choice(USES), rng.choice(LEGS), rng.choice(LEGS)
    accept, renc = rng.choice(ACCEPTS_X), rng.choice(ENCS)
    fr = frames_for(rng, renc) if rng.random() < 0.9 else "-"
    return "raws %s %s %s %s %s %s %s %s" % (reg, use, cleg, cdc, accept, rng.choice(MSGS), renc, fr)


def raw_directed():
    for reg, enc, sdc in itertools.product(REGS, ENCS, LEGS):
        name = enc if enc not in ("-", "identity") else "c1"
        for fr in ("0:6162", "1:" + comp(name, "6162"), "1:6162", "2:6162", "0:e", "1:" + comp(name, "e")):
            yield "rawc %s - %s - %s c1,c2 %s 6364" % (reg, sdc, enc, fr)
    for reg, scp, ss, enc, acc in itertools.product(REGS, LEGS, SETS, ["-", "c1", "c2"], ACCS):
        yield "rawc %s %s - %s %s %s 0:6162 6364,e" % (reg, scp, ss, enc, acc)
    for reg, renc, cdc, accept in itertools.product(REGS, ENCS, LEGS, ["nil", "c1", "c2"]):
        name = renc if renc not in ("-", "identity") else "c1"
        for fr in ("0:6364", "1:" + comp(name, "6364"), "1:6364", "2:6364", "0:e", "-"):
            yield "raws %s - - %s %s 6162 %s %s" % (reg, cdc, accept, renc, fr)


# Names that are related as strings without being equal: c12 / xc1 contain c1, C1 differs in case only.
# The advertised list is a comma-separated header whose tokens are compared EXACTLY after trimming
# white space (`~` = space in the op syntax): membership must not be confused with substring, prefix,
# case-insensitive or untrimmed comparison, nor be disturbed by empty tokens.
REL_REGS = ["c1+c12", "c1+xc1", "c12+c1+c2", "c1+c2"]
REL_ACCS = ["c12", "xc1", "c12,c2", "c2,xc1", "c2,c12,xc1", "C1", "C1,c2", "c", "1", "c1c2", "c1;c2",
            "~c1", "c1~", "c2,~c1~", "~c1~,~c2~", ",c1", "c1,", "c2,,c1", ",", "c1~c2", "c12,c1", "xc1,c1"]
REL_SETS = ["c1", "c12", "xc1", "c2"]


def related_names():
    """directed family: SetSendCompressor / same-as-request selection against advertised lists whose
    tokens merely resemble the chosen name"""
    for reg, acc, ss in itertools.product(REL_REGS, REL_ACCS, REL_SETS):
        if ss not in reg.split("+"):
            continue
        for enc in ("-", "c2"):
            if enc != "-" and enc not in reg.split("+"):
                continue
            fr = "0:6162" if enc == "-" else "1:" + comp(enc, "6162")
            yield "rawc %s - - %s %s %s %s 6364,e" % (reg, ss, enc, acc, fr)
    # the same through the real client: AcceptCompressors restricts what is advertised
    for reg, accept, ss, use in itertools.product(["c1+c12", "c1+xc1", "c12+c1+c2"],
                                                  ["c12", "xc1", "c12+c2", "~c12~", "c1", "c12+c1"], REL_SETS, ["-", "c12"]):
        names = reg.split("+")
        if ss not in names or (use != "-" and use not in names):
            continue
        if any(a.strip("~") not in names for a in accept.split("+")):
            continue
        yield e2e(reg=reg, use=use, accept=accept, setsend=ss, reqs="6162", resps="6364,e")


def rand_e2e(rng):
    return e2e(rng.choice(REGS + ["c2+c1"]), rng.choice(USES), rng.choice(LEGS), rng.choice(LEGS), rng.choice(ACCEPTS_X),
               rng.choice(LEGS), rng.choice(LEGS), rng.choice(SETS), rng.choice(MSGS), rng.choice(MSGS))


def gen(rng, tier):
    ops = []
    if tier == "quick":
        d = list(directed())
        rng.shuffle(d)
        ops += d[:1500]
        r = list(raw_directed())
        rng.shuffle(r)
        ops += r[:900]
        rel = list(related_names())
        rng.shuffle(rel)
        ops += rel[:400]
        ops += [rand_e2e(rng) for _ in range(400)]
        ops += [rawc(rng) for _ in range(300)] + [raws(rng) for _ in range(300)]
    else:
        ops += list(directed()) + list(raw_directed()) + list(related_names())
        if tier == "thorough":
            ops += list(full_grid(rng))
        ops += [rand_e2e(rng) for _ in range(4000)]
        ops += [rawc(rng) for _ in range(5000)] + [raws(rng) for _ in range(5000)]
    seen = set()
    uniq = []
    for o in ops:
        if o not in seen:
            seen.add(o)
            uniq.append(o)
    chunk = 300
    for i in range(0, len(uniq), chunk):
        yield Case("s_compress", uniq[i:i + chunk], "compress-%d" % (i // chunk))


UNIT = "op"


def nontrivial_op(op, out):
    f = op.split(" ")
    if f[0] == "e2e":
        return any(x != "-" for x in (f[2], f[3], f[4], f[6], f[7], f[8])) or f[5] != "nil"
    if f[0] == "rawc":
        return f[5] != "-" or f[2] != "-" or f[4] != "-"
    return f[7] != "-" or f[2] != "-" or f[3] != "-"
