"""C01 Outbound DATA never exceeds the peer's flow-control windows."""
from vlib import loopygen

ID = "C01"
COMPONENTS = ["loopy"]
T4 = ["Loopy"]
PROOF_MODULES = ["GrpcProofs.Properties.C01"]
THEOREMS = ["GrpcProofs.C01." + t for t in ("placeholder",)]
DESIGN_REF = "DESIGN.md section 8, C01"
TECHNIQUE = "x"
LEVEL_TEXT = "x"
LEVEL_NOTE = "x"
GAP = "x"
ASSUMPTIONS = []
RULE = "x"


def gen(rng, tier):
    return loopygen.gen_cases(rng, tier, "loopy")


nontrivial = loopygen.nontrivial
