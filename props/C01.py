"""C01 Outbound DATA never exceeds the peer's flow-control windows."""
from vlib import loopygen

ID = "C01"
COMPONENTS = ["loopy"]
T4 = ["Loopy"]
PROOF_MODULES = ["GrpcProofs.Properties.C01"]
THEOREMS = ["GrpcProofs.C01." + t for t in (
    "c01_holds", "ledger_invariant", "conn_window_never_negative", "data_within_windows",
    "data_frame_le_16384", "header_fragment_le_16384", "header_split_exact")]
DESIGN_REF = "DESIGN.md section 8, C01"
TECHNIQUE = ("Lean 4 theorems by induction over the history (ledger invariant sendQuota <= peer conn window, "
             "oiws - bytesOutStanding = peer stream window) about a line-for-line model of loopyWriter + T1 op-level differential "
             "correspondence against the real loopyWriter/framer (frames decoded by an independent x/net/http2 Framer) + T4 constants")
LEVEL_TEXT = ("Machine-checked Lean proof, for every history of control items and processData calls on either side (any writes, "
              "WINDOW_UPDATEs incl. uint32 wrap-around, SETTINGS raising/lowering the initial window, resets, trailers, GOAWAY, any map "
              "iteration order, any HPACK block length), that every DATA frame fits the peer's connection and stream windows (RFC 7540 "
              "6.9 ledger computed from the trace), is <= 16384 bytes, and every HEADERS/CONTINUATION fragment is <= 16384 bytes; the model "
              "is diffed op by op against the real loopyWriter on every run and the same ledger predicate is evaluated on the real frames.")
LEVEL_NOTE = ("Trusted: Lean kernel; the hand model lean/GrpcModel/Model/Loopy.lean (tied by the differential run: frames, sendQuota, oiws, "
              "activeStreams order, per-stream state/bytesOutStanding/queue head/writeQuota replenish after EVERY op); HPACK block length and "
              "applySettings' map iteration order are oracle inputs of the model (theorems hold for all values). Reading: a stream's window "
              "starts at the peer's current initial window when the stream is opened (registerStream on the server, our HEADERS on the client); "
              "an empty DATA frame may be sent with no window (RFC 7540 6.9). Outside the model: re-registration of a stream id that is still "
              "established (never done by the transports; the model answers UNMODELLED and the generator never produces it); Go int overflow of "
              "bytesOutStanding (needs > 2^31 maximal WINDOW_UPDATEs on one stream).")
GAP = ("bufWriter batching/flush timing and the run() loop's scheduling (the harness calls handle/processData itself and flushes after each); "
       "HPACK encoding (length is an input); http2Client/http2Server producing the control items")
ASSUMPTIONS = ["stream ids are never registered while still established (http2Client nextID, http2Server maxStreamID check)",
               "Go int is 64 bit and bytesOutStanding does not overflow it",
               "x/net/http2 Framer writes the frame it is asked to write (frames are re-decoded by an independent Framer instance)"]
RULE = ("seeded random walks over all control-item kinds (6 profiles: mixed, window-starved, settings storms, trailers, big messages, control frames), "
        "1-6 concurrent streams, message sizes around 0/5/16379/16384/16385/65535/1MiB, WINDOW_UPDATE increments incl. 0, 2^31-1, 2^32-1, "
        "SETTINGS_INITIAL_WINDOW_SIZE incl. 0 and lowering below bytes in flight, "
        "response HEADERS / trailers / data / window updates addressed at any time to live, finished, cleaned-up and never-registered streams, a directed after-close family (every item kind after every way a stream can end in the writer: cleanupStream with/without RST_STREAM, trailers at once / behind data / starved then reset, client END_STREAM then cleanup), "
        "~35% undisciplined histories, plus 16 hand-written corner cases; "
        "a case is non-trivial when the real writer emitted DATA and at least one stream had to wait for stream quota")


def gen(rng, tier):
    return loopygen.gen_cases(rng, tier, "loopy")


nontrivial = loopygen.nontrivial
