"""C58 Security-requiring per-RPC credentials never go over weak connections."""
from vlib.core import Case

ID = "C58"
COMPONENTS = ["s_credspolicy"]
T4 = ["CredsPolicy"]
PROOF_MODULES = ["GrpcProofs.Properties.C58"]
THEOREMS = ["GrpcProofs.C58." + t for t in (
    "security_level_order", "decision_table", "rpc_class_eq_table",
    "never_sent_below_privacy_and_integrity", "fails_before_any_credential_metadata",
    "weak_call_cred_never_invoked", "sent_on_strong_connection", "delivered_unchanged_when_allowed",
    "nothing_invented", "unknown_level_reading")]
DESIGN_REF = "DESIGN.md section 8, C58"
TECHNIQUE = ("Lean 4: the decision procedure of validateTransportCredentials / NewHTTP2Client / getTrAuthData / getCallAuthData / "
             "CheckSecurityLevel ported as a total function of the configuration; the finite decision table (transport kind x "
             "AuthInfo kind x how configured x dial/bundle/call credentials require?) proved cell by cell (exhaustive case split, "
             "kernel-evaluated) and lifted to arbitrary credential lists and metadata by general lemmas; tie T2: every cell and "
             "random metadata run end-to-end (real grpc.Server + ClientConn over bufconn in a synctest bubble), T4: SecurityLevel iota order")
LEVEL_TEXT = ("Machine-checked proof, for every configuration (any number of dial-level credentials, any metadata), that the model of "
              "the client's credential path writes credential header fields only if no configured credential requires security or the "
              "negotiated level is not known to be below PrivacyAndIntegrity; that otherwise it fails (dial error, connection error or "
              "UNAUTHENTICATED) with no header written and without even invoking the call credential; and that on a "
              "PrivacyAndIntegrity connection with well-formed metadata exactly the credentials' pairs (keys lower-cased, values "
              "unchanged) are written. The model is diffed on every run against the real client and server for every cell of the table.")
LEVEL_NOTE = ("Readings: (1) 'below privacy-and-integrity' = the AuthInfo reports NoSecurity or IntegrityOnly. InvalidSecurityLevel, an "
              "AuthInfo without GetCommonAuthInfo and a nil AuthInfo are 'level unknown': the code accepts the first two everywhere "
              "(documented backward compatibility in CheckSecurityLevel) and the nil AuthInfo for dial-level credentials only; theorem "
              "unknown_level_reading states exactly that, so it is visible, not hidden. (2) 'delivered unchanged' = keys ASCII-lower-cased, "
              "values byte-identical, connection-level credentials merged into ONE map (a later credential overrides an earlier one on "
              "the same key), then the call credential's pairs. (3) observation point for 'before any credential metadata is written' is "
              "the server: its handler never runs; plus which GetRequestMetadata were invoked. Domain of the tie: ASCII keys without "
              "case collisions inside one credential, not reserved/pseudo header names (createHeaderFields does not filter those for credentials). "
              "Trusted: Lean kernel; the model (tied by the exhaustive e2e run); what insecure/local/TLS credentials report is part of the "
              "model (TKind.handshake) and is exercised with the real credentials packages (local's peer address is faked by a net.Conn wrapper).")
GAP = "ALTS/xDS/google credentials (only their reported SecurityLevel matters to this code); PerRPCCredentials that return errors; retries"
ASSUMPTIONS = ["credential metadata keys are ASCII", "hpack/base64 transport of header values is faithful (C09)"]
RULE = ("exhaustive: 17 transport kinds (insecure, local tcp/uds/remote, tls, custom x {protocol insecure|x} x 6 AuthInfo kinds) x 5 ways of "
        "configuring x dial creds {-,N,R,N;R,R;N} x bundle cred {-,N,R} x call cred {-,N,R}; plus random configurations with 0-3 dial "
        "credentials and random metadata (upper-case keys, -bin keys, invalid keys, non-printable values, same key in several credentials). "
        "Unit = one op (one fresh server+channel+RPC); non-trivial = at least one credential configured.")

AUTHS = ["nil", "nocommon", "invalid", "none", "integrity", "privacy"]
TKINDS = ["insecure", "localtcp", "localuds", "localremote", "tls"] + ["custom:%s:%s" % (p, a) for p in ("insecure", "x") for a in AUTHS]
VIAS = ["opt", "bundle", "none", "both", "bundlenotc"]


def hx(s):
    if isinstance(s, str):
        s = s.encode("latin-1")
    return s.hex()


def cred(req, md):
    return ("R" if req else "N") + "/" + ",".join("%s=%s" % (k, hx(v)) for k, v in md)


D0 = [("authorization", "tok-d0"), ("x-d0", "1")]
D1 = [("authorization", "tok-d1"), ("X-D1", " v ")]
B = [("x-b-bin", b"\x00\xff"), ("authorization", "tok-b")]
C = [("Authorization", "tok-c"), ("x-c", "~")]


def table():
    for tk in TKINDS:
        for via in VIAS:
            for dial in ("-", "N", "R", "NR", "RN"):
                for b in ("-", "N", "R"):
                    for c in ("-", "N", "R"):
                        d = "-" if dial == "-" else ";".join(cred(ch == "R", D0 if i == 0 else D1) for i, ch in enumerate(dial))
                        bb = "-" if b == "-" else cred(b == "R", B)
                        cc = "-" if c == "-" else cred(c == "R", C)
                        yield "rpc %s %s %s %s %s" % (tk, via, d, bb, cc)


GOODKEYS = ["authorization", "x-tok", "tok-bin", "k.1_a", "grpc-x", "a", "z9-bin"]
UPKEYS = ["Authorization", "X-TOK", "Tok-Bin", "K.1_A", "A"]
BADKEYS = ["k@y", "K!", "", "a/b", "x~"]
GOODVALS = [b"", b"a", b" a", b"a ", b"tok123", b"~ ~", b"Bearer abc.def"]
BADVALS = [b"\x00", b"a\x7f", b"\x80x", b"\x1f", b"\xff\xfe"]


def rand_cred(rng, pbad):
    n = rng.choice([0, 1, 1, 2, 2, 3])
    md = []
    used = set()
    for _ in range(n):
        r = rng.random()
        k = rng.choice(BADKEYS) if r < pbad else rng.choice(UPKEYS) if r < pbad + 0.25 else rng.choice(GOODKEYS)
        if k.lower() in used:
            continue
        used.add(k.lower())
        v = rng.choice(BADVALS) if rng.random() < (0.5 if k.lower().endswith("-bin") else pbad) else rng.choice(GOODVALS)
        md.append((k, v))
    return cred(rng.random() < 0.5, md)


def rand_op(rng):
    tk = rng.choice(TKINDS)
    via = rng.choice(["opt", "opt", "opt", "bundle", "bundle", "none", "both", "bundlenotc"])
    pbad = rng.choice([0.0, 0.0, 0.0, 0.08, 0.2])
    nd = rng.choice([0, 1, 1, 2, 3])
    d = ";".join(rand_cred(rng, pbad) for _ in range(nd)) or "-"
    b = rand_cred(rng, pbad) if rng.random() < 0.5 else "-"
    c = rand_cred(rng, pbad) if rng.random() < 0.7 else "-"
    return "rpc %s %s %s %s %s" % (tk, via, d, b, c)


def gen(rng, tier):
    n_rand = {"quick": 1500, "thorough": 60000, "search": 20000}[tier]
    ops = list(table())
    seen = set(ops)
    for _ in range(n_rand):
        o = rand_op(rng)
        if o not in seen:
            seen.add(o)
            ops.append(o)
    chunk = 250
    for i in range(0, len(ops), chunk):
        yield Case("s_credspolicy", ops[i:i + chunk], "credspolicy-%d" % (i // chunk))


UNIT = "op"


def nontrivial_op(op, out):
    f = op.split(" ")
    return len(f) == 6 and (f[3] != "-" or f[4] != "-" or f[5] != "-")
