"""C32 RPCs are only sent on READY subchannels via the latest picker."""
from vlib.core import Case

ID = "C32"
COMPONENTS = ["s_pickerwrapper"]
T4 = ["PickerWrapper"]
PROOF_MODULES = ["GrpcProofs.Properties.C32"]
THEOREMS = ["GrpcProofs.C32." + t for t in (
    "stamps_are_current", "picker_used_ge_gen_at_start_or_last_block", "picker_used_is_published_picker",
    "repick_only_on_newer_picker", "returns_transport_only_if_ready_at_return", "returned_transport_was_ready",
    "blocks_rather_than_fails", "blocking_result_blocks_until_newer_picker", "not_ready_subconn_blocks",
    "failfast_nonstatus_is_unavailable", "status_error_ends_rpc", "woken_by_every_update",
    "blocked_only_without_newer_picker", "restricted_codes_are_a54",
    "attempt_pick_failfast_is_rpc_failfast", "wait_for_ready_attempt_never_fails_on_picker_error")]
DESIGN_REF = "DESIGN.md section 8, C32"
TECHNIQUE = ("Lean 4 theorems over an interleaving model of pickerWrapper.pick (program points of the pick loop, generations as "
             "naturals, any number of concurrent picks, every action sequence), proved by an inductive invariant over the trace; "
             "tie T2: the real pickerWrapper in a testing/synctest bubble with scripted pickers that park every Pick call, fake "
             "SubConns whose readiness flips, concurrent picks; T4: status codes regenerated from codes/codes.go")
LEVEL_TEXT = ("Machine-checked proof, for every interleaving of picker updates, idle resets, close, SubConn state changes, context "
              "expiry, Pick results and any number of concurrent picks, that a Pick call uses the picker of a generation >= the one "
              "current when the pick started or last blocked (and strictly newer than any it used or blocked on before), that a "
              "transport is returned only when the picked SubConn is READY with that transport at the ready check that precedes "
              "the return, that ErrNoSubConnAvailable / non-ready / foreign SubConn / non-status error on a wait-for-ready RPC lead "
              "to blocking until a newer picker (never to an error), that the only errors are closing, context expiry, picker "
              "status errors (A54 restricted codes -> INTERNAL) and UNAVAILABLE for fail-fast non-status errors, and that every "
              "update/reset/close wakes every blocked pick, and that every attempt of an RPC (first, transparent retry, policy retry: any "
              "numRetries/firstAttempt) picks with the RPC's own fail-fast flag, so no attempt of a wait-for-ready RPC ever fails on a "
              "non-status picker error. The model is diffed against the real pickerWrapper on every run.")
LEVEL_NOTE = ("Trusted: Lean kernel; the hand model lean/GrpcModel/Model/PickerWrapper.lean (load+Pick-call and ready-check+return are "
              "single steps: no shared access lies between them); Go semantics of atomic.Pointer Swap/Load, close(chan) and select "
              "(a closed channel is ready; choice between two ready cases is arbitrary = the model's preferCtx bit); "
              "'READY when the pick returned' is read at getReadyTransport (under ac.mu), the last shared access before the return. "
              "The tie cannot stop the real goroutine between Load and the Pick call, nor between Pick's return and "
              "getReadyTransport (it parks it inside Pick instead, which dominates both windows). SubConns are bare addrConn "
              "structs whose state/transport are set under ac.mu by the harness (the real addrConn lifecycle is C30). "
              "The call site stream.go csAttempt.getTransport is driven for real through an export shim on a bare clientStream whose "
              "call-site-visible fields (callInfo.failFast, numRetries, firstAttempt) are set by the op; the retry loop that produces those "
              "values is C18's. updatePicker/reset after close are excluded (callers' contract; the real code would nil-dereference).")
GAP = "custom context.Context whose Err() is neither Canceled nor DeadlineExceeded (pick would spin); channelz accounting; Go scheduler fairness"
ASSUMPTIONS = ["updatePicker/reset are never called after close (guaranteed by ccBalancerWrapper.UpdateState / ClientConn.Close)",
               "context errors are context.Canceled or context.DeadlineExceeded"]
RULE = ("directed scenarios (update between Pick call and return, non-ready/foreign SubConn, readiness flip while in Pick, READY with "
        "nil transport, all status codes 0..17/99 plain and wrapped, fail-fast vs wait-for-ready, GRPCStatus()==nil, idle/close while "
        "blocked or in Pick, deadline/cancel while blocked or in Pick, mass wake-up; the call site csAttempt.getTransport for every "
        "combination of fail-fast/wait-for-ready x numRetries in {0,1,2,5} x firstAttempt x every class of picker result) + random op sequences from a Python mirror "
        "of the loop (so that most ops are valid) with 1-5 concurrent picks, half of them started through getTransport with random attempt state; a case is non-trivial if some pick blocked and some "
        "pick returned; distinct = distinct op sequence")

STATES = ["idle", "connecting", "ready", "tf", "shutdown"]


class Sim:
    """Untrusted mirror of the pick loop, used only to generate mostly-valid op sequences."""

    def __init__(self):
        self.pickers = [False]
        self.closed = False
        self.sc = {}
        self.thr = {}
        self.clock = 0

    def cur(self):
        return len(self.pickers) - 1

    def settle(self):
        for t in self.thr.values():
            for _ in range(8):
                if t["pc"] == "load":
                    if self.closed:
                        t["pc"] = "done"
                        continue
                    g = self.cur()
                    ch = g if not self.pickers[g] else t["ch"]
                    if ch == g:
                        t["ch"] = ch
                        t["pc"] = "block"
                        t["g"] = g
                    else:
                        t["ch"] = g
                        t["pc"] = "inpick"
                elif t["pc"] == "block":
                    if t["ctx"]:
                        t["pc"] = "done"
                    elif t["g"] < self.cur() or self.closed:
                        t["pc"] = "load"
                    else:
                        break
                else:
                    break

    def apply(self, op):
        try:
            self.apply1(op)
        except (ValueError, IndexError, KeyError):
            pass

    def apply1(self, op):
        f = op.split()
        if f[0] == "update":
            if self.closed:
                return
            self.pickers.append(f[1] == "p")
        elif f[0] == "idle":
            if self.closed:
                return
            self.pickers.append(False)
        elif f[0] == "close":
            self.closed = True
        elif f[0] == "sc":
            self.sc[int(f[1])] = (f[2], int(f[3]))
        elif f[0] in ("pick", "attempt"):
            if int(f[1]) in self.thr:
                return
            to = int(f[-1])
            self.thr[int(f[1])] = {"pc": "load", "ch": None, "ff": f[2] != "0", "ctx": False, "g": 0,
                                   "dl": (self.clock + to) if to else None}
        elif f[0] == "ret":
            t = self.thr.get(int(f[1]))
            if not t or t["pc"] != "inpick":
                return
            k = f[2]
            if k in ("nosc", "foreign"):
                t["pc"] = "load"
            elif k in ("st", "wst"):
                t["pc"] = "done"
            elif k in ("err", "nilst"):
                t["pc"] = "done" if t["ff"] else "load"
            else:
                st, tr = self.sc.get(int(f[3]), ("idle", 0))
                t["pc"] = "done" if (st == "ready" and tr != 0) else "load"
        elif f[0] == "cancel":
            t = self.thr.get(int(f[1]))
            if t:
                t["ctx"] = True
        elif f[0] == "sleep":
            self.clock += int(f[1])
            for t in self.thr.values():
                if t["dl"] is not None and t["dl"] <= self.clock:
                    t["ctx"] = True
        self.settle()


def rand_ret(rng, sim, tid):
    r = rng.random()
    if r < 0.22:
        return "ret %d nosc" % tid
    if r < 0.60:
        k = rng.randrange(1, 4)
        return "ret %d %s %d" % (tid, "sc" if rng.random() < 0.8 else "scnd", k)
    if r < 0.72:
        return "ret %d %s %d" % (tid, rng.choice(["err", "err", "nilst"]), rng.randrange(1, 9))
    if r < 0.92:
        code = rng.choice(list(range(0, 18)) + [99])
        return "ret %d %s %d" % (tid, rng.choice(["st", "st", "wst"]), code)
    return "ret %d foreign" % tid


def random_case(rng, n):
    sim = Sim()
    ops = []
    next_tid = 1
    max_thr = rng.randrange(1, 6)
    while len(ops) < n:
        inpick = [i for i, t in sim.thr.items() if t["pc"] == "inpick"]
        live = [i for i, t in sim.thr.items() if t["pc"] != "done"]
        r = rng.random()
        if r < 0.30 and inpick:
            op = rand_ret(rng, sim, rng.choice(inpick))
        elif r < 0.45 and len(live) < max_thr:
            if rng.random() < 0.5:
                op = "pick %d %d %d" % (next_tid, rng.randrange(2), rng.choice([0, 0, 0, 2, 5]))
            else:
                # an attempt of an RPC through the real call site csAttempt.getTransport
                op = "attempt %d %d %d %d %d" % (next_tid, rng.randrange(2), rng.choice([0, 0, 1, 1, 2, 3, 7]), rng.randrange(2),
                                                 rng.choice([0, 0, 0, 2, 5]))
            next_tid += 1
        elif r < 0.62:
            op = "update p" if rng.random() < 0.85 else "update nil"
        elif r < 0.80:
            k = rng.randrange(1, 4)
            st = rng.choice(STATES + ["ready", "ready"])
            tr = rng.randrange(1, 4) if (st == "ready" and rng.random() < 0.9) or rng.random() < 0.15 else 0
            op = "sc %d %s %d" % (k, st, tr)
        elif r < 0.85:
            op = "idle"
        elif r < 0.90 and live:
            op = "cancel %d" % rng.choice(live)
        elif r < 0.96:
            op = "sleep %d" % rng.randrange(1, 4)
        elif r < 0.975:
            op = "close"
        elif r < 0.985:
            # a (probably) invalid op: both sides must agree it is rejected
            op = rng.choice(["ret %d nosc" % rng.randrange(1, 8), "pick 1 0 0", "cancel %d" % rng.randrange(1, 9), "ret 1 sc x", "update q"])
        else:
            continue
        if sim.closed and op.split()[0] in ("update", "idle", "close") and rng.random() < 0.8:
            continue
        sim.apply(op)
        ops.append(op)
    return ops


def directed():
    yield "stale-window", ["pick 1 0 0", "update p", "update p", "update p", "ret 1 nosc", "sc 1 ready 1", "ret 1 sc 1"]
    yield "stale-window-2", ["update p", "pick 1 0 0", "update p", "ret 1 sc 1", "sc 1 ready 2", "update p", "ret 1 sc 1"]
    yield "not-ready-blocks", ["update p", "pick 1 1 0", "ret 1 sc 2", "sc 2 ready 5", "sleep 3", "update p", "ret 1 sc 2"]
    yield "flip-in-pick", ["sc 1 ready 1", "update p", "pick 1 0 0", "sc 1 tf 0", "ret 1 sc 1", "sc 1 ready 2", "update p", "sc 1 idle 0", "ret 1 sc 1",
                           "update p", "sc 1 ready 3", "ret 1 scnd 1"]
    yield "ready-nil-transport", ["sc 1 ready 0", "update p", "pick 1 0 0", "ret 1 sc 1", "sc 1 connecting 4", "update p", "ret 1 sc 1", "update p",
                                  "sc 1 ready 4", "ret 1 sc 1"]
    for st in STATES:
        yield "state-" + st, ["sc 1 %s 3" % st, "update p", "pick 1 1 0", "pick 2 0 0", "ret 1 sc 1", "ret 2 scnd 1"]
    for code in list(range(0, 18)) + [99, 1000]:
        yield "status-%d" % code, ["update p", "pick 1 0 0", "pick 2 1 0", "pick 3 0 0", "ret 1 st %d" % code, "ret 2 wst %d" % code, "ret 3 nosc"]
    yield "failfast", ["update p", "pick 1 1 0", "pick 2 0 0", "pick 3 1 0", "pick 4 0 0", "ret 1 err 7", "ret 2 err 8", "ret 3 nilst 9", "ret 4 nilst 2",
                       "update p", "ret 2 err 3", "cancel 2", "ret 4 nosc", "cancel 4"]
    yield "lastpickerr-deadline", ["update p", "pick 1 0 4", "ret 1 err 6", "sleep 3", "update p", "ret 1 nosc", "sleep 1", "sleep 1"]
    yield "cancel-in-pick", ["update p", "pick 1 0 0", "pick 2 0 0", "cancel 1", "cancel 2", "update p", "ret 1 nosc", "ret 2 nosc", "ret 1 nosc"]
    yield "idle-reset", ["pick 1 0 0", "update p", "pick 2 0 0", "idle", "ret 1 nosc", "ret 2 foreign", "idle", "update p", "ret 1 nosc", "update nil", "update p"]
    yield "close-blocked", ["pick 1 0 0", "update p", "pick 2 0 0", "ret 1 nosc", "close", "ret 2 nosc", "pick 3 1 0", "update p", "idle", "close"]
    yield "close-in-check", ["update p", "sc 1 ready 1", "pick 1 0 0", "close", "ret 1 sc 1", "pick 2 0 0"]
    yield "mass-wake", ["pick %d %d 0" % (i, i % 2) for i in range(1, 7)] + ["update nil", "idle", "update p"] + ["ret %d nosc" % i for i in range(1, 7)] + \
        ["sc 1 ready 1", "update p"] + ["ret %d sc 1" % i for i in range(1, 7)]
    yield "foreign", ["update p", "pick 1 1 0", "ret 1 foreign", "update p", "ret 1 foreign", "sleep 1", "update p", "sc 1 ready 1", "ret 1 sc 1"]
    # the call site: every attempt kind (numRetries, firstAttempt) x fail-fast/wait-for-ready x every class of picker result
    for ff in (0, 1):
        for nr in (0, 1, 2, 5):
            for first in (0, 1):
                yield "callsite-ff%d-nr%d-first%d" % (ff, nr, first), ["update p"] + \
                    ["attempt %d %d %d %d 0" % (i, ff, nr, first) for i in range(1, 7)] + \
                    ["ret 1 err 3", "ret 2 nilst 4", "ret 3 nosc", "ret 4 sc 1", "ret 5 st 14", "ret 6 foreign", "sc 1 ready 2", "update p",
                     "ret 1 err 5", "ret 2 sc 1", "ret 3 sc 1", "ret 4 wst 9", "ret 6 sc 1", "update p", "ret 1 sc 1"]
    yield "callsite-deadline", ["update p", "attempt 1 0 1 0 3", "attempt 2 0 2 0 0", "ret 1 err 3", "ret 2 err 4", "sleep 3", "cancel 2", "attempt 3 0 1 0 0", "close"]
    yield "bad-ops", ["ret 1 nosc", "cancel 1", "pick 1 0 0", "pick 1 0 0", "ret 1 nosc", "update x", "sc 1 foo 1", "close", "update p", "idle", "close", "sleep 1"]


def gen(rng, tier):
    n_rand = {"quick": 500, "thorough": 20000, "search": 6000}[tier]
    for tag, ops in directed():
        yield Case("s_pickerwrapper", ops, tag)
    for i in range(n_rand):
        yield Case("s_pickerwrapper", random_case(rng, rng.randrange(8, 60)), "rand-%d" % i)


def nontrivial(case, impl_lines):
    txt = " ".join(impl_lines)
    return "blocked" in txt and ("=ok:" in txt or "=err:" in txt)
