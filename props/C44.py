"""C44 Management-server fallback follows gRFC A71."""
from vlib.core import Case, load_prop

ID = "C44"
COMPONENTS = ["s_xdsauth"]
T4 = []
PROOF_MODULES = ["GrpcProofs.Properties.C44"]
THEOREMS = ["GrpcProofs.C44." + t for t in (
    "fallback_only_if_failed_before_any_response_and_uncached_watch", "fallback_needs_uncached_watch",
    "fallback_if", "no_fallback_otherwise",
    "no_channel_below_active", "channels_are_prefix_up_to_active", "fallback_goes_to_next", "revert_releases_behind_a_gap",
    "revert_on_higher_priority_update_releases_lower", "update_from_active_keeps_servers",
    "updates_below_active_ignored")]
DESIGN_REF = "DESIGN.md section 8, C44"
TECHNIQUE = ("Lean 4 theorems about the port of handleADSStreamFailure / fallbackToServer / handleRevertingToPrimaryOnUpdate "
             "(authority.go), for all authority states and events, plus an invariant over all histories without stale reports; "
             "T2 correspondence on the real xdsclient.XDSClient with 1-3 scripted management servers under testing/synctest: active "
             "server, channels built/closed, per-server subscriptions and the authority's channel sets diffed after every event")
LEVEL_TEXT = ("Machine-checked proof that in the model of the authority the active server moves to a lower priority only when the "
              "ACTIVE server's stream fails before any response while a watched resource is uncached, and then to the first server "
              "after it without a channel (all resources are re-subscribed there, watchers hear nothing); that failures of other "
              "servers, failures after a response, and failures with everything cached never move it; that in every history the "
              "channels held are exactly servers 0..active and a fallback goes to active+1; that an update from a higher-priority "
              "server makes it active, is processed, and unsubscribes + releases every server below it; and that updates from below "
              "the active server change nothing and reach nobody; that in EVERY history (failing transport creations, which make fallback "
              "skip a server, and stale reports included) the authority never holds a channel below its active server. The model is replayed "
              "against the real client on every run.")
LEVEL_NOTE = ("Transport-creation faults are modelled (Auth.nobuild / event env; an existing shared channel is reused without building): "
              "fallback skips an unbuildable server, channels_are_prefix_up_to_active holds for fault-free histories, "
              "no_channel_below_active and the revert theorem for all. The harness client has a second authority `b` whose server list starts at a configurable index of the "
              "top-level list: with different lists a fallback server of one authority is the primary of the other and its channel "
              "survives the release, so the revert's unsubscribe is observable (monitor: every live server is asked for exactly the "
              "resources subscribed on it; theorem revert_on_higher_priority_update_releases_lower gives `unsub i k` for every lower "
              "server, C43.chanUnsub_forgets that an open channel then forgets the resource). Full statement since /repo 98104fb (handleADSStreamFailure now requires the failing server to be the active one); before "
              "it the first theorem was _partial with a counterexample theorem, findings F40 (non-active failure) and F41 (stale report "
              "of a released channel), both now `fixed` in known_findings/C44.jsonl; reverting that commit makes this check report the "
              "violation again with a failing input. Observations that are NOT clauses of C44 (kept in the notes, reproduced on the real "
              "code): handleADSResourceUpdate returns before arming onDone for an update from below the active server (theorem "
              "updates_below_active_ignored has done = false; with two authorities sharing the channel its ADS flow control wedges: "
              "harness/synct/c_xdsauth_obs_test.go, patch in known_findings/patches); a resource first watched during fallback is "
              "subscribed only on the fallback server and is requested from no server after the revert (theorem "
              "watch_during_fallback_is_lost_on_revert, patch in known_findings/patches).")
GAP = ("the order in which same-instant reports of different channels reach the authority (fixed by the harness pacing: lowest server "
       "first); multi-authority sharing of channels; real transports")
ASSUMPTIONS = ["backoff constant 1 s, watch expiry 2505 ms (harness configuration)"]
RULE = ("authority b's server list starts at a random index of the top-level list (cfg 5th field), so fallback servers of the top-level "
        "authority are shared with an authority that has a DIFFERENT list and stays on them (family shared_fallback: fall back onto b's "
        "server, higher-priority server returns; seeded change C44-seed28); half directed skeletons (a transport that cannot be created (op nobuild) leaves a gap in the fallback chain and then a higher-"
        "priority server returns — seeded change C44-seed11 / primary down at start / stream break before or after the first response / everything cached / two "
        "updates queued behind a busy serializer / a failure report queued behind the update that releases its channel / watch during "
        "fallback then revert) with a random tail, half random histories as for C43; 1-3 servers. Non-trivial: the active server takes "
        "at least two different values; distinct = distinct op list")

_c43 = load_prop("C43")


def directed(rng, n):
    """Scenario skeletons around fallback / revert, randomly perturbed."""
    ops = []
    k = rng.randrange(8)
    names = _c43.NAMES
    if k >= 6:      # a transport that cannot be created leaves a gap in the fallback chain; then a higher server returns
        if n < 3:
            k = rng.randrange(6)
        else:
            gap = rng.choice([1, 1, 2])
            ops += ["nobuild %d" % gap, "down 0", "watch T r1 1"]
            if gap == 2:
                ops += ["down 1"]
            if rng.random() < 0.5:
                ops += ["watch T b_r1 2"]
            ops += ["sleep %d" % rng.choice([10, 1000])]
            if rng.random() < 0.7:
                ops += ["nobuild -"]
            ops += ["up 0", "up 1", "sleep 1000", "respond %d T v1 r1:ok:c1,b_r1:ok:c2" % rng.choice([0, 0, 1]),
                    "sleep 1000", "respond 0 T v2 r1:ok:c2"]
            return ops
    if k == 0:      # primary down at start, fallback chain, primary comes back
        ops += ["down 0", "watch T r1 1"]
        if n == 3 and rng.random() < 0.5:
            ops += ["down 1"]
        ops += ["sleep %d" % rng.choice([500, 1000, 2000])]
        ops += ["respond %d T v1 r1:ok:c1" % rng.randrange(n)]
        ops += ["up 0", "sleep 1000", "respond 0 T v2 r1:ok:c2"]
    elif k == 1:    # stream breaks before / after first response
        ops += ["watch T r1 1", "watch T r2 2"]
        if rng.random() < 0.5:
            ops += ["respond 0 T v1 r1:ok:c1"]
        ops += ["break 0", "sleep %d" % rng.choice([10, 1000, 1500])]
        ops += ["respond %d T v2 r1:ok:c1,r2:ok:c2" % rng.randrange(n)]
    elif k == 2:    # everything cached: no fallback
        ops += ["watch T r1 1", "respond 0 T v1 r1:ok:c1", "down 0", "break 0", "sleep 1000", "sleep 1000"]
        ops += ["watch T r2 2", "sleep 1000"]
    elif k == 3:    # updates racing with revert: queue them behind a busy serializer
        ops += ["down 0", "watch T r1 1", "up 0", "sleep 1000", "hold"]
        a, b = rng.sample(range(n), 2) if n > 1 else (0, 0)
        ops += ["respond %d T v1 r1:ok:c1" % a, "respond %d T v2 r1:ok:c2" % b, "release"]
    elif k == 4:    # stale failure of a released server
        ops += ["down 0", "watch T r1 1", "watch T r2 2", "up 0", "sleep 1000", "hold", "respond 0 T v1 r1:ok:c1"]
        if n > 1:
            ops += ["break 1"]
        ops += ["release", "sleep 1000"]
    else:           # watch during fallback, then revert
        ops += ["down 0", "watch T r1 1", "watch T %s 2" % rng.choice(names), "up 0", "sleep 1000",
                "respond 0 T v1 r1:ok:c1", "respond 0 T v2 r1:ok:c1,r2:ok:c2,r3:ok:c3"]
    return ops


def shared_fallback(rng, n, boff):
    """The top-level authority falls back onto a server that authority b (whose list starts there) is using,
    then a higher-priority server returns: revert must unsubscribe on the channel that stays open for b."""
    ops = []
    if rng.random() < 0.8:
        ops += ["watch T b_r1 9"]
        if rng.random() < 0.5:
            ops += ["respond %d T v0 b_r1:ok:c1" % boff]
    for i in range(boff):
        ops += ["down %d" % i]
    ops += ["watch T r1 1"]
    if rng.random() < 0.5:
        ops += ["watch %s r2 2" % rng.choice("TU")]
    if rng.random() < 0.3:
        ops += ["watch T b_r2 8"]
    if rng.random() < 0.5:
        ops += ["respond %d T v1 r1:ok:c1,b_r1:ok:c2" % boff]
    back = rng.randrange(boff)
    ops += ["up %d" % back, "sleep 1000", "respond %d T v2 r1:ok:c2" % back]
    if rng.random() < 0.5:
        ops += ["respond %d T v3 b_r1:ok:c3,r1:ok:c3" % boff, "unwatch 1"]
    return ops


def gen(rng, tier):
    n, ln = {"quick": (250, 35), "thorough": (12000, 60), "search": (3000, 45)}[tier]
    for i in range(n):
        ns = rng.choice([1, 2, 2, 2, 3, 3])
        ign = "".join(rng.choice("001") for _ in range(ns))
        # authority b is configured with the top-level servers from index boff on (0: identical lists); with boff > 0
        # a fallback server of the top-level authority is the primary of b, i.e. its channel is shared across
        # authorities with DIFFERENT server lists and survives the top-level authority's release
        boff = rng.randrange(ns) if rng.random() < 0.5 else 0
        ops = ["cfg %d %s c44 %d" % (ns, ign, boff)]
        if boff > 0 and rng.random() < 0.5:
            ops += shared_fallback(rng, ns, boff)
            tail = _c43.gen_ops(rng, rng.randrange(0, ln // 2), ns, allow_hold=rng.random() < 0.3)
            ops += [t for t in tail if not t.startswith("watch") and not t.startswith("unwatch")]
        elif rng.random() < 0.5:
            ops += directed(rng, ns)
            # re-number watcher ids of the random tail so they do not collide with the skeleton's
            tail = _c43.gen_ops(rng, rng.randrange(0, ln // 2), ns, allow_hold=rng.random() < 0.4)
            tail = [t for t in tail if not t.startswith("watch") and not t.startswith("unwatch")]
            ops += tail
        else:
            ops += _c43.gen_ops(rng, rng.randrange(6, ln), ns, allow_hold=rng.random() < 0.4)
        yield Case("s_xdsauth", ops, "fallback-%d" % i)


def nontrivial(case, impl):
    acts = set()
    for l in impl:
        if l.startswith("cb="):
            for w in l.split(" "):
                if w.startswith("act="):
                    acts.add(w)
    return len(acts - {"act=-"}) >= 2
