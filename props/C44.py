"""C44 Management-server fallback follows gRFC A71."""
from vlib.core import Case, load_prop

ID = "C44"
COMPONENTS = ["s_xdsauth"]
T4 = []
PROOF_MODULES = ["GrpcProofs.Properties.C44"]
THEOREMS = ["GrpcProofs.C44." + t for t in (
    "fallback_only_if_failed_before_any_response_and_uncached_watch_partial", "fallback_needs_uncached_watch",
    "fallback_full_statement_counterexample", "fallback_if", "no_fallback_otherwise",
    "channels_are_prefix_up_to_active", "fallback_goes_to_next",
    "revert_on_higher_priority_update_releases_lower", "update_from_active_keeps_servers",
    "updates_below_active_ignored")]
DESIGN_REF = "DESIGN.md section 8, C44"
TECHNIQUE = ("Lean 4 theorems about the port of handleADSStreamFailure / fallbackToServer / handleRevertingToPrimaryOnUpdate "
             "(authority.go), for all authority states and events, plus an invariant over all histories without stale reports; "
             "T2 correspondence on the real xdsclient.XDSClient with 1-3 scripted management servers under testing/synctest: active "
             "server, channels built/closed, per-server subscriptions and the authority's channel sets diffed after every event")
LEVEL_TEXT = ("Machine-checked proof that in the model of the authority the active server moves to a lower priority only on a stream "
              "failure before any response while a watched resource is uncached, to the first server after the FAILING one without a "
              "channel (all resources are re-subscribed there); that the literal statement (the failing server is the active one) is "
              "false of the code (counterexample theorem = known finding F19); that without stale reports the channels held are exactly "
              "servers 0..active and a fallback goes to active+1; that an update from a higher-priority server makes it active, is "
              "processed, and unsubscribes + releases every server below it; and that updates from below the active server change "
              "nothing and reach nobody. The model is replayed against the real client on every run.")
LEVEL_NOTE = ("PARTIAL on the first clause: the unchanged code falls back when ANY server's stream fails before a response, not only the "
              "active one's (F19: primary still down + secondary connected but silent -> tertiary is opened and made active after the "
              "next failed primary attempt), and also on a stale failure report of a channel it has just released (F20, needs the report "
              "to queue behind the update that reverts). Both are reproduced on the real client by this check and listed in "
              "known_findings/C44.jsonl; half of the 3-server cases run under monitor c44b (every clause but 'the active server "
              "failed') so that the known violation does not hide others. Observation checked on the real code: handleADSResourceUpdate "
              "returns before arming onDone for an update from below the active server (theorem updates_below_active_ignored, "
              "done = false; reproduced with two authorities sharing a channel by harness/synct/c_xdsauth_obs_test.go).")
GAP = ("the order in which same-instant reports of different channels reach the authority (fixed by the harness pacing: lowest server "
       "first); multi-authority sharing of channels; real transports")
ASSUMPTIONS = ["transport creation (TransportBuilder.Build) never fails", "backoff constant 1 s, watch expiry 2505 ms (harness configuration)"]
RULE = ("half directed skeletons (primary down at start / stream break before or after the first response / everything cached / two "
        "updates queued behind a busy serializer / a failure report queued behind the update that releases its channel / watch during "
        "fallback then revert) with a random tail, half random histories as for C43; 1-3 servers. Non-trivial: the active server takes "
        "at least two different values; distinct = distinct op list")

_c43 = load_prop("C43")


def directed(rng, n):
    """Scenario skeletons around fallback / revert, randomly perturbed."""
    ops = []
    k = rng.randrange(6)
    names = _c43.NAMES
    if k == 0:      # primary down at start, fallback chain, primary comes back
        ops += ["down 0", "watch T r1 1"]
        if n == 3 and rng.random() < 0.5:
            ops += ["down 1"]
        ops += ["sleep %d" % rng.choice([500, 1000, 2000])]
        ops += ["respond %d T v1 r1:ok:c1" % rng.randrange(n)]
        ops += ["up 0", "sleep 1000", "respond 0 T v2 r1:ok:c2"]
    elif k == 1:    # stream breaks before / after first response
        ops += ["watch T r1 1", "watch T r2 2"]
        if rng.random() < 0.5:
            ops += ["respond 0 T v1 r1:ok:c1"]
        ops += ["break 0", "sleep %d" % rng.choice([10, 1000, 1500])]
        ops += ["respond %d T v2 r1:ok:c1,r2:ok:c2" % rng.randrange(n)]
    elif k == 2:    # everything cached: no fallback
        ops += ["watch T r1 1", "respond 0 T v1 r1:ok:c1", "down 0", "break 0", "sleep 1000", "sleep 1000"]
        ops += ["watch T r2 2", "sleep 1000"]
    elif k == 3:    # updates racing with revert: queue them behind a busy serializer
        ops += ["down 0", "watch T r1 1", "up 0", "sleep 1000", "hold"]
        a, b = rng.sample(range(n), 2) if n > 1 else (0, 0)
        ops += ["respond %d T v1 r1:ok:c1" % a, "respond %d T v2 r1:ok:c2" % b, "release"]
    elif k == 4:    # stale failure of a released server
        ops += ["down 0", "watch T r1 1", "watch T r2 2", "up 0", "sleep 1000", "hold", "respond 0 T v1 r1:ok:c1"]
        if n > 1:
            ops += ["break 1"]
        ops += ["release", "sleep 1000"]
    else:           # watch during fallback, then revert
        ops += ["down 0", "watch T r1 1", "watch T %s 2" % rng.choice(names), "up 0", "sleep 1000",
                "respond 0 T v1 r1:ok:c1", "respond 0 T v2 r1:ok:c1,r2:ok:c2,r3:ok:c3"]
    return ops


def gen(rng, tier):
    n, ln = {"quick": (250, 35), "thorough": (12000, 60), "search": (3000, 45)}[tier]
    for i in range(n):
        ns = rng.choice([1, 2, 2, 2, 3, 3])
        ign = "".join(rng.choice("001") for _ in range(ns))
        # with 3 servers the unchanged tree violates the "active server failed" sub-clause (known findings F19/F20);
        # half of those cases run under monitor c44b (all clauses but that one) so the first known violation of a
        # case does not hide anything else
        mon = "c44b" if ns == 3 and rng.random() < 0.5 else "c44"
        ops = ["cfg %d %s %s" % (ns, ign, mon)]
        if rng.random() < 0.5:
            ops += directed(rng, ns)
            # re-number watcher ids of the random tail so they do not collide with the skeleton's
            tail = _c43.gen_ops(rng, rng.randrange(0, ln // 2), ns, allow_hold=rng.random() < 0.4)
            tail = [t for t in tail if not t.startswith("watch") and not t.startswith("unwatch")]
            ops += tail
        else:
            ops += _c43.gen_ops(rng, rng.randrange(6, ln), ns, allow_hold=rng.random() < 0.4)
        yield Case("s_xdsauth", ops, "fallback-%d" % i)


def nontrivial(case, impl):
    acts = set()
    for l in impl:
        if l.startswith("cb="):
            for w in l.split(" "):
                if w.startswith("act="):
                    acts.add(w)
    return len(acts - {"act=-"}) >= 2
