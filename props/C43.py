"""C43 xDS watchers see the latest valid resource and correct errors."""
from vlib.core import Case

ID = "C43"
COMPONENTS = ["s_xdsauth"]
T4 = []
PROOF_MODULES = ["GrpcProofs.Properties.C43"]
THEOREMS = ["GrpcProofs.C43." + t for t in (
    "changed_only_with_accepted", "no_duplicate_changed_unless_nack_intervened",
    "ambient_iff_cached_and_rejected_or_stream_failed", "resource_error_iff_no_valid", "error_kind_matches_cache",
    "rejected_duplicate_already_reported", "failed_watch_reports_error", "new_watcher_gets_cache_and_error_state",
    "last_unwatch_unsubscribes", "last_unwatch_unsubscribes_before_release", "chanUnsub_forgets",
    "unsubscribed_when_no_watchers")]
DESIGN_REF = "DESIGN.md section 8, C43"
TECHNIQUE = ("Lean 4 theorems about a statement-by-statement port of the authority's serializer callbacks (authority.go), for all "
             "states / all event histories (induction over histories with a per-watcher ghost record and state invariants); T2 "
             "correspondence: the real xdsclient.XDSClient (authority, xdsChannel, adsStreamImpl, both serializers) under "
             "testing/synctest over a scripted, harness-paced transport, callback logs and the authority's resource table diffed "
             "against the model after every event")
LEVEL_TEXT = ("Machine-checked proof, over every history of watch/unwatch calls, responses of any server (valid, invalid, missing "
              "resources, any versions), watch-expiry events and stream failures, that in the model of the authority: ResourceChanged "
              "carries only content the decoder accepted for the watched resource and equals the cache afterwards; no watcher gets "
              "ResourceChanged for the content it holds unless a NACK was reported to it in between; AmbientError / ResourceError "
              "are delivered exactly in the situations the statement lists (iff characterisations incl. ignore_resource_deletion, "
              "expiry, rejected-without-cache) and match the presence of a cached value; a new watcher gets exactly cache + error "
              "state; and the set of subscriptions held on the channels always equals the channel sets of resources that still have "
              "watchers. The model is replayed against the real client on every run (callback logs, authority state, per-server "
              "subscriptions, ADS watch states) and the same executable predicates run as a monitor on the implementation's output.")
LEVEL_NOTE = ("Reading (DESIGN section 7): a rejection whose error string equals the recorded one is not re-delivered; theorem "
              "rejected_duplicate_already_reported shows every watcher was already told exactly that error. 'watch' events are assumed "
              "to bring a fresh watcher (WatchResource wraps each call's watcher; the harness enforces it). Trusted: Lean kernel; "
              "synctest quiescence; the scripted transport/decoder of the harness (pacing: one transport call granted at a time, lowest "
              "server first); protobuf (un)marshalling. Layer B of the model (channels, timers, pump) is tied by the correspondence only, "
              "the theorems are about layer A (the authority) for arbitrary event sequences, a superset of what layer B produces. "
              "The client of the harness has two authorities (top-level and `b`, same server list) that share ref-counted xdsChannels, so the "
              "last unwatch of one authority while the other still watches leaves the channel open: the unsubscribe must still reach it "
              "(theorems last_unwatch_unsubscribes_before_release / chanUnsub_forgets, monitor: every live server is asked for exactly the "
              "resources subscribed on it; seeded change C43-seed11). Transport-creation faults (op nobuild) are part of the histories; a "
              "watch that cannot even create its first channel is characterised by failed_watch_reports_error and excluded (hns) from the "
              "two iff theorems. Observation (not a listed clause, reproduced on the real code by the generator): a resource first watched while a fallback "
              "server is active is subscribed only there; on revert to the primary it is unsubscribed and never subscribed on the primary "
              "(res entry with ch=-).")
GAP = ("order of callbacks of different watchers inside one quiescence step (compared per watcher); real gRPC transport; wall-clock; "
       "more than two authorities; authority b's server list is always a suffix of the top-level list (cfg 5th field)")
ASSUMPTIONS = ["every watch registers a watcher object that is not currently registered", "decoder errors are compared by their string",
               "the backoff function is the constant 1 s and the watch expiry 2505 ms passed by the harness"]
RULE = ("30% directed skeletons (accept/reject/re-accept, SotW removal with and without ignore_resource_deletion, watch expiry incl. a cached resource expiring on a fallback server, rejected-with-nothing-cached, stream failures before/after the first response, last watcher leaves) followed by a random tail; 70% random histories (6-70 events) for 1-3 servers with random ignore_resource_deletion bits: watch/unwatch of 3 names over 2 types "
        "(one with AllResourcesRequiredInSotW) + an unknown type, responses from any server with valid / invalid / nameless resources and "
        "fresh or repeated versions, stream breaks, servers going down/up, sleeps around the 1 s backoff and the 2505 ms watch expiry, "
        "hold/release of the top-level authority's serializer (events queue up and are processed in order), transport-creation faults "
        "(nobuild), close. About 30% of the watches go to a second authority `b` (xdstp://b/...) whose server list is the top-level list from a random "
        "index on (40%: a proper suffix, i.e. different lists sharing some servers), so the two "
        "authorities share (ref-counted) xdsChannels: directed skeletons cancel the last watch of one authority while the other still "
        "watches, and let both fall back and revert. Non-trivial: at least 3 ops "
        "with watcher callbacks; distinct = distinct op list")

NAMES = ["r1", "r2", "r3"]
BNAMES = ["b_r1", "b_r2"]      # resources of the second authority "b" (xdstp://b/...), which shares the servers


def pick_name(rng, pb=0.3):
    return rng.choice(BNAMES) if rng.random() < pb else rng.choice(NAMES)
CONTENTS = ["c1", "c2", "c3"]
TAGS = ["e1", "e2"]
SLEEPS = [10, 500, 1000, 1000, 1500, 2000, 2510, 3000]


def gen_entries(rng):
    k = rng.choice([0, 1, 1, 1, 2, 2, 3])
    es = []
    for n in rng.sample(NAMES + BNAMES, k):
        r = rng.random()
        if r < 0.68:
            es.append("%s:ok:%s" % (n, rng.choice(CONTENTS)))
        else:
            es.append("%s:bad:%s" % (n, rng.choice(TAGS)))
    if rng.random() < 0.05:
        es.append("?:%s" % rng.choice(TAGS))
    return ",".join(es) or "-"


def gen_ops(rng, ln, n, allow_hold=True, weights=None, pb=0.3, pnobuild=0.03):
    """A random history for an n-server client. Returns the op list (without cfg).
    pb: share of watches that go to the second authority; pnobuild: rate of transport-creation faults."""
    ops = []
    ver = 0
    active = []          # watcher ids believed registered
    nextw = 1
    held = False
    for s in range(n):
        if rng.random() < 0.25:
            ops.append("down %d" % s)
    if rng.random() < 0.7:
        for _ in range(rng.randrange(1, 4)):
            ops.append("watch %s %s %d" % ("T" if rng.random() < 0.8 else "U", pick_name(rng, pb), nextw))
            active.append(nextw)
            nextw += 1
    for _ in range(ln):
        r = rng.random()
        if rng.random() < pnobuild:
            k = rng.choice([0, 0, 1, 1, 1, 2])
            ops.append("nobuild %s" % ("+".join(str(x) for x in sorted(rng.sample(range(n), min(k, n)))) or "-"))
        if r < 0.20:
            t = "T" if rng.random() < 0.8 else "U"
            if rng.random() < 0.03:
                t = "X"
            if active and rng.random() < 0.05:
                w = rng.choice(active)           # busy id
            else:
                w = nextw
                nextw += 1
                if t != "X" and not held:
                    active.append(w)
            ops.append("watch %s %s %d" % (t, pick_name(rng, pb), w))
        elif r < 0.30:
            if active and rng.random() < 0.95:
                w = rng.choice(active)
                if not held:
                    active.remove(w)
            else:
                w = rng.randrange(1, nextw + 1)
            ops.append("unwatch %d" % w)
        elif r < 0.64:
            ver += 1
            v = "v%d" % (ver if rng.random() < 0.9 else max(1, ver - 1))
            t = "T" if rng.random() < 0.8 else "U"
            srv = rng.randrange(n) if rng.random() < 0.7 else 0
            ops.append("respond %d %s %s %s" % (srv, t, v, gen_entries(rng)))
        elif r < 0.71:
            ops.append("break %d" % rng.randrange(n))
        elif r < 0.78:
            ops.append("%s %d" % (rng.choice(["down", "up", "up"]), rng.randrange(n)))
        elif r < 0.93:
            ops.append("sleep %d" % rng.choice(SLEEPS))
        elif r < 0.985:
            if allow_hold:
                if held:
                    ops.append("release")
                    held = False
                elif rng.random() < 0.6:
                    ops.append("hold")
                    held = True
            else:
                ops.append("sleep 1000")
        else:
            ops.append("close" if rng.random() < 0.3 else "release")
    if held:
        ops.append("release")
    return ops


def directed(rng, n):
    """Skeletons for the rarer clauses; a random tail follows."""
    k = rng.randrange(8)
    c = rng.choice(CONTENTS)
    if k == 6:      # two authorities share the channel: the last watch of one goes away, the other keeps watching
        a, b = ("r1", "b_r1") if rng.random() < 0.5 else ("b_r2", "r2")
        ops = ["watch T %s 1" % a, "watch T %s 2" % b, "respond 0 T v1 %s:ok:%s,%s:ok:c2" % (a, c, b)]
        if rng.random() < 0.5:
            ops += ["watch U %s 3" % a, "unwatch 3"]
        ops += ["unwatch 1", "respond 0 T v2 %s:ok:c3" % b, "watch T %s 4" % a, "unwatch 2", "unwatch 4"]
        return ops
    if k == 7:      # both authorities fall back and revert on the shared channels
        ops = ["down 0", "watch T r1 1", "watch T b_r1 2"]
        if n > 1:
            ops += ["respond 1 T v1 r1:ok:%s,b_r1:ok:c2" % c]
        ops += ["up 0", "sleep 1000", "respond 0 T v2 r1:ok:%s" % c, "unwatch 1", "respond 0 T v3 b_r1:ok:c1", "unwatch 2"]
        return ops
    if k == 0:      # accept, reject twice with the same / another error, accept the same content again
        e1, e2 = rng.choice(TAGS), rng.choice(TAGS)
        return ["watch T r1 1", "respond 0 T v1 r1:ok:%s" % c, "respond 0 T v2 r1:bad:%s" % e1, "watch T r1 2",
                "respond 0 T v3 r1:bad:%s" % e2, "respond 0 T v4 r1:ok:%s" % c, "respond 0 T v5 r1:ok:%s" % c]
    if k == 1:      # removal from a state-of-the-world response, with and without ignore_resource_deletion
        return ["watch T r1 1", "watch T r2 2", "watch U r1 3", "respond 0 T v1 r1:ok:%s,r2:ok:c2" % c, "respond 0 U v1 r1:ok:c1",
                "respond 0 T v2 r2:ok:c2", "respond 0 U v2 -", "watch T r1 4", "respond 0 T v3 r1:ok:%s,r2:ok:c2" % c, "respond 0 T v4 -"]
    if k == 2:      # watch expiry, then the resource arrives; a cached resource re-requested on a fallback server expires
        ops = ["watch T r1 1", "sleep 2510", "watch T r1 2", "respond 0 T v1 r1:ok:%s" % c]
        if n > 1:
            ops += ["watch T r2 3", "down 0", "break 0", "sleep 1000", "sleep 2510", "watch T r1 4"]
        return ops
    if k == 3:      # rejected with nothing cached, new watcher, then accepted
        e = rng.choice(TAGS)
        return ["watch T r1 1", "respond 0 T v1 r1:bad:%s" % e, "watch T r1 2", "respond 0 T v2 r1:bad:%s" % e,
                "respond 0 T v3 r1:ok:%s" % c, "watch T r1 3"]
    if k == 4:      # stream failures before / after the first response, cached and uncached watchers
        return ["watch T r1 1", "respond 0 T v1 r1:ok:%s" % c, "watch T r2 2", "break 0", "sleep 10", "down 0", "break 0",
                "sleep 1000", "sleep 1000", "up 0", "sleep 1000"]
    # last watcher leaves, resource watched again
    return ["watch T r1 1", "watch T r1 2", "respond 0 T v1 r1:ok:%s" % c, "unwatch 1", "unwatch 2", "watch T r1 3",
            "respond 0 T v2 r1:ok:%s" % c, "watch U r2 4", "unwatch 4"]


def gen(rng, tier):
    n, ln = {"quick": (250, 40), "thorough": (12000, 70), "search": (3000, 50)}[tier]
    for i in range(n):
        ns = rng.choice([1, 1, 2, 2, 3])
        ign = "".join(rng.choice("001") for _ in range(ns))
        # authority b is configured with the top-level servers from index boff on (0: identical lists)
        boff = rng.randrange(ns) if rng.random() < 0.4 else 0
        ops = ["cfg %d %s c43 %d" % (ns, ign, boff)]
        if rng.random() < 0.3:
            ops += directed(rng, ns)
            tail = gen_ops(rng, rng.randrange(0, ln // 2), ns, allow_hold=rng.random() < 0.4)
            # the skeleton used watcher ids 1..4: shift the tail's ids
            def shift(t):
                f = t.split(" ")
                if f[0] == "watch":
                    f[3] = str(int(f[3]) + 10)
                elif f[0] == "unwatch" and rng.random() < 0.6:
                    f[1] = str(int(f[1]) + 10)
                return " ".join(f)
            ops += [shift(t) for t in tail]
        else:
            ops += gen_ops(rng, rng.randrange(6, ln), ns, allow_hold=rng.random() < 0.5)
        yield Case("s_xdsauth", ops, "xdsauth-%d" % i)


def nontrivial(case, impl):
    cbs = [l for l in impl if l.startswith("cb=") and not l.startswith("cb=- ")]
    return len(cbs) >= 3
