"""C43 xDS watchers see the latest valid resource and correct errors."""
from vlib.core import Case

ID = "C43"
COMPONENTS = ["s_xdsauth"]
T4 = []
PROOF_MODULES = ["GrpcProofs.Properties.C43"]
THEOREMS = ["GrpcProofs.C43." + t for t in ()]
DESIGN_REF = "DESIGN.md section 8, C43"
TECHNIQUE = "TODO"
LEVEL_TEXT = "TODO"
LEVEL_NOTE = "TODO"
GAP = "TODO"
ASSUMPTIONS = []
RULE = "TODO"

NAMES = ["r1", "r2", "r3"]
CONTENTS = ["c1", "c2", "c3"]
TAGS = ["e1", "e2"]
SLEEPS = [10, 500, 1000, 1000, 1500, 2000, 2510, 3000]


def gen_entries(rng):
    k = rng.choice([0, 1, 1, 1, 2, 2, 3])
    es = []
    for n in rng.sample(NAMES, k):
        r = rng.random()
        if r < 0.68:
            es.append("%s:ok:%s" % (n, rng.choice(CONTENTS)))
        else:
            es.append("%s:bad:%s" % (n, rng.choice(TAGS)))
    if rng.random() < 0.05:
        es.append("?:%s" % rng.choice(TAGS))
    return ",".join(es) or "-"


def gen_ops(rng, ln, n, allow_hold=True, weights=None):
    """A random history for an n-server client. Returns the op list (without cfg)."""
    ops = []
    ver = 0
    active = []          # watcher ids believed registered
    nextw = 1
    held = False
    for s in range(n):
        if rng.random() < 0.25:
            ops.append("down %d" % s)
    for _ in range(ln):
        r = rng.random()
        if r < 0.20:
            t = "T" if rng.random() < 0.8 else "U"
            if rng.random() < 0.03:
                t = "X"
            if active and rng.random() < 0.05:
                w = rng.choice(active)           # busy id
            else:
                w = nextw
                nextw += 1
                if t != "X" and not held:
                    active.append(w)
            ops.append("watch %s %s %d" % (t, rng.choice(NAMES), w))
        elif r < 0.30:
            if active and rng.random() < 0.95:
                w = rng.choice(active)
                if not held:
                    active.remove(w)
            else:
                w = rng.randrange(1, nextw + 1)
            ops.append("unwatch %d" % w)
        elif r < 0.64:
            ver += 1
            v = "v%d" % (ver if rng.random() < 0.9 else max(1, ver - 1))
            t = "T" if rng.random() < 0.8 else "U"
            srv = rng.randrange(n) if rng.random() < 0.7 else 0
            ops.append("respond %d %s %s %s" % (srv, t, v, gen_entries(rng)))
        elif r < 0.71:
            ops.append("break %d" % rng.randrange(n))
        elif r < 0.78:
            ops.append("%s %d" % (rng.choice(["down", "up", "up"]), rng.randrange(n)))
        elif r < 0.93:
            ops.append("sleep %d" % rng.choice(SLEEPS))
        elif r < 0.985:
            if allow_hold:
                if held:
                    ops.append("release")
                    held = False
                elif rng.random() < 0.6:
                    ops.append("hold")
                    held = True
            else:
                ops.append("sleep 1000")
        else:
            ops.append("close" if rng.random() < 0.3 else "release")
    if held:
        ops.append("release")
    return ops


def gen(rng, tier):
    n, ln = {"quick": (250, 40), "thorough": (6000, 70), "search": (3000, 50)}[tier]
    for i in range(n):
        ns = rng.choice([1, 1, 2, 2, 3])
        ign = "".join(rng.choice("001") for _ in range(ns))
        ops = ["cfg %d %s c43" % (ns, ign)] + gen_ops(rng, rng.randrange(6, ln), ns, allow_hold=rng.random() < 0.5)
        yield Case("s_xdsauth", ops, "xdsauth-%d" % i)


def nontrivial(case, impl):
    cbs = [l for l in impl if l.startswith("cb=") and not l.startswith("cb=- ")]
    return len(cbs) >= 3
