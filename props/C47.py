"""C47 header / string / path matchers implement Envoy matcher semantics (ASCII case folding)."""
from vlib.core import Case

ID = "C47"
COMPONENTS = ["matchers"]
T4 = []
PROOF_MODULES = ["GrpcProofs.Properties.C47"]
THEOREMS = ["GrpcProofs.C47." + t for t in (
    "value_is_comma_join", "absent_header_never_matches", "invert_flips_only_when_present",
    "header_exact_spec", "header_prefix_spec", "header_suffix_spec", "header_contains_spec",
    "header_regex_spec", "header_range_spec", "header_string_spec",
    "present_match_spec",
    "decimal_spec", "caseEq_spec", "eqFold_spec", "prefixFold_spec", "suffixFold_spec", "infixFold_spec",
    "string_matcher_spec", "string_matcher_case_sensitive", "ignore_case_is_ascii_fold",
    "from_proto_spec", "path_exact_spec", "path_prefix_spec", "path_regex_spec", "regex_full_string",
    "model_header_eq_spec")]
DESIGN_REF = "DESIGN.md section 8, C47"
TECHNIQUE = ("Lean 4 theorems (list induction, omega on the byte arithmetic of case folding) relating a port of the matcher code to an "
             "independent executable specification + T1 differential correspondence on the real matchers + the specification "
             "evaluated as a monitor on every implementation answer (it is what judges non-ASCII case folding)")
LEVEL_TEXT = ("Machine-checked Lean proof, for every byte string, header map and matcher configuration, that the ported matcher code "
              "computes the specified predicate: comma-joined header value, exact/prefix/suffix/contains/regex(full string) compare, "
              "range = base-10 integer in [start,end), invert only flips when the header is present, ignore_case/case_insensitive "
              "= position-wise equality up to ASCII case. The port is diffed against the real matchers on every run; present_match on "
              "an empty-valued header and Unicode case folding of non-ASCII bytes were violations of the pinned code; both are repaired "
              "(fix commits 8ad6d37, 04d8d0c) and are reported again if they return.")
LEVEL_NOTE = ("Readings: (1) ASCII case-insensitive = same length and position-wise equal or the same ASCII letter in two cases "
              "(theorem caseEq_spec/eqFold_spec); (2) 'header present' = the key is in the header map, as the other seven matchers use "
              "it; (3) regex matchers are specified through Re.matches, a derivative matcher over a small AST that is proved to decide "
              "full-string membership in the textbook language (regex_full_string); the AST is rendered to Go syntax and compiled by the real "
              "CompileSafeRegex, so dropping the ^(?:…)$ wrapping is a divergence; Go's regexp is otherwise opaque; "
              "(4) range bounds are int64 (theorem hypothesis), which makes ParseInt's range error unobservable. "
              "Trusted: Lean kernel; the hand model lean/GrpcModel/Model/Matchers.lean (tied by differential runs); with case folding "
              "requested and a byte >= 128 present the model does not predict the code (output `*`): there only the monitor judges.")
GAP = ("regexp itself (only a 9-constructor AST on ASCII subjects is compared); Unicode tables of strings.ToLower/ToUpper are not modelled "
       "(the monitor compares the real answer to ASCII folding instead); map iteration plays no role (single lookups)")
ASSUMPTIONS = ["strings.ToLower/ToUpper on all-ASCII strings are ASCII folding (exercised by the diff)",
               "strconv.ParseInt(s,10,64) accepts exactly [+-]?[0-9]+ within int64 (exercised by the diff)",
               "metadata.MD keys are distinct (Go map)"]
RULE = ("sm/hm/path ops, one matcher construction + one evaluation each, on the real constructors (New*StringMatcher, "
        "StringMatcherFromProto, NewHeader*Matcher, newPath*Matcher via shim, CompileSafeRegex). Exhaustive: all pattern/subject pairs of "
        "length <= 2 over {a A @ ` k U+212A} x 4 kinds x ignore_case; directed: subjects derived from the pattern by case flips, "
        "bytes 0x40/0x60/0x5b/0x7b, Unicode look-alikes (U+212A U+017F U+0130 U+0131 U+212B), invalid UTF-8, embedding; header maps "
        "with 0-3 keys and 0-3 values (empty values included), integers with signs/zeros/underscores/overflow at the range edges; random "
        "regex ASTs (depth <= 3, incl. invalid) on short ASCII subjects. An op is non-trivial unless construction is rejected; "
        "distinct = distinct op text.")

UNIT = "op"


def nontrivial_op(op, out):
    return out != "err"


def nonascii(h):
    return any(c in "89abcdef" for c in h[0::2]) if h not in ("-", "_") else False


def suspect(op):
    f = op.split(" ")
    if f[0] == "sm":
        return f[2] != "regex" and f[3] == "1" and (nonascii(f[4]) or nonascii(f[5]))
    if f[0] == "path":
        return f[1] != "regex" and f[2] == "1" and (nonascii(f[3]) or nonascii(f[4]))
    if f[0] == "hm" and f[1] == "present":
        return True
    if f[0] == "hm" and f[1] == "string":
        return f[6] != "regex" and f[7] == "1" and (nonascii(f[8]) or any(nonascii(x) for e in f[4].split(";") for x in e.replace(":", ",").split(",") if x))
    return False


def hx(bs):
    return "".join("%02x" % b for b in bs) or "-"


KELVIN = (0xE2, 0x84, 0xAA)
LONGS = (0xC5, 0xBF)
IDOT = (0xC4, 0xB0)
DOTLESS = (0xC4, 0xB1)
ANGSTROM = (0xE2, 0x84, 0xAB)
EACUTE = (0xC3, 0xA9)
EACUTE_UP = (0xC3, 0x89)
MICRO = (0xC2, 0xB5)
NONASCII = [KELVIN, LONGS, IDOT, DOTLESS, ANGSTROM, EACUTE, EACUTE_UP, MICRO, (0xFF,), (0xFE,), (0xC3,), (0x80,), (0xA9,)]
LOOKALIKE = {ord('k'): KELVIN, ord('K'): KELVIN, ord('s'): LONGS, ord('S'): LONGS, ord('i'): IDOT, ord('I'): DOTLESS}
ASCII_UNITS = [(ord(c),) for c in "aAbBkKsSiIzZmM09/,.-+ _@`[{"] + [(10,), (127,), (0,)]
KINDS = ["exact", "prefix", "suffix", "contains"]


def rstr(rng, n, pna=0.0):
    out = []
    for _ in range(n):
        out += list(rng.choice(NONASCII) if rng.random() < pna else rng.choice(ASCII_UNITS))
    return out


def flipcase(rng, s, p=0.5):
    out = []
    for b in s:
        if rng.random() < p:
            if 65 <= b <= 90:
                b += 32
            elif 97 <= b <= 122:
                b -= 32
            elif rng.random() < 0.15 and b in (0x40, 0x60, 0x5B, 0x7B):
                b ^= 0x20          # NOT a case pair: must not match
        out.append(b)
    return out


def lookalike(rng, s, p=0.3):
    out = []
    for b in s:
        if b in LOOKALIKE and rng.random() < p:
            out += list(LOOKALIKE[b])
        else:
            out.append(b)
    return out


def derive(rng, pat, kind, pna):
    """A subject related to the pattern so that matches and near-misses are frequent."""
    core = list(pat)
    r = rng.random()
    if r < 0.45:
        core = flipcase(rng, core)
    if pna and rng.random() < 0.5:
        core = lookalike(rng, core)
    r = rng.random()
    if r < 0.12 and core:
        i = rng.randrange(len(core))
        core[i] = rng.choice(ASCII_UNITS)[0]
    elif r < 0.18 and core:
        del core[rng.randrange(len(core))]
    elif r < 0.22 and pna and core:
        # cut inside / next to a multi-byte sequence
        core = core[:rng.randrange(len(core))]
    pre = rstr(rng, rng.choice([0, 0, 1, 2]), pna)
    post = rstr(rng, rng.choice([0, 0, 1, 3]), pna)
    if kind == "exact":
        return core if rng.random() < 0.8 else pre + core + post
    if kind == "prefix":
        return core + post if rng.random() < 0.8 else pre + core + post
    if kind == "suffix":
        return pre + core if rng.random() < 0.8 else pre + core + post
    return pre + core + post


def rand_re(rng, depth):
    r = rng.random()
    if depth == 0 or r < 0.3:
        q = rng.random()
        if q < 0.55:
            return "c%02x" % rng.choice([0x61, 0x62, 0x2C, 0x41, 0x2E, 0x2A])
        if q < 0.7:
            return "d"
        if q < 0.8:
            return "e"
        if q < 0.84:
            return "n"
        if q < 0.88:
            return "x"
        lo, hi = rng.choice([(0x61, 0x62), (0x61, 0x7A), (0x30, 0x39), (0x62, 0x61), (0x61, 0x61)])
        return "r%02x%02x" % (lo, hi)
    if r < 0.55:
        return "s" + rand_re(rng, depth - 1) + rand_re(rng, depth - 1)
    if r < 0.8:
        return "a" + rand_re(rng, depth - 1) + rand_re(rng, depth - 1)
    return "k" + rand_re(rng, depth - 1)


RE_SUBJ = [ord(c) for c in "aabbcA,.*z5"] + [10]


def re_subject(rng):
    return [rng.choice(RE_SUBJ) for _ in range(rng.choice([0, 1, 1, 2, 2, 3, 4, 6]))]


KEYS = [b"x", b"k1", b"user-agent", b"X", b"", b"grpc-tag", b"a,b"]


def rand_md(rng, key, present, values):
    """md text; `values` (list of byte lists) are the values of `key` when present."""
    ents = []
    others = [k for k in KEYS if k != key]
    rng.shuffle(others)
    for k in others[:rng.choice([0, 0, 1, 2])]:
        vs = [rstr(rng, rng.choice([0, 1, 2])) for _ in range(rng.choice([1, 1, 2]))]
        ents.append((k, vs))
    if present:
        ents.insert(rng.randrange(len(ents) + 1), (key, values))
    if not ents:
        return "_"
    return ";".join(hx(k) + ":" + ",".join(hx(v) for v in vs) for k, vs in ents)


def split_values(rng, v):
    """Split a joined value at its commas into the multi-valued form (join is the inverse), or keep it whole."""
    if 0x2C in v and rng.random() < 0.7:
        parts, cur = [], []
        for b in v:
            if b == 0x2C:
                parts.append(cur)
                cur = []
            else:
                cur.append(b)
        parts.append(cur)
        return parts
    return [v]


MAXI = 2**63 - 1
MINI = -2**63
INTS = ["5", "+5", "-5", "05", "-0", "+0", "0", " 5", "5 ", "1_0", "0x10", "1e3", "", "+", "-", "--5", "+-5", "5,6", "1,2",
        str(MAXI), str(MAXI + 1), str(MINI), str(MINI - 1), "99999999999999999999", "-99999999999999999999",
        "18446744073709551616", "00000000000000000000007", "٣", "5 ", "12", "-12", "100", "5.0", "५"]


def gen(rng, tier):
    n = {"quick": 2500, "thorough": 60000, "search": 30000}[tier]
    ops = []
    # ---- exhaustive small domain for the string matcher
    units = [(0x61,), (0x41,), (0x40,), (0x60,), (0x6B,), KELVIN]
    small = [()] + [u for u in units] + [a + b for a in units for b in units]
    for kind in KINDS:
        for ic in "01":
            for p in small:
                for s in small:
                    ops.append("sm new %s %s %s %s" % (kind, ic, hx(p), hx(s)))
    # ---- the F3 witnesses and friends, on every entry point
    for kind in KINDS:
        for ctor in ("new", "proto"):
            for p, s in ((b"k", KELVIN), (b"K", KELVIN), (KELVIN, b"k"), (b"s", LONGS), (b"i", IDOT), (b"I", DOTLESS),
                         ((0xFF,), (0xFE,)), ((0xC3,), EACUTE), (EACUTE, EACUTE_UP), (b"@", b"`"), (b"[", b"{"), (b"", b"")):
                for ic in "01":
                    ops.append("sm %s %s %s %s %s" % (ctor, kind, ic, hx(p), hx(s)))
                    ops.append("hm string %s 0 %s:%s %s %s %s %s" % (hx(b"x"), hx(b"x"), hx(s), ctor, kind, ic, hx(p)))
    for kind in ("exact", "prefix"):
        for p, s in ((b"/s", b"/" + bytes(LONGS)), (b"/I", b"/" + bytes(DOTLESS) + b"x"), (b"/K", b"/" + bytes(KELVIN)),
                     (b"/a@", b"/A`"), (b"/svc/M", b"/SVC/m"), (b"/svc/M", b"/SVC/mx"), (b"", b""), (b"/\xc3", b"/\xc3\xa9")):
            for ci in "01":
                ops.append("path %s %s %s %s" % (kind, ci, hx(p), hx(s)))
    # ---- random, pattern-related
    for _ in range(n):
        kind = rng.choice(KINDS)
        pna = rng.choice([0.0, 0.0, 0.0, 0.25])
        pat = rstr(rng, rng.choice([0, 1, 2, 3, 3, 4, 6]), pna)
        subj = derive(rng, pat, kind, pna)
        ic = rng.choice("01")
        ops.append("sm %s %s %s %s %s" % (rng.choice(["new", "proto"]), kind, ic, hx(pat), hx(subj)))
    for _ in range(n // 3):
        ops.append("sm %s regex %s %s %s" % (rng.choice(["new", "proto"]), rng.choice("01"), rand_re(rng, 3), hx(re_subject(rng))))
    for _ in range(n // 3):
        kind = rng.choice(["exact", "prefix"])
        pna = rng.choice([0.0, 0.0, 0.25])
        pat = [0x2F] + rstr(rng, rng.choice([0, 1, 3, 5]), pna)
        ops.append("path %s %s %s %s" % (kind, rng.choice("01"), hx(pat), hx(derive(rng, pat, kind, pna))))
    for _ in range(n // 8):
        ops.append("path regex %s %s %s" % (rng.choice("01"), rand_re(rng, 3), hx(re_subject(rng))))
    # ---- header matchers
    for _ in range(n):
        key = rng.choice(KEYS)
        present = rng.random() < 0.8
        inv = rng.choice("01")
        kind = rng.choice(["exact", "prefix", "suffix", "contains", "regex", "range", "present", "string", "string"])
        if kind in KINDS:
            pat = rstr(rng, rng.choice([0, 1, 2, 3, 5])) + ([0x2C] + rstr(rng, 1) if rng.random() < 0.3 else [])
            v = derive(rng, pat, kind, 0.0) if rng.random() < 0.8 else flipcase(rng, pat)
            ops.append("hm %s %s %s %s %s" % (kind, hx(key), inv, rand_md(rng, key, present, split_values(rng, v)), hx(pat)))
        elif kind == "regex":
            v = re_subject(rng)
            ops.append("hm regex %s %s %s %s" % (hx(key), inv, rand_md(rng, key, present, split_values(rng, v)), rand_re(rng, 3)))
        elif kind == "range":
            s = rng.choice(INTS) if rng.random() < 0.6 else str(rng.choice([1, -1]) * rng.randrange(0, 2**rng.randrange(1, 66)))
            try:
                c = int(s) if s.strip() == s and "_" not in s else rng.randrange(-20, 20)
            except ValueError:
                c = rng.randrange(-20, 20)
            c = max(MINI, min(MAXI, c))
            lo = rng.choice([c, c, c + 1, c - 1, c - 7, MINI, 0, MAXI])
            hi = rng.choice([c, c + 1, c + 1, c + 2, c + 9, MAXI, 0, MINI])
            lo, hi = max(MINI, min(MAXI, lo)), max(MINI, min(MAXI, hi))
            vals = [list(s.encode())] if rng.random() < 0.85 else [list(s.encode()), list(rng.choice(INTS).encode())]
            ops.append("hm range %s %s %s %d %d" % (hx(key), inv, rand_md(rng, key, present, vals), lo, hi))
        elif kind == "present":
            vals = rng.choice([[[]], [[]], [], [[], []], [rstr(rng, 2)], [rstr(rng, 1), []]])
            ops.append("hm present %s %s %s %s" % (hx(key), inv, rand_md(rng, key, present, vals), rng.choice("01")))
        else:
            sk = rng.choice(KINDS + ["regex"])
            ctor = rng.choice(["new", "proto"])
            ic = rng.choice("01")
            if sk == "regex":
                v = re_subject(rng)
                ops.append("hm string %s %s %s %s regex %s %s" % (hx(key), inv, rand_md(rng, key, present, split_values(rng, v)), ctor, ic, rand_re(rng, 3)))
            else:
                pna = rng.choice([0.0, 0.0, 0.25])
                pat = rstr(rng, rng.choice([0, 1, 2, 3, 5]), pna)
                v = derive(rng, pat, sk, pna)
                ops.append("hm string %s %s %s %s %s %s %s" % (hx(key), inv, rand_md(rng, key, present, split_values(rng, v)), ctor, sk, ic, hx(pat)))
    seen = set()
    uniq = [o for o in ops if not (o in seen or seen.add(o))]
    # Ops in the two domains where the unchanged code is known to break the statement (case folding of bytes >= 128,
    # present_match) travel one per case: the pipeline reports the FIRST monitor violation of a case, so a known
    # finding must never share a case with another op (it would mask a different violation).
    plain = [o for o in uniq if not suspect(o)]
    single = [o for o in uniq if suspect(o)]
    chunk = 4000
    for i in range(0, len(plain), chunk):
        yield Case("matchers", plain[i:i + chunk], "matchers-batch-%d" % (i // chunk))
    for o in single:
        yield Case("matchers", [o], "matchers-single")
