"""C51 A cluster stays usable until every RPC routed to it is committed."""
from vlib.core import Case

ID = "C51"
COMPONENTS = ["s_clusterrefs"]
T4 = []
PROOF_MODULES = ["GrpcProofs.Properties.C51"]
THEOREMS = ["GrpcProofs.C51." + t for t in (
    "selected_cluster_in_config_until_commit", "commit_at_most_once", "refcount_is_selector_plus_inflight",
    "selected_cluster_in_xdsconfig_until_commit_counterexample", "witness_facts", "stale_snapshot_counterexample",
    "dropped_after_last_reference_counterexample", "dropped_after_last_reference_partial", "installed_selector_is_current")]
DESIGN_REF = "DESIGN.md section 8, C51"
TECHNIQUE = ("Lean 4 model of the resolver's cluster reference counting and of the dependency manager's cluster subscriptions "
             "(ops: route update at the dependency manager, delivery of a queued Update to the resolver, SelectConfig, OnCommitted), "
             "inductive invariants over all op sequences; tie T2: the REAL xDS resolver + REAL dependency manager fed by a fake xDS "
             "client inside a synctest bubble, with blocking callbacks on the resolver's serializer to realise the interleavings")
LEVEL_TEXT = ("Machine-checked proof, for every interleaving of route updates, update deliveries, RPC selections and commits, that a "
              "cluster with an uncommitted RPC stays in the service config pushed to the channel, that the reference count of every "
              "active cluster is exactly (1 if the current config selector names it) + (uncommitted RPCs routed to it), and that an "
              "RPC's reference is released at most once; machine-checked COUNTEREXAMPLES (replayed on the real resolver) showing that "
              "the unchanged code can lose the cluster from the XDSConfig while an RPC is uncommitted and can keep an unreferenced "
              "cluster in the service config (finding F36; a second, transient loss through a stale queued snapshot is F37), with clause 3 "
              "proved for every run in which no clusterInfo with a used unsubscribe is re-referenced.")
LEVEL_NOTE = ("Trusted: Lean kernel; the model's reading of xdsdepmgr (static/dynamic reference counts, one Update per change, all "
              "CDS/EDS resources available at once); sync.OnceFunc; the callback serializer is FIFO. 'Its load balancer stays alive' is "
              "read as: the cluster is a child of the service config AND present in the XDSConfig attached to the same resolver state "
              "(the cds balancer of that child needs both). Cluster specifier plugins are modelled separately "
              "(lean/GrpcModel/Model/PluginRefs.lean, run in lockstep by the driver): proved for them is that the config selector given "
              "to the channel is always the current one; their reference counts and presence in the service config are diffed and "
              "monitored, not proved. Interceptor lifetime (grpcsync.RefCounted route clusters) is not modelled. SelectConfig is only called on the config selector of the last state given to the "
              "channel (the channel swaps selectors under SafeConfigSelector before the old one is stopped). The check reports the first "
              "violation of a case: a known finding early in a case can hide a different violation later in the same case (cases are short).")
GAP = "interceptors, resource errors, real RPC streams (OnCommitted is called directly); plugin routes are not combined with blocked-serializer schedules"
ASSUMPTIONS = ["callback serializer is FIFO", "xDS resources for every named cluster are available (fake client answers every watch)",
               "SelectConfig is not called on a stopped config selector"]
RULE = ("random op sequences over clusters 1..3: rds with random route lists (random subsets incl. empty; in ~40% of them a cluster is "
        "named by more than one route entry), pause/next placing blocking callbacks in the "
        "resolver's serializer, select with fresh ids on any cluster, commit of any id (repeated commits included); directed scenarios: "
        "cluster-specifier-plugin routes (a third of the random cases; late commit on a replaced plugin, plugin re-added, plugin and cluster "
        "routes together), removal with one and several in-flight RPCs, a cluster named by several route entries (two routes, twice in one weighted-cluster "
        "route) then removed with and without an RPC in flight, re-adding a cluster before/after the last commit, commit while an update is "
        "queued, flapping routes with queued updates. Every case ends by releasing all blocking callbacks and committing everything. "
        "non-trivial = at least one successful select and one route change after it; distinct = distinct op list")


def directed():
    yield ["rds 1", "select 1 1", "rds 2", "commit 1"], "remove-with-inflight"
    yield ["rds 1,2", "select 1 1", "select 2 1", "select 3 2", "rds 3", "commit 1", "commit 3", "commit 2"], "overlapping"
    yield ["rds 1", "select 1 1", "rds 2", "rds 1", "commit 1", "select 2 1", "rds 2", "commit 2"], "readd-before-commit"
    yield ["rds 1", "select 1 1", "rds 2", "commit 1", "rds 1", "select 2 1", "rds 2", "commit 2"], "readd-after-commit"
    yield ["rds 1", "select 1 1", "rds 2", "pause", "rds 1", "commit 1", "next", "select 2 1", "rds 2", "commit 2", "rds 2,3"], "commit-while-readd-queued"
    yield ["rds 2", "pause", "rds 1", "pause", "rds 2", "next", "select 1 1", "next", "commit 1"], "stale-update"
    yield ["rds 1", "pause", "rds 2", "rds 1", "next", "select 1 1", "rds 2", "commit 1", "commit 1"], "flap-queued"
    yield ["rds 1", "select 1 1", "commit 1", "commit 1", "commit 1", "rds -"], "commit-thrice"
    yield ["select 1 1", "commit 9", "rds -", "select 2 1", "rds 1", "select 3 2"], "errors"
    yield ["pause", "rds 1", "pause", "rds 3", "pause", "next", "select 8 1", "next", "next", "commit 8"], "stale-snapshot"
    # the same cluster named by several routes / several times in one route: the config selector owns ONE reference per
    # distinct cluster, whatever the number of route entries
    yield ["rds 1,1", "select 1 1", "rds 2", "commit 1", "commit 1"], "shared-by-two-routes-inflight"
    yield ["rds 1,1", "rds 2", "rds 2,3"], "shared-by-two-routes-unused"
    yield ["rds 1+1,2", "select 1 1", "select 2 2", "rds 3", "commit 2", "commit 1"], "twice-in-weighted-clusters"
    yield ["rds 1,2,1,1+1", "select 1 1", "rds 2,2", "select 2 2", "rds 1", "commit 1", "commit 2", "rds -"], "many-entries"
    # routes whose action is a cluster specifier plugin: no subscription; the last release regenerates the service config
    yield ["rds p1", "select 1 p1", "rds p2", "select 2 p2", "commit 1", "select 3 p2", "select 4 p1", "commit 2", "commit 3", "rds -"], "plugin-late-commit"
    yield ["rds p1,1", "select 1 p1", "select 2 1", "rds 2", "commit 1", "select 3 2", "commit 2", "commit 3"], "plugin-and-cluster"
    yield ["rds p1,p1,p2", "select 1 p1", "rds p2", "rds p1", "commit 1", "commit 1", "select 2 p1", "rds -", "commit 2"], "plugin-readd"


def routes(rng, ncl, least, npl=0):
    """a route list over clusters 1..ncl: a random subset, and in ~40% of the lists some cluster is named by more than one
    route entry (repeated route, or twice inside one weighted-cluster route)"""
    sub = sorted(rng.sample(range(1, ncl + 1), rng.randrange(least, ncl + 1)))
    items = [str(c) for c in sub]
    if sub and rng.random() < 0.4:
        for _ in range(rng.randrange(1, 3)):
            c = rng.choice(sub)
            if rng.random() < 0.6:
                items.insert(rng.randrange(0, len(items) + 1), str(c))
            else:
                i = items.index(str(c)) if str(c) in items else 0
                items[i] = "%d+%d" % (c, c)
    for p in range(1, npl + 1):
        if rng.random() < 0.5:
            items.insert(rng.randrange(0, len(items) + 1), "p%d" % p)
            if rng.random() < 0.2:
                items.append("p%d" % p)
    return ",".join(items) or "-"


def gen(rng, tier):
    n = {"quick": 250, "thorough": 8000, "search": 6000}[tier]
    ln = {"quick": 24, "thorough": 40, "search": 30}[tier]
    for ops, tag in directed():
        yield Case("s_clusterrefs", ops, tag)
    for i in range(n):
        ops = []
        nid = 1
        ids = []
        blockers = 0
        ncl = rng.randrange(2, 4)
        # a third of the cases use cluster-specifier-plugin routes as well; those cases do not block the serializer
        # (the order of a regenerate callback and of an Update triggered by resources arriving asynchronously is not fixed)
        npl = rng.randrange(1, 3) if rng.random() < 0.34 else 0
        ops.append("rds " + routes(rng, ncl, 1, npl))
        while len(ops) < ln:
            k = rng.random()
            if k < 0.28:
                ops.append("rds " + routes(rng, ncl, 0, npl))
            elif npl and k < 0.55:
                continue
            elif k < 0.40 and blockers < 3:
                ops.append("pause")
                blockers += 1
            elif k < 0.55 and blockers > 0:
                ops.append("next")
                blockers -= 1
            elif k < 0.80:
                tgt = str(rng.randrange(1, ncl + 1))
                if npl and rng.random() < 0.5:
                    tgt = "p%d" % rng.randrange(1, npl + 1)
                ops.append("select %d %s" % (nid, tgt))
                ids.append(nid)
                nid += 1
            elif ids:
                ops.append("commit %d" % rng.choice(ids))
        ops += ["next"] * blockers
        for r in ids:
            ops.append("commit %d" % r)
        yield Case("s_clusterrefs", ops, "random-%d" % i)


def nontrivial(case, impl):
    sel = [k for k, (op, o) in enumerate(zip(case.ops, impl)) if op.startswith("select") and o.startswith("ok")]
    return bool(sel) and any(op.startswith("rds") for op in case.ops[sel[0]:])
