"""C28 metadata API behaves as a case-insensitive ordered multimap."""
from vlib.core import Case

ID = "C28"
COMPONENTS = ["md"]
T4 = []
PROOF_MODULES = ["GrpcProofs.Properties.C28"]
THEOREMS = ["GrpcProofs.C28." + t for t in (
    "fromOutgoing_spec", "fromOutgoing_history", "valueFromOutgoing_agrees", "valueFromIncoming_agrees",
    "fromIncoming_spec", "iteration_order_irrelevant", "agreement_needs_no_collision",
    "get_set_append_delete_case_insensitive", "multimap_laws", "pairs_new_spec", "join_concat_in_order",
    "copy_eq", "refsOK_reachable", "copies_are_fresh")]
DESIGN_REF = "DESIGN.md section 8, C28 (and F9 in section 7)"
TECHNIQUE = ("Lean 4 theorems by refinement of the association-list model to Key -> List Val (fold invariants over the map loops, "
             "Pairwise/Perm reasoning for iteration-order independence, a heap of map objects for aliasing) + T1 differential "
             "correspondence on the public API with random op sequences and mutate-after-return probes")
LEVEL_TEXT = ("Machine-checked Lean proof, for every history of NewOutgoingContext/AppendToOutgoingContext calls and every map iteration "
              "order, that FromOutgoingContext is the lower-cased multimap (base values then appended values in call order), that "
              "ValueFromOutgoing/IncomingContext equal the full lookups, of the case-insensitive multimap laws of Get/Set/Append/Delete, "
              "of Join's argument-order concatenation, and that objects returned by Copy/FromX/Join are unreferenced by any context "
              "(so mutating them changes no context read) - all under NoFoldCollision (no two keys of a stored map equal up to case), "
              "which is shown to be necessary; the model is diffed against the real package on every run.")
LEVEL_NOTE = ("Reading (F9): an MD with two keys equal up to case (only constructible by writing the map by hand) is not a state of a "
              "case-insensitive multimap; there FromIncomingContext keeps one of the colliding entries chosen by Go's map order while "
              "ValueFromIncomingContext prefers the exact-case entry, so they can disagree and results are nondeterministic. The statement "
              "is read on the domain NoFoldCollision (theorem agreement_needs_no_collision shows the hypothesis cannot be dropped); on "
              "colliding maps the monitor only requires that SOME iteration order explains each result, and the run continues from the "
              "implementation's choice. Keys are ASCII (the documented key alphabet): strings.ToLower/EqualFold are modelled on ASCII only. "
              "nil and empty []string are identified. Slices are values in the model: that the API never shares a backing array between a "
              "returned MD and a stored one is checked only by the scribble probes of the tie (overwrite to capacity, append, delete), "
              "not proved.")
GAP = "non-ASCII keys (Unicode folding differs between ToLower and EqualFold); capacity-level slice aliasing is probed, not modelled"
ASSUMPTIONS = ["metadata keys are ASCII", "context.WithValue/Value behave as an immutable association (modelled as a record per context)"]
RULE = ("random op sequences (40-70 ops) over numbered MD objects and contexts: lit/new/pairs/copy/join, get/set/append/delete/len/dump, "
        "bg/newin/newout/appendout, fromin/fromout/valin/valout and the mutate-after-return probes pcopy/pjoin/pfromin/pfromout/pvalin/pvalout/"
        "scribble; keys from a 14-word mixed-case alphabet built to collide up to case (15 % of literal maps collide on purpose), values "
        "from 6 tokens incl. the empty string; ~5 % malformed ops (unknown ids, reused ids, odd pair lists). A case is non-trivial when it "
        "performs a context read after an AppendToOutgoingContext or a probe.")

KEYS = ["a", "A", "b", "B", "ab", "Ab", "aB", "AB", "k-1", "K-1", "x_y.z", "X_Y.Z", "~", "z9"]
VALS = ["1", "2", "x", "y", "~", "vv"]


def fold(k):
    return k.lower()


class G:
    def __init__(self, rng):
        self.r = rng
        self.nobj = 0
        self.nctx = 0
        self.objs = []       # ids that exist
        self.ctxs = {}       # id -> (has_in, has_out)
        self.ops = []

    def key(self):
        return self.r.choice(KEYS)

    def val(self):
        return self.r.choice(VALS)

    def vals(self, lo=0):
        n = self.r.choice([lo, 1, 1, 2, 3])
        return ",".join(self.val() for _ in range(n)) or "-"

    def lit(self, collide):
        ks = []
        for _ in range(self.r.randrange(0, 5)):
            k = self.key()
            if k in ks:
                continue
            if not collide and any(fold(k) == fold(x) for x in ks):
                continue
            ks.append(k)
        if collide and ks:
            k = self.r.choice(ks)
            for alt in (k.upper(), k.lower(), k.capitalize(), k.swapcase()):
                if alt not in ks:
                    ks.append(alt)
                    break
        self.r.shuffle(ks)
        if not ks:
            return "-"
        gs = []
        for k in ks:
            n = self.r.choice([0, 1, 1, 2, 3])
            gs.append(k + "=" + (",".join(self.val() for _ in range(n)) if n else "!"))
        return ";".join(gs)

    def newobj(self):
        d = self.nobj
        self.nobj += 1
        return d

    def obj(self):
        if self.objs and self.r.random() < 0.97:
            return self.r.choice(self.objs)
        return self.r.randrange(0, self.nobj + 3)

    def ctx(self):
        if self.ctxs and self.r.random() < 0.97:
            return self.r.choice(list(self.ctxs))
        return self.r.randrange(0, self.nctx + 3)

    def kvargs(self):
        n = self.r.choice([0, 1, 1, 2, 3])
        a = []
        for _ in range(n):
            a += [self.key(), self.val()]
        if self.r.random() < 0.03:
            a.append(self.key())
        return a

    def step(self):
        r = self.r
        x = r.random()
        if not self.ctxs or x < 0.03:
            c = self.nctx
            self.nctx += 1
            self.ctxs[c] = (False, False)
            self.ops.append("bg %d" % c)
        elif not self.objs or x < 0.12:
            d = self.newobj()
            self.objs.append(d)
            self.ops.append("lit %d %s" % (d, self.lit(r.random() < 0.15)))
        elif x < 0.16:
            d = self.newobj()
            ks = []
            for _ in range(r.randrange(0, 4)):
                k = self.key()
                if k not in ks and (r.random() < 0.2 or not any(fold(k) == fold(y) for y in ks)):
                    ks.append(k)
            self.objs.append(d)
            self.ops.append("new %d %s" % (d, ";".join(k + "=" + self.val() for k in ks) or "-"))
        elif x < 0.21:
            d = self.newobj()
            a = self.kvargs()
            if len(a) % 2 == 0:
                self.objs.append(d)
            self.ops.append(("pairs %d " % d + " ".join(a)).strip())
        elif x < 0.24:
            d = self.newobj()
            s = self.obj()
            if s in self.objs:
                self.objs.append(d)
            self.ops.append("copy %d %d" % (d, s))
        elif x < 0.28:
            d = self.newobj()
            ss = [self.obj() for _ in range(r.randrange(0, 4))]
            if all(s in self.objs for s in ss):
                self.objs.append(d)
            self.ops.append(("join %d " % d + " ".join(map(str, ss))).strip())
        elif x < 0.36:
            self.ops.append("get %d %s" % (self.obj(), self.key()))
        elif x < 0.42:
            self.ops.append("set %d %s %s" % (self.obj(), self.key(), self.vals()))
        elif x < 0.48:
            self.ops.append("append %d %s %s" % (self.obj(), self.key(), self.vals()))
        elif x < 0.51:
            self.ops.append("delete %d %s" % (self.obj(), self.key()))
        elif x < 0.53:
            self.ops.append("%s %d" % (r.choice(["len", "dump"]), self.obj()))
        elif x < 0.58:
            c = self.nctx
            self.nctx += 1
            p, m = self.ctx(), self.obj()
            kind = r.choice(["newin", "newout", "newout"])
            if p in self.ctxs and m in self.objs:
                hi, ho = self.ctxs[p]
                self.ctxs[c] = (True, ho) if kind == "newin" else (hi, True)
            self.ops.append("%s %d %d %d" % (kind, c, p, m))
        elif x < 0.68:
            c = self.nctx
            self.nctx += 1
            p = self.ctx()
            a = self.kvargs()
            if p in self.ctxs and len(a) % 2 == 0:
                self.ctxs[c] = (self.ctxs[p][0], True)
            self.ops.append(("appendout %d %d " % (c, p) + " ".join(a)).strip())
        elif x < 0.76:
            d = self.newobj()
            c = self.ctx()
            kind = r.choice(["fromin", "fromout", "fromout"])
            if c in self.ctxs and r.random() < 0.85 and any(self.ctxs[c]):
                kind = r.choice([k for k, h in zip(("fromin", "fromout"), self.ctxs[c]) if h])
            if c in self.ctxs and self.ctxs[c][0 if kind == "fromin" else 1]:
                self.objs.append(d)
            self.ops.append("%s %d %d" % (kind, d, c))
        elif x < 0.86:
            self.ops.append("%s %d %s" % (r.choice(["valin", "valout", "valout"]), self.ctx(), self.key()))
        elif x < 0.88:
            self.ops.append("pcopy %d" % self.obj())
        elif x < 0.90:
            self.ops.append(("pjoin " + " ".join(str(self.obj()) for _ in range(r.randrange(1, 4)))).strip())
        elif x < 0.94:
            self.ops.append("%s %d" % (r.choice(["pfromin", "pfromout", "pfromout"]), self.ctx()))
        elif x < 0.98:
            self.ops.append("%s %d %s" % (r.choice(["pvalin", "pvalout", "pvalout"]), self.ctx(), self.key()))
        elif x < 0.99:
            self.ops.append("scribble %d" % self.obj())
        else:
            # reuse of an id (rejected on both sides)
            self.ops.append("lit %d %s" % (self.obj(), self.lit(False)))


# directed cases: the documented aliasing of NewXContext, F9, odd pairs, empty maps
DIRECTED = [
    ["bg 0", "lit 0 Foo=A;foo=b", "newin 1 0 0", "fromin 1 1", "valin 1 foo", "valin 1 Foo", "valin 1 FOO", "pfromin 1"],
    ["bg 0", "lit 0 Foo=A;foo=b", "newout 1 0 0", "appendout 2 1 FOO c", "fromout 1 2", "valout 2 foo", "valout 2 Foo"],
    ["bg 0", "lit 0 Foo=A,B", "newout 1 0 0", "appendout 2 1 FOO c foo d", "appendout 3 2 Bar e", "fromout 1 3", "valout 3 FOO",
     "valout 3 bar", "valout 2 bar", "set 0 x 1", "fromout 2 3", "pfromout 3", "pvalout 3 foo"],
    ["bg 0", "appendout 1 0 K v", "appendout 2 1 k w", "fromout 0 2", "valout 2 K", "fromout 1 0", "fromin 2 2", "valin 2 k"],
    ["bg 0", "appendout 1 0 K", "pairs 0 a", "pairs 1", "new 2 -", "lit 3 -", "join 4", "join 5 3 2", "newin 2 0 3", "fromin 6 2", "valin 2 a"],
    ["lit 0 a=1,2;B=3", "copy 1 0", "set 1 A 9", "dump 0", "dump 1", "pcopy 0", "join 2 0 1 0", "pjoin 0 1", "get 0 b", "get 0 B", "delete 0 A", "len 0"],
    # sibling contexts appended from one parent must not share the `added` backing array
    ["bg 0", "appendout 1 0 a 1", "appendout 2 1 b 2", "appendout 3 2 c 3", "appendout 4 3 d 4", "appendout 5 3 e 5", "appendout 6 3 f 6",
     "fromout 0 4", "fromout 1 5", "fromout 2 6", "valout 4 d", "valout 4 e", "valout 5 e", "valout 6 f", "appendout 7 4 g 7", "appendout 8 4 h 8",
     "fromout 3 7", "fromout 4 8", "fromout 5 4"],
    ["new 0 A=1;a=2;b=3", "new 1 a=1;B=2", "pairs 2 A 1 a 2 A 3 b ~", "get 2 a", "append 2 A 4,5", "get 2 A", "set 2 a -", "append 2 q -", "dump 2"],
]


def gen(rng, tier):
    n = {"quick": 250, "thorough": 6000, "search": 3000}[tier]
    for i, ops in enumerate(DIRECTED):
        yield Case("md", ops, "directed-%d" % i)
    for i in range(n):
        g = G(rng)
        for _ in range(rng.randrange(40, 71)):
            g.step()
        yield Case("md", g.ops, "rand-%d" % i)


def nontrivial(case, impl_lines):
    seen_append = False
    for op, out in zip(case.ops, impl_lines):
        if op.startswith("appendout") and out == "ok":
            seen_append = True
        if out in ("bad-op", "none", "panic"):
            continue
        if op[0] == "p" and not op.startswith("pairs"):
            return True
        if seen_append and op.split(" ")[0] in ("fromout", "valout"):
            return True
    return False
