"""C56 DNS resolution is paced and targets are parsed correctly."""
from vlib.core import Case

ID = "C56"
COMPONENTS = ["dnstarget", "s_dnswatch"]
T4 = []
PROOF_MODULES = ["GrpcProofs.Properties.C56"]
THEOREMS = ["GrpcProofs.C56." + t for t in (
    "run_inv", "lookup_spacing", "relookups_le_resolveNow", "stops_when_closed", "backoff_index",
    "parse_empty", "parse_ip", "parse_host_port", "parse_trailing_colon", "parse_bracket_port",
    "parse_bracket_trailing_colon", "parse_bracket_default", "parse_host_default", "format_ip")]
DESIGN_REF = "DESIGN.md section 8, C56"
TECHNIQUE = ("Lean 4: inductive invariant of the watcher loop over an explicit virtual clock (every event sequence), list lemmas for "
             "net.SplitHostPort/parseTarget; T2 correspondence under testing/synctest virtual time + T1 on parseTarget/formatIP")
LEVEL_TEXT = ("Machine-checked proof, for every sequence of lookups results, ResolveNow calls, time advances and Close, that a lookup "
              "directly after a successful one is at least MinResolutionInterval later and paid for by a distinct ResolveNow call, "
              "that a lookup after a failed one waits at least the backoff drawn, that the backoff index counts consecutive failures, "
              "and that nothing happens after Close; and, for all byte strings of the stated shapes, that parseTarget accepts "
              "host, host:port, [v6], [v6]:port and IP literals, applies the default port, rejects trailing colons, and that "
              "formatIP brackets IPv6. The model is replayed against the real resolver (virtual time, scripted NetResolver) and "
              "the real parseTarget/formatIP on every run.")
LEVEL_NOTE = ("Trusted: Lean kernel; netip.ParseAddr (its verdict is an input of the model, taken from the real function); the jittered "
              "backoff value is random in the code, so the instant of a retry is read from the implementation and checked against the band "
              "[0.8,1.2]*min(1s*1.6^k,120s) by the monitor; a lookup takes a scripted amount of virtual time during which no other op is issued (ResolveNow during a lookup is covered by the theorems only). Reading: 'a re-resolution request "
              "has arrived' counts a ResolveNow issued while the previous wait was still running (the 1-slot channel keeps it): formalised as "
              "token accounting (#lookups that follow a success <= #ResolveNow calls).")
GAP = "real DNS, ResolvingTimeout, ResolveNow arriving while a lookup is in flight, SRV/TXT paths, float arithmetic of backoff"
ASSUMPTIONS = ["netip.ParseAddr is correct", "time.After fires exactly at its instant (virtual time under synctest)"]
RULE = ("watcher: random scripts of lookup results (30% failures), MinResolutionInterval in {1s,30s}, op sequences of rn / sleep with "
        "durations around the interval and the backoff band / close; a case is non-trivial if it has >= 3 lookups incl. a failure or a "
        "coalesced ResolveNow; targets: structured hosts/IPv4/IPv6/bracket forms with ports, plus mutated and random byte strings; "
        "distinct = distinct op text")

S = 10**9


def hexs(b):
    return b.hex() or "-"


def gen_watch(rng, n, ln):
    for i in range(n):
        mi = rng.choice([1 * S, 30 * S, 30 * S])
        ops = []
        script = "".join("f" if rng.random() < 0.3 else "o" for _ in range(rng.randrange(0, 12)))
        if script:
            ops.append("script " + script)
        if rng.random() < 0.5:
            ops.append("dur %d" % rng.choice([1, S, 5 * S, 20 * S, mi - 1, mi, 45 * S]))
        ops.append("build %d" % mi)
        for _ in range(rng.randrange(3, ln)):
            r = rng.random()
            if r < 0.35:
                ops.append("rn")
            elif r < 0.9:
                d = rng.choice([mi, mi - 1, mi + 1, mi // 2, 2 * mi, S, 2 * S, 3 * S, 100 * 10**6, rng.randrange(1, 4 * mi)])
                ops.append("sleep %d" % max(1, d))
            elif r < 0.93:
                ops.append("script " + rng.choice(["f", "ff", "fo", "fffff", "o"]))
            elif r < 0.945:
                ops.append("dur %d" % rng.choice([0, 0, S // 2, 3 * S, 29 * S]))
            elif r < 0.96:
                ops.append("close")
            else:
                ops.append("sleep %d" % rng.randrange(1, 400 * S))
        yield Case("s_dnswatch", ops, "watch-%d" % i)


HOSTS = [b"example.com", b"a", b"localhost", b"foo-bar.baz", b"", b"1.2.3.4", b"256.1.1.1", b"::1", b"2001:db8::1", b"fe80::1%eth0",
         b"::", b"1.2.3", b"[::1]", b"[2001:db8::1]", b"[", b"]", b"[]", b"[a]b", b"a[b]", b"[::1", b"::1]", b"x:y:z", b"[[::1]]"]
HOSTS += [b"::ffff:10.1.2.3", b"::ffff:a01:203", b"0:0:0:0:0:ffff:1.2.3.4", b"::1.2.3.4", b"64:ff9b::1.2.3.4", b"::ffff:1.2.3.4%z",
          b"::FFFF:1.2.3.4", b"0000:0000:0000:0000:0000:ffff:0a01:0203", b"1:2:3:4:5:6:7:8", b"1:2:3:4:5:6:1.2.3.4", b"::ffff:0:1.2.3.4",
          b"ff02::1%3", b"::ffff:256.1.1.1", b"1::", b"::ffff:", b"0.0.0.0", b"255.255.255.255", b"01.2.3.4"]
PORTS = [b"80", b"443", b"", b"0", b"http", b"65536", b"8:0", b"[", b"]"]


def rand_ip6(rng):
    """every textual shape of an IPv6 literal: 0-8 hex groups, optional `::` compression at any position, optional dotted-quad
    tail (IPv4-mapped / IPv4-compatible / NAT64 / arbitrary prefix), optional zone, upper/lower case, sometimes slightly broken"""
    tail = rng.random() < 0.45
    ng = rng.randrange(0, 7 if tail else 9)
    groups = [rng.choice(["0", "ffff", "FFFF", "0000", "1", "a01", "%x" % rng.randrange(65536)]) for _ in range(ng)]
    if rng.random() < 0.5 and ng >= 4:
        groups[-1] = "ffff"           # ...:ffff:<v4 tail or last two groups>
        for k in range(ng - 1):
            groups[k] = rng.choice(["0", "0", "0000"])
    if rng.random() < 0.7:
        k = rng.randrange(0, ng + 1)
        txt = ":".join(groups[:k]) + "::" + ":".join(groups[k:])
    else:
        txt = ":".join(groups)
    if tail:
        q = ".".join(str(rng.choice([0, 1, 10, 127, 255, 256, rng.randrange(256)])) for _ in range(rng.choice([4, 4, 4, 3])))
        txt = txt + ("" if txt.endswith(":") or not txt else ":") + q
    if rng.random() < 0.15:
        txt += "%" + rng.choice(["eth0", "1", ""])
    return txt.encode()


def gen_targets(rng, n):
    ops = set()
    for _ in range(max(200, n // 10)):
        a = rand_ip6(rng)
        ops.add("fmt " + hexs(a))
        ops.add("parse %s %s" % (hexs(a), hexs(b"443")))
        ops.add("parse %s %s" % (hexs(b"[" + a + b"]:80"), hexs(b"443")))
    for h in HOSTS:
        for d in (b"443", b"53"):
            ops.add("parse %s %s" % (hexs(h), hexs(d)))
            ops.add("parse %s %s" % (hexs(h + b":"), hexs(d)))
            for p in PORTS:
                ops.add("parse %s %s" % (hexs(h + b":" + p), hexs(d)))
        ops.add("fmt " + hexs(h))
    alpha = b"a1:[].%-]x:"
    for _ in range(n):
        s = bytes(rng.choice(alpha) for _ in range(rng.randrange(0, 9)))
        ops.add("parse %s %s" % (hexs(s), hexs(b"443")))
        if rng.random() < 0.2:
            ops.add("fmt " + hexs(s))
    for _ in range(n // 4):
        s = bytes(rng.randrange(256) for _ in range(rng.randrange(0, 7)))
        ops.add("parse %s %s" % (hexs(s), hexs(rng.choice([b"443", b"", b":", b"4]3"]))))
    ops = sorted(ops)
    for i in range(0, len(ops), 4000):
        yield Case("dnstarget", ops[i:i + 4000], "targets-%d" % (i // 4000))


def gen(rng, tier):
    nw, ln, nt = {"quick": (250, 25, 6000), "thorough": (6000, 40, 200000), "search": (3000, 40, 60000)}[tier]
    yield from gen_targets(rng, nt)
    yield from gen_watch(rng, nw, ln)


def nontrivial(case, impl):
    if case.component == "dnstarget":
        return len(case.ops) > 0
    n = sum(l.count(":") for l in impl)
    return n >= 3 and any(":f" in l for l in impl)
