"""C50 Load reports neither lose nor double count load."""
from vlib.core import Case

ID = "C50"
COMPONENTS = ["loadstore"]
T4 = []
PROOF_MODULES = ["GrpcProofs.Properties.C50"]
THEOREMS = ["GrpcProofs.C50." + t for t in (
    "conservation", "conservation_load_sum", "conservation_total_drops", "events_all_applied",
    "conservation_quiescent", "conservation_total_drops_quiescent",
    "in_progress_is_value_at_some_instant_within_snapshot", "in_progress_counter_is_started_minus_finished",
    "in_progress_counter_bounds", "abandoned_zero_of_wellformed")]
DESIGN_REF = "DESIGN.md section 8, C50"
TECHNIQUE = ("Lean 4 inductive invariants over an interleaving model (one rule per atomic access / critical section / sync.Map "
             "Range choice of load_store.go, any number of goroutines); tie T3 (the real PerClusterReporter stepped one atomic "
             "access at a time through yield points regenerated from the current source) + T1 (sequential calls, exact reports) "
             "+ real-concurrency stress whose totals the model predicts by the conservation theorem")
LEVEL_TEXT = ("Machine-checked proof that for every interleaving of CallStarted/CallFinished/CallDropped/CallServerLoad with any "
              "number of concurrent stats() snapshots, for every counter, (sum over all reports) + (values held by running "
              "snapshots) + (residual in the store) = (amount added), hence at quiescence reports + residual = recorded events; "
              "and that every reported in-progress value is the value of the in-progress counter (= increments - decrements) in "
              "a state that lies between the invocation and the return of that stats() call.")
LEVEL_NOTE = ("Trusted: Lean kernel; Go memory model for sync/atomic, sync.Mutex and the documented sync.Map.Range contract (no key "
              "twice, keys present at start visited); tools/instrument; the step-to-rules glue in lean/GrpcModel/Driver/LoadStore.lean. "
              "uint64 wrap-around is modelled: the theorems carry the explicit hypothesis that fewer than 2^64 units were added to the "
              "counter concerned. Server-load sums are float64 in Go and Nat in the model: the tie uses integer-valued loads (exact in "
              "float64); for arbitrary floats the sum of per-report sums equals the sum of events only up to float rounding, which is "
              "outside the model. The instrumenter does not reach the SwapUint64 inside the p.drops.Range closure, so in the T3 runs all "
              "drop swaps of one stats() happen in one step (the theorems cover the finer interleavings; the stress run exercises them). "
              "The uncategorised drop category \"\" is reported only through totalDrops (conservation_total_drops). "
              "Reading of 'in-progress equals started minus finished at some point during the snapshot': the monitor uses the "
              "linearizability interval (calls whose CallStarted/CallFinished overlaps the snapshot may or may not be counted).")
GAP = "float64 rounding of server-load sums; LoadStore.stats map iteration over several clusters (each reporter is independent)"
ASSUMPTIONS = ["fewer than 2^64 events per counter (explicit theorem hypothesis)", "server-load values are non-negative integers in the tie",
               "sync.Map.Range visits no key twice", "CallFinished/CallServerLoad follow a CallStarted on the same locality (else the call is a no-op; theorem abandoned_zero_of_wellformed)"]
RULE = ("threads = calls on one real PerClusterReporter; directed schedules that park a stats() between each pair of its four per-locality "
        "reads while CallStarted/CallFinished pairs run through, stats() racing stats(), new localities/categories/names appearing during "
        "a Range; random schedules over 2-3 localities, 3 categories (incl. the empty one), 2 load names; sequential scripts (run ops) with "
        "exact report comparison; par ops = real goroutines. Every case ends with all threads run to completion and a final stats(). "
        "non-trivial = at least one stats() overlapped another call or the case is a par stress; distinct = distinct op list")


class Sched:
    """Builds well-formed schedules: finish(l) is spawned only when a start(l) has returned."""

    def __init__(self, rng):
        self.rng = rng
        self.ops = []
        self.next = 1
        self.live = {}       # tid -> call tuple, spawned and not known done
        self.done_starts = {}  # l -> returned starts not yet matched by a spawned finish
        self.steps_left = {}

    def spawn(self, *call):
        tid = self.next
        self.next += 1
        self.ops.append("spawn %d %s" % (tid, " ".join(str(c) for c in call)))
        self.live[tid] = call
        # upper bound of yields: start 2, finish 2, drop 1, load 1, stats unknown
        self.steps_left[tid] = {"start": 3, "finish": 3, "drop": 2, "load": 2}.get(call[0], None)
        return tid

    def step(self, tid, n=1):
        for _ in range(n):
            if tid not in self.live:
                return
            self.ops.append("step %d" % tid)
            if self.steps_left[tid] is not None:
                self.steps_left[tid] -= 1
                if self.steps_left[tid] == 0:
                    self.finish_thread(tid)

    def finish_thread(self, tid):
        call = self.live.pop(tid)
        if call[0] == "start":
            self.done_starts[call[1]] = self.done_starts.get(call[1], 0) + 1

    def run(self, tid):
        if tid in self.live:
            self.ops.append("run %d" % tid)
            self.finish_thread(tid)

    def can_finish(self):
        return [l for l, n in self.done_starts.items() if n > 0]

    def spawn_finish(self, l, ok=True):
        self.done_starts[l] -= 1
        return self.spawn("finish", l, "ok" if ok else "err")

    def close(self):
        for tid in sorted(self.live):
            self.run(tid)
        for l in list(self.can_finish()):
            while self.done_starts[l] > 0:
                self.run(self.spawn_finish(l, self.rng.random() < 0.7))
        self.run(self.spawn("stats"))
        self.run(self.spawn("stats"))
        return self.ops


def directed(rng):
    # a stats() parked between each pair of its four reads while a start/finish pair runs through
    for k in range(0, 6):          # steps of the snapshot before the calls run
        for who in ("start", "finish", "both"):
            s = Sched(rng)
            s.run(s.spawn("start", 1))
            s.run(s.spawn("start", 1))
            s.run(s.spawn("load", 1, 1, 7))
            s.run(s.spawn("drop", 1))
            snap = s.spawn("stats")
            s.step(snap, k)
            if who in ("start", "both"):
                a = s.spawn("start", 1)
                s.step(a, rng.randrange(1, 4))
            if who in ("finish", "both"):
                b = s.spawn_finish(1, rng.random() < 0.5)
                s.step(b, rng.randrange(1, 4))
            s.step(snap, rng.randrange(0, 4))
            yield s.close(), "window-%d-%s" % (k, who)
    # two snapshots racing each other and the calls
    for k in range(4):
        s = Sched(rng)
        for l in (1, 2):
            s.run(s.spawn("start", l))
            s.run(s.spawn("load", l, 1, 3))
        s.run(s.spawn("drop", 0))
        s.run(s.spawn("drop", 2))
        x, y = s.spawn("stats"), s.spawn("stats")
        for _ in range(12):
            s.step(rng.choice([x, y]), rng.randrange(1, 3))
            if rng.random() < 0.4:
                s.run(s.spawn("start", rng.choice([1, 2])))
        yield s.close(), "two-snapshots-%d" % k
    # new locality / category / name appearing while a Range is in progress
    for k in range(4):
        s = Sched(rng)
        s.run(s.spawn("start", 1))
        s.run(s.spawn("load", 1, 1, 2))
        snap = s.spawn("stats")
        s.step(snap, 1 + k)
        s.run(s.spawn("start", 2))
        s.run(s.spawn("start", 3))
        s.run(s.spawn("load", 1, 2, 5))
        s.run(s.spawn("drop", 1))
        s.step(snap, 3)
        s.run(s.spawn("load", 2, 1, 1))
        yield s.close(), "grow-during-range-%d" % k
    # calls the real code ignores: finish / load on a locality nobody started
    s = Sched(rng)
    s.run(s.spawn("finish", 5, "ok"))
    s.run(s.spawn("load", 5, 1, 9))
    s.run(s.spawn("stats"))
    s.run(s.spawn("start", 5))
    yield s.close(), "unknown-locality"
    # server loads on a locality whose four counters are zero stay in the store until it has traffic again
    s = Sched(rng)
    s.run(s.spawn("start", 1))
    s.run(s.spawn_finish(1))
    s.run(s.spawn("stats"))
    s.run(s.spawn("load", 1, 1, 4))
    s.run(s.spawn("stats"))
    s.run(s.spawn("start", 1))
    yield s.close(), "loads-wait-for-traffic"


def random_sched(rng, nops, seq):
    s = Sched(rng)
    nloc = rng.randrange(1, 4)
    while len(s.ops) < nops:
        r = rng.random()
        live = sorted(s.live)
        if live and r < (0.0 if seq else 0.62):
            tid = rng.choice(live)
            if rng.random() < 0.15:
                s.run(tid)
            else:
                s.step(tid, 1 + int(rng.expovariate(0.7)))
            continue
        k = rng.random()
        if k < 0.3:
            t = s.spawn("start", rng.randrange(1, nloc + 1))
        elif k < 0.55 and s.can_finish():
            t = s.spawn_finish(rng.choice(s.can_finish()), rng.random() < 0.6)
        elif k < 0.68:
            t = s.spawn("drop", rng.randrange(0, 3))
        elif k < 0.8 and s.done_starts:
            t = s.spawn("load", rng.choice(sorted(s.done_starts)), rng.randrange(1, 3), rng.randrange(0, 50))
        elif k < 0.97:
            t = s.spawn("stats")
        else:
            continue
        if seq:
            s.run(t)
    return s.close()


def script(rng, nloc):
    toks = []
    out = {}
    for _ in range(rng.randrange(2, 9)):
        k = rng.random()
        l = rng.randrange(1, nloc + 1)
        if k < 0.35:
            toks.append("s%d" % l)
            out[l] = out.get(l, 0) + 1
        elif k < 0.6 and any(out.values()):
            l = rng.choice([x for x in sorted(out) if out[x] > 0])
            out[l] -= 1
            toks.append(("f%d" if rng.random() < 0.6 else "e%d") % l)
        elif k < 0.8:
            toks.append("d%d" % rng.randrange(0, 3))
        elif out:
            toks.append("w%d.%d.%d" % (rng.choice(sorted(out)), rng.randrange(1, 3), rng.randrange(0, 9)))
    # close every call so that the final in-progress is exact and small
    for l in sorted(out):
        toks += ["f%d" % l] * out[l]
    return ",".join(toks) if toks else "d1"


def gen(rng, tier):
    n = {"quick": 260, "thorough": 9000, "search": 9000}[tier]
    npar = {"quick": 6, "thorough": 60, "search": 30}[tier]
    ln = {"quick": 60, "thorough": 90, "search": 70}[tier]
    for ops, tag in directed(rng):
        yield Case("loadstore", ops, tag)
    for i in range(n):
        seq = rng.random() < 0.2
        yield Case("loadstore", random_sched(rng, ln, seq), ("seq-%d" if seq else "random-%d") % i)
    for i in range(npar):
        g = rng.randrange(2, 7)
        nloc = rng.randrange(1, 4)
        reps = rng.choice([200, 1000, 3000])
        yield Case("loadstore", ["par %d %d %s" % (reps, rng.choice([20, 200]), " ".join(script(rng, nloc) for _ in range(g)))], "par-%d" % i)


def nontrivial(case, impl):
    if case.ops and case.ops[0].startswith("par"):
        return True
    # a stats() that was stepped (not just run) and some other thread stepped in between
    stepped = [op for op in case.ops if op.startswith("step")]
    return len(set(stepped)) >= 2 and any("rep=T" in l for l in impl)
