"""C33 Switching LB policies is graceful and isolates the old policy."""
from vlib.core import Case

ID = "C33"
COMPONENTS = ["s_gsw"]
T4 = ["LbConnState"]
PROOF_MODULES = ["GrpcProofs.Properties.C33"]
THEOREMS = ["GrpcProofs.C33." + t for t in (
    "swap_rule", "swap_effect", "old_picker_used_while_old_ready_and_new_connecting",
    "channel_has_latest_state_of_policy_in_use", "no_update_from_closed_or_superseded",
    "closed_or_superseded_policy_is_silent", "subconns_of_closed_child_shut_down",
    "late_subconn_of_closed_policy_shut_down", "replaced_pending_is_closed", "pending_is_connecting_and_has_a_current",
    "close_closes_everything")]
DESIGN_REF = "DESIGN.md section 8, C33"
TECHNIQUE = ("Lean 4 theorems (invariants by induction over op lists, case analysis of the swap rule) about a full port of the "
             "mutex-protected gracefulswitch state machine + T2 differential correspondence on the real gracefulswitch.Balancer "
             "(stub builders/children, recording ClientConn, swap goroutine joined in a synctest bubble)")
LEVEL_TEXT = ("Machine-checked Lean proofs, for every sequence of switches (incl. automatic ones via UpdateClientConnState), child "
              "state reports from current, pending, closed and superseded policies, SubConn creation/state/shutdown, resolver "
              "errors and Close: the exact swap rule in both directions, that the channel always holds the latest state of the "
              "policy in use, that no update of a policy that is not current reaches the channel, that closing a policy shuts "
              "down every SubConn it created and still owns, that a replaced pending policy is closed on the spot, and that a NewSubConn "
              "call still inside the parent ClientConn when its policy loses its role ends with the SubConn shut down and an error.")
LEVEL_NOTE = ("Trusted: Lean kernel; hand model lean/GrpcModel/Model/GracefulSwitch.lean tied by differential runs. Readings: "
              "'as soon as … the old one leaves READY' is event-driven in the code and in the theorems: the swap is decided when "
              "a policy REPORTS; a switch started while the old policy is already not READY completes at the next report of "
              "either policy (swap_rule covers exactly that). The picker of a wrapper that never reported is anonymous "
              "(base.NewErrPicker): its owner is not observable and is taken from the model.")
GAP = ("real concurrency between UpdateState callers and channel calls (serialised by gsb.mu/currentMu: ops are atomic at the grain "
       "of the mutex); NewSubConn is split where it releases gsb.mu (a call held inside the parent ClientConn while the policy is "
       "swapped out/closed); Build returning nil is generated")
ASSUMPTIONS = ["children are identified by build order", "an op = one call into the balancer followed by quiescence of the close goroutine"]
RULE = ("random op sequences (<= 60 ops): switch / UpdateClientConnState with and without a gracefulswitch config (4 builder "
        "names, inline Build and UpdateClientConnState scripts: report a state, create a SubConn, return nil / an error), state "
        "reports R/C/I/T/S from any child ever built (biased to the newest three: current, pending, just superseded), NewSubConn, "
        "NewSubConn calls issued from the policy's own goroutine and held inside the parent ClientConn while anything else happens "
        "(random, plus a directed family: the caller loses its role by swap / replacement / Close, or keeps it, before the call returns), "
        "SubConn state via listener and via the deprecated UpdateSubConnState, direct Shutdown, ResolveNow, UpdateAddresses, "
        "ResolverError, ExitIdle, Close (then more ops). Non-trivial: at least one swap-rule decision with a pending policy.")

ST = "RCITS"


def script(rng, build):
    x = rng.random()
    if x < 0.45:
        return "-"
    if x < 0.8:
        return "st:" + rng.choice("RRCCIT")
    if x < 0.95:
        return "nsc"
    return "nil" if build else "err"


def gen_case(rng, maxlen, ci):
    ops = []
    builds = 0
    scs = 0
    bias = rng.choice(["RC", "RCIT", "RRRC", "CCCR", "RCITS", "TI"])
    last_name = None
    closed = False
    held = []
    for _ in range(rng.randrange(3, maxlen)):
        x = rng.random()
        kid = lambda: max(1, builds - rng.choice([0, 0, 0, 1, 1, 2, rng.randrange(0, builds + 1)])) if builds else 1
        if builds == 0 or x < 0.12:
            nm = rng.randrange(4)
            ops.append("switch %d %s" % (nm, script(rng, True)))
            if not closed:
                builds += 1; last_name = str(nm)
        elif x < 0.20:
            nm = rng.choice(["-", "0", "1", "2", "3"])
            ops.append("ucc %s %s %s" % (nm, script(rng, True), script(rng, False)))
            if nm != "-" and nm != last_name and not closed:
                builds += 1; last_name = nm
        elif x < 0.62:
            ops.append("st %d %s" % (kid(), rng.choice(bias)))
        elif x < 0.70:
            ops.append("nsc %d" % kid()); scs += 1
        elif x < 0.74:
            # a NewSubConn call from the policy's own goroutine, held inside the parent ClientConn; released later
            ops.append("nscb %d" % kid()); scs += 1; held.append(scs)
        elif x < 0.78 and held:
            ops.append("nsce %d" % held.pop(rng.randrange(len(held))))
        elif x < 0.82 and scs:
            ops.append("%s %d %s" % (rng.choice(["scst", "scst", "uscs"]), rng.randrange(1, scs + 1), rng.choice("RCITSS")))
        elif x < 0.85 and scs:
            ops.append("scsd %d" % rng.randrange(1, scs + 1))
        elif x < 0.89:
            ops.append("rn %d" % kid())
        elif x < 0.92 and scs:
            ops.append("ua %d %d" % (kid(), rng.randrange(1, scs + 1)))
        elif x < 0.95:
            ops.append("reserr")
        elif x < 0.97:
            ops.append("exitidle")
        elif x < 0.985:
            ops.append("close"); closed = True
        else:
            ops.append("st %d %s" % (kid(), rng.choice(ST)))
    return Case("s_gsw", ops, "gsw-%d" % ci)


def directed():
    # the statement, step by step
    yield Case("s_gsw", ["switch 0 -", "st 1 R", "nsc 1", "nsc 1", "switch 1 -", "st 2 C", "st 1 R", "nsc 2", "st 2 C",
                         "st 2 R", "st 1 T", "nsc 1", "scst 1 R", "scst 3 R", "close", "st 2 I", "switch 2 -"], "graceful")
    # old leaves READY first
    yield Case("s_gsw", ["switch 0 st:R", "switch 1 nsc", "st 2 C", "st 1 C", "st 1 R", "st 2 R"], "old-leaves-ready")
    # repeated switch: pending replaced
    yield Case("s_gsw", ["switch 0 st:R", "switch 1 nsc", "switch 2 -", "st 2 R", "st 3 I", "st 1 R"], "pending-replaced")
    # switch while the old policy is not READY: completes at the next report
    yield Case("s_gsw", ["switch 0 st:C", "switch 1 -", "st 2 C"], "old-not-ready")
    yield Case("s_gsw", ["reserr", "ucc 1 st:R -", "ucc 1 - st:T", "ucc 2 nil -", "ucc 2 st:C err", "ucc - - -", "close", "ucc 3 - -", "ucc - - -", "reserr"], "ucc")
    # a NewSubConn call of policy X is inside the parent ClientConn while X loses its role in every possible way (swap by the
    # pending's report, swap by its own report, replaced as pending, Close) or keeps it; then the call returns
    k = 0
    for role in ("cur", "pend"):
        for lose in (["st 2 R"], ["st 1 T"], ["switch 2 -"], ["close"], ["st 2 C"], ["st 1 R"], ["nsc 1", "nsc 2"]):
            pre = ["switch 0 st:R", "nsc 1", "switch 1 nsc"]
            who = "1" if role == "cur" else "2"
            yield Case("s_gsw", pre + ["nscb " + who] + lose + ["nsce 3", "scst 3 R", "st 1 I", "st 2 I", "close"], "held-nsc-%d" % k)
            k += 1
    yield Case("s_gsw", ["switch 0 nil", "switch 1 st:R", "switch 2 nil", "st 2 R", "switch 3 st:T", "exitidle", "rn 2", "rn 4"], "build-nil")


def gen(rng, tier):
    n, ml = {"quick": (1500, 45), "thorough": (40000, 60), "search": (20000, 60)}[tier]
    for c in directed():
        yield c
    for i in range(n):
        yield gen_case(rng, ml, i)


def nontrivial(case, impl_lines):
    pend = False
    for op, l in zip(case.ops, impl_lines):
        if op.startswith("st ") and ",x" in ("," + l.split("ev=")[-1]):
            return True
    return False
