"""C08 grpc-message percent-encoding is a lossless printable-ASCII round trip."""
from vlib.core import Case

ID = "C08"
COMPONENTS = ["grpcmessage", "utf8"]
T4 = ["GrpcMessage"]
PROOF_MODULES = ["GrpcProofs.Properties.C08"]
THEOREMS = ["GrpcProofs.C08." + t for t in (
    "encode_printable", "roundtrip_any", "roundtrip_valid", "sanitize_spec", "sanitize_valid_iff",
    "valid_iff_wellFormed", "decode_never_panics", "encode_eq_unchecked", "decode_eq_unchecked",
    "decode_plain_id")]
DESIGN_REF = "DESIGN.md section 8, C08"
TECHNIQUE = ("Lean 4 theorems (induction over the decode loop, Nat bit-arithmetic lemmas for the UTF-8 encode/decode inverse) "
             "+ T1 differential correspondence of the codec AND of the unicode/utf8 primitive model + T4 regenerated constants")
LEVEL_TEXT = ("Machine-checked Lean proof, for every byte string, that the encoded grpc-message is printable ASCII, that "
              "decode(encode m) = m for valid UTF-8 and = m with each invalid byte replaced by U+FFFD otherwise, and that the "
              "index-for-index model of the decoder never indexes or slices out of range; the model of encodeGrpcMessage/"
              "decodeGrpcMessage and the model of Go's utf8.DecodeRune/encoderune/ValidString are diffed against the real functions on every run.")
LEVEL_NOTE = ("Trusted: Lean kernel; the hand models lean/GrpcModel/Model/GrpcMessage.lean and lean/GrpcModel/Prim/Utf8.lean (both tied by "
              "differential runs: every 1-byte string, 2-byte strings with one byte on a class boundary (all of them in the thorough tier), every first byte with boundary continuation bytes for 3/4-byte forms, every "
              "'%XY' pair, biased random). Reading: 'invalid UTF-8 sequences decode to U+FFFD' is Go's rule of one U+FFFD per invalid byte "
              "(= string([]rune(m)), also diffed); 'valid UTF-8' is utf8.ValidString, proved equal to the Unicode Table 3-7 grammar. "
              "fmt's %02X and strconv.ParseUint(s,16,8) on 2 bytes are modelled and exercised exhaustively.")
GAP = "fmt.Fprintf/strconv.ParseUint/strings.Builder are modelled (exhaustively exercised on their 1- and 2-byte domains), not verified"
ASSUMPTIONS = ["Go strings are byte sequences; string(rune) is runtime.encoderune",
               "strconv.ParseUint(s,16,8) on exactly 2 bytes accepts exactly two hex digits of either case"]
RULE = ("utf8 dec: every 1-byte string, every 2-byte string with one byte arbitrary and the other on a class boundary (thorough: all 65536), every lead byte x boundary 2nd/3rd/4th bytes, random; utf8 enc: every rune boundary "
        "+ random (thorough: every 7th rune plus all boundaries); valid/san and grpcmessage rt/enc/encu: all 1-byte strings, 2-byte strings over "
        "boundary bytes, random strings <= 64 bytes built from valid runes, truncated runes, surrogates, overlongs, stray continuation "
        "bytes, '%' and hex digits; dec/decu: '%XY' with X arbitrary and Y on a hex-class boundary and vice versa (thorough: all 65536 XY), "
        "random strings biased to '%' near the end. One op per line; an op is non-trivial when its input is non-empty.")

BOUND2 = [0x00, 0x1f, 0x20, 0x25, 0x30, 0x41, 0x7e, 0x7f, 0x80, 0x8f, 0x90, 0x9f, 0xa0, 0xbf, 0xc0, 0xc1, 0xc2, 0xdf, 0xe0, 0xed,
          0xef, 0xf0, 0xf4, 0xf5, 0xff]
HEXB = [0x00, 0x20, 0x25, 0x2b, 0x2d, 0x2f, 0x30, 0x31, 0x39, 0x3a, 0x40, 0x41, 0x46, 0x47, 0x5f, 0x60, 0x61, 0x66, 0x67, 0x78,
        0x58, 0x7f, 0x80, 0xff]
CONT2 = sorted(set(BOUND2 + [0x7f, 0x81, 0x8e, 0x91, 0x9e, 0xa1, 0xbe, 0xc3, 0xde, 0xe1, 0xec, 0xee, 0xf1, 0xf3, 0xf6, 0xfe]))
RUNES = [0, 1, 0x1f, 0x20, 0x24, 0x25, 0x26, 0x7e, 0x7f, 0x80, 0x81, 0xff, 0x100, 0x7ff, 0x800, 0x801, 0xfff, 0x1000, 0xcfff, 0xd000,
         0xd7ff, 0xd800, 0xd801, 0xdbff, 0xdc00, 0xdfff, 0xe000, 0xfffc, 0xfffd, 0xfffe, 0xffff, 0x10000, 0x10001, 0x3ffff, 0x40000,
         0xfffff, 0x100000, 0x10ffff, 0x110000, 0x110001, 0x1fffff, 0x200000, 0x7fffffff]


def hexs(bs):
    return "".join("%02x" % b for b in bs) or "-"


def utf8_of(r):
    return list(chr(r).encode("utf-8", "surrogatepass"))


def piece(rng):
    k = rng.random()
    if k < 0.30:
        return [rng.randrange(0x20, 0x7f)]
    if k < 0.40:
        return [0x25] + [rng.choice(b"0123456789abcdefABCDEFgG%") for _ in range(rng.randrange(0, 3))]
    if k < 0.45:
        return [rng.choice([0, 9, 10, 13, 0x1f, 0x7f])]
    if k < 0.70:
        r = rng.choice([0x80, 0x7ff, 0x800, 0xd7ff, 0xe000, 0xfffd, 0xffff, 0x10000, 0x10ffff,
                        rng.randrange(0x80, 0x800), rng.randrange(0x800, 0xd800), rng.randrange(0xe000, 0x10000),
                        rng.randrange(0x10000, 0x110000)])
        b = utf8_of(r)
        if rng.random() < 0.25:
            b = b[:rng.randrange(1, len(b))] if len(b) > 1 else b   # truncated
        return b
    if k < 0.80:
        return rng.choice([[0xed, 0xa0, 0x80], [0xed, 0xbf, 0xbf], [0xc0, 0x80], [0xc1, 0xbf], [0xe0, 0x80, 0x80], [0xe0, 0x9f, 0xbf],
                           [0xf0, 0x80, 0x80, 0x80], [0xf0, 0x8f, 0xbf, 0xbf], [0xf4, 0x90, 0x80, 0x80], [0xf5, 0x80, 0x80, 0x80],
                           [0xf8, 0x88, 0x80, 0x80, 0x80], [0xff], [0xfe], [0xef, 0xbf, 0xbd]])
    if k < 0.90:
        return [rng.randrange(0x80, 0xc0)]
    return [rng.randrange(256)]


def rand_msg(rng, maxlen=64):
    out = []
    n = rng.randrange(0, 12)
    for _ in range(n):
        out += piece(rng)
    return out[:maxlen]


def rand_hdr(rng):
    """received header values: printable text with escapes, broken escapes, '%' near the end."""
    out = []
    for _ in range(rng.randrange(0, 8)):
        k = rng.random()
        if k < 0.4:
            out += [0x25, rng.choice(b"0123456789abcdefABCDEF"), rng.choice(b"0123456789abcdefABCDEF")]
        elif k < 0.6:
            out += [0x25] + [rng.choice(b"09afAFgG%+-_xX \x00\x80\xff") for _ in range(rng.randrange(0, 3))]
        elif k < 0.9:
            out += [rng.randrange(0x20, 0x7f)]
        else:
            out += [rng.randrange(256)]
    tail = rng.choice([[], [0x25], [0x25, 0x34], [0x25, 0x34, 0x31], [0x25, 0x25], [0x25, 0x25, 0x34], [0x25, 0x34, 0x25]])
    return out + tail


def batches(comp, ops, tag, chunk=5000):
    for i in range(0, len(ops), chunk):
        yield Case(comp, ops[i:i + chunk], "%s-%d" % (tag, i // chunk))


def gen(rng, tier):
    n_rand = {"quick": 3000, "thorough": 200000, "search": 80000}[tier]
    full = tier != "quick"
    # ---------------------------------------------------------------- utf8 primitive
    dec = set()
    dec.add(())
    for a in range(256):
        dec.add((a,))
        for b in (range(256) if full else CONT2):
            dec.add((a, b))
            dec.add((b, a))
    for a in range(0xc0, 0x100):
        for b in (0x7f, 0x80, 0x8f, 0x90, 0x9f, 0xa0, 0xbf, 0xc0):
            for c in (0x00, 0x7f, 0x80, 0xbf, 0xc0):
                dec.add((a, b, c))
                if a >= 0xe0:
                    for d in (0x7f, 0x80, 0xbf, 0xc0):
                        dec.add((a, b, c, d))
                    dec.add((a, b, c, 0x80, 0x80))
    strs = set()
    for _ in range(n_rand):
        strs.add(tuple(rand_msg(rng, 24)))
        dec.add(tuple(rand_msg(rng, 6)))
    for a in range(256):
        strs.add((a,))
        for b in BOUND2:
            strs.add((a, b))
            strs.add((b, a))
    uops = ["dec %s" % hexs(s) for s in sorted(dec)]
    runes = set(RUNES)
    for r in RUNES:
        for d in (-1, 1):
            if 0 <= r + d < 2**31:
                runes.add(r + d)
    for _ in range(n_rand):
        runes.add(rng.randrange(0, 2**rng.randrange(1, 32)))
    if tier != "quick":
        runes.update(range(0, 0x110000, 7))
    uops += ["enc %d" % r for r in sorted(runes)]
    uops += ["valid %s" % hexs(s) for s in sorted(strs)]
    uops += ["san %s" % hexs(s) for s in sorted(strs)]
    yield from batches("utf8", uops, "utf8")
    # ---------------------------------------------------------------- the codec
    msgs = set(strs)
    for _ in range(n_rand):
        msgs.add(tuple(rand_msg(rng, 64)))
    for r in RUNES:
        if r < 0x110000:
            msgs.add(tuple(utf8_of(r)))
            msgs.add(tuple([0x61] + utf8_of(r) + [0x25]))
    gops = []
    for m in sorted(msgs):
        gops.append("rt %s" % hexs(m))
    for m in sorted(msgs)[::3]:
        gops.append("enc %s" % hexs(m))
        gops.append("encu %s" % hexs(m))
    hdr = set()
    for x in range(256):
        for y in (range(256) if full else HEXB):
            hdr.add((0x25, x, y))
            hdr.add((0x25, y, x))
    for x in HEXB:
        for y in HEXB:
            hdr.add((0x41, 0x25, x, y))
            hdr.add((0x25, x, y, 0x25))
            hdr.add((0x25, 0x25, x, y))
            hdr.add((0x25, x))
            hdr.add((x, 0x25))
            hdr.add((x, y, 0x25))
    for _ in range(n_rand):
        hdr.add(tuple(rand_hdr(rng)))
    hdr.update(list(sorted(msgs))[::5])
    hdr.add(())
    for k, h in enumerate(sorted(hdr)):
        gops.append("dec %s" % hexs(h))
        if full or k % 2 == 0:
            gops.append("decu %s" % hexs(h))
    yield from batches("grpcmessage", gops, "grpcmessage")


UNIT = "op"


def nontrivial_op(op, out):
    return not op.endswith(" -")
