"""C16 Control-frame throttling never deadlocks and close releases everything (transport.controlBuffer)."""
from vlib.core import Case

ID = "C16"
COMPONENTS = ["s_controlbuf"]
T4 = []
PROOF_MODULES = ["GrpcProofs.Properties.C16"]
THEOREMS = ["GrpcProofs.C16." + t for t in (
    "chan_set_iff_trf_ge_limit", "reader_blocked_only_if_ge_limit", "released_when_below_or_closed",
    "put_after_close_rejected", "closed_is_permanent", "finish_closes",
    "each_queued_clientHeaders_orphaned_exactly_once", "accepted_clientHeaders_delivered_or_orphaned", "no_panic", "consumer_no_lost_wakeup", "monitor_ok")]
DESIGN_REF = "DESIGN.md section 8, C16"
TECHNIQUE = ("Lean 4 theorems over a small-step interleaving model of controlBuffer (executeAndPut, the locked part of get, finish are atomic under c.mu; "
             "throttle() is two atomic steps - the lock-free trfChan.Load and the wait on that channel generation; channel generations are numbered so a "
             "reader may hold a stale one): reachable-state invariant by induction over arbitrary op lists, for every limit >= 1. Tie: T2 (testing/synctest) "
             "on the real controlBuffer through an export shim, readers and the blocking consumer as bubble goroutines, blocked set read at quiescence.")
LEVEL_TEXT = ("Machine-checked Lean proofs, for every interleaving of producers, the writer, any number of reader goroutines (load and wait as separate "
              "steps) and close, and for every throttle limit >= 1: trfChan is set iff at least `limit` throttled items are queued (while open); a reader is "
              "blocked only then; as soon as the count is below the limit or the buffer/done is closed no reader is blocked, whatever generation it loaded "
              "(no lost wake-up); after finish every put is rejected; delivered ++ queued = accepted and finish orphans exactly the queued clientHeaders, each "
              "once, so an accepted clientHeaders is always either handed to the writer or orphaned (a put concurrent with finish is ordered by c.mu before or after it); no nil/double channel close; the parked writer is never left without a wake-up token while items are queued. The model is replayed "
              "against the real controlBuffer on every run.")
LEVEL_NOTE = ("Trusted: Lean kernel; the hand model lean/GrpcModel/Model/ControlBuf.lean; atomicity of sync.Mutex sections, atomic.Pointer and channel close "
              "(the model's atomic steps). The T2 tie is op-level: each op runs to quiescence in a synctest bubble, then the result of the op, the ids orphaned, "
              "the consumer goroutine's result and the set of reader goroutines still inside throttle() are compared with the model and judged by the monitor. "
              "One interleaving class IS forced: operations arriving while finish() is in the middle of its orphan sweep (finish is held inside an onOrphaned callback; "
              "the racing puts/gets must be parked on c.mu or have returned before it is released) - a finish that drops the lock there accepts or serves them and is "
              "reported. Control buffers of one process are independent in the model (one St each); the tie runs up to four of them side by side and "
              "operates on the others from inside the primary's orphan sweep, so state shared behind the model's back (the list-node pool) shows as a divergence / a "
              "foreign or missing orphan. The individual interleavings of a reader's trfChan.Load with its wait and with concurrent get/put/finish (the lost-wake-up window) cannot be "
              "forced without hooks in throttle(); they are covered by the theorems (released_when_below_or_closed quantifies over them) only, and exercised "
              "opportunistically by the bubble's scheduler. executeAndPut with a non-nil f that returns false does not touch the buffer and is not driven. "
              "'Failed exactly once' for a stream-creation request rejected AFTER close is the error return of executeAndPut (the caller fails the stream), "
              "for one queued at close it is onOrphaned; one taken by the writer before close is not failed by the buffer at all. The writer is woken on close "
              "only through `done` (finish sends no wake-up token) - by design, the transport closes done right after finish.")
GAP = "a finish() that livelocks is detected by a scheduler-yield watchdog in the harness (no virtual-time timeout can see a spinning goroutine); fine-grained schedules inside throttle(); dataFrame buffers freed in finish are not modelled (items are ping / serverHeaders / clientHeaders)"
ASSUMPTIONS = ["throttle limit >= 1 (envconfig clamps ControlBufferThrottleLimit to 1..10000)", "single consumer of get (loopy) - caller contract"]
RULE = ("random cases: limit 1..5, then 10-45 ops from put throttled / unthrottled / clientHeaders, non-blocking get, blocking consumer goroutine, new reader "
        "goroutines calling throttle(), finish, done, with phases biased to push the throttled count across the limit in both directions repeatedly; plus "
        "directed fill-drain-refill cases per limit; `finishrace`: finish() is held inside the onOrphaned callback of its orphan sweep (harness hook in the "
        "clientHeaders the harness itself queued) while 1-4 puts / gets run in their own goroutines until each has returned or is parked on c.mu (read off the "
        "goroutine dump), in ~60% of the random closes and in 3 directed cases per limit; `cb-multi`: 1-3 further control buffers of the same process (shared list-node pool) "
        "get puts/gets, the primary buffer with 2-6 queued clientHeaders is closed with `finishcb` - puts/gets on the OTHER buffers are made from inside its "
        "onOrphaned callbacks - then the other buffers are drained (FIFO checked) and closed. Non-trivial = some reader was observed blocked; distinct = distinct op text.")


def one_case(rng, limit, n):
    ops = ["limit %d" % limit]
    nid = 0
    rid = 0
    queued = 0          # items in the buffer (abstract, to keep the single-consumer contract)
    closed = False
    done = False
    parked = False
    bias = rng.choice(["fill", "drain", "mixed"])
    for k in range(n):
        if k % 7 == 6:
            bias = rng.choice(["fill", "drain", "mixed"])
        r = rng.random()
        pput = {"fill": 0.55, "drain": 0.2, "mixed": 0.4}[bias]
        pget = {"fill": 0.1, "drain": 0.45, "mixed": 0.25}[bias]
        if r < pput:
            nid += 1
            kind = rng.choice("ttttuh")
            ops.append("put %s %d" % (kind, nid))
            if not closed:
                if parked:
                    parked = False   # the consumer takes it
                else:
                    queued += 1
        elif r < pput + pget:
            if parked:
                continue
            if rng.random() < 0.75:
                ops.append("get")
                if not closed and queued:
                    queued -= 1
            else:
                ops.append("getb")
                if closed:
                    pass
                elif queued:
                    queued -= 1
                elif not done:
                    parked = True
        elif r < pput + pget + 0.22:
            rid += 1
            ops.append("thr %d" % rid)
        elif r < pput + pget + 0.235:
            if rng.random() < 0.6:
                # finish() held inside its orphan sweep while producers / the writer arrive
                items = []
                for _k in range(rng.randrange(1, 4)):
                    if rng.random() < 0.8:
                        nid += 1
                        items.append("p%s%d" % (rng.choice("thhu"), nid))
                    elif not parked:
                        items.append("g")
                # make sure there is something to orphan (most of the time)
                if rng.random() < 0.85 and not closed:
                    nid += 1
                    ops.append("put h %d" % nid)
                    if parked:
                        parked = False
                        nid += 1
                        ops.append("put h %d" % nid)
                ops.append("finishrace " + " ".join(items) if items else "finish")
            else:
                ops.append("finish")
            closed = True
            queued = 0
        elif r < pput + pget + 0.245:
            ops.append("done")
            done = True
            parked = False
        else:
            rid += 1
            ops.append("thr %d" % rid)
    if rng.random() < 0.6:
        ops.append("finish")
        nid += 1
        ops.append("put t %d" % nid)
        ops.append("put h %d" % (nid + 1))
    return ops


def multi_case(rng, limit):
    """Several control buffers of one process (they share the package-level list-node pool): the primary one is closed while,
    from inside its onOrphaned callbacks, other buffers are being used; afterwards the other buffers are drained and closed."""
    ops = ["limit %d" % limit]
    nid = 0
    nb = rng.choice([1, 1, 2, 3])
    q = {k: 0 for k in range(1, nb + 1)}
    # some traffic first (also recycles list nodes through get)
    for _ in range(rng.randrange(0, 8)):
        r = rng.random()
        if r < 0.5:
            nid += 1
            ops.append("put %s %d" % (rng.choice("tuh"), nid))
        elif r < 0.65:
            ops.append("get")
        else:
            k = rng.randrange(1, nb + 1)
            if rng.random() < 0.7:
                nid += 1
                ops.append("b%d put %s %d" % (k, rng.choice("tuh"), nid)); q[k] += 1
            else:
                ops.append("b%d get" % k); q[k] = max(0, q[k] - 1)
    # the primary's queue: several stream-creation requests (and other items in between)
    for _ in range(rng.randrange(2, 7)):
        nid += 1
        ops.append("put h %d" % nid)
        if rng.random() < 0.3:
            nid += 1
            ops.append("put %s %d" % (rng.choice("tu"), nid))
    if rng.random() < 0.3:
        ops.append("thr 1")
    items = []
    for _ in range(rng.randrange(1, 8)):
        k = rng.randrange(1, nb + 1)
        if rng.random() < 0.8:
            nid += 1
            items.append("b%d:p%s%d" % (k, rng.choice("hhtu"), nid)); q[k] += 1
        else:
            items.append("b%d:g" % k); q[k] = max(0, q[k] - 1)
    ops.append("finishcb " + " ".join(items))
    nid += 1
    ops.append("put h %d" % nid)
    # the other buffers must be intact: drain some, then close them
    for k in range(1, nb + 1):
        for _ in range(rng.randrange(0, q[k] + 2)):
            ops.append("b%d get" % k)
        if rng.random() < 0.8:
            ops.append("b%d finish" % k)
            nid += 1
            ops.append("b%d put h %d" % (k, nid))
    return ops


def gen(rng, tier):
    for i in range({"quick": 250, "thorough": 6000, "search": 2500}[tier]):
        yield Case("s_controlbuf", multi_case(rng, rng.choice([1, 2, 3, 5])), "cb-multi")
    n = {"quick": 1000, "thorough": 30000, "search": 8000}[tier]
    for limit in (1, 2, 3, 4):
        # directed: fill to the limit, readers block, drain below, refill (new generation), close
        ops = ["limit %d" % limit]
        i = 0
        for _ in range(limit - 1):
            i += 1; ops.append("put t %d" % i)
        ops += ["thr 1"]
        i += 1; ops.append("put t %d" % i)
        ops += ["thr 2", "thr 3"]
        i += 1; ops.append("put h %d" % i)
        i += 1; ops.append("put t %d" % i)
        ops += ["thr 4", "get", "get", "thr 5"]
        i += 1; ops.append("put t %d" % i)
        i += 1; ops.append("put t %d" % i)
        ops += ["thr 6", "getb", "getb", "thr 7"]
        i += 1; ops.append("put h %d" % i)
        i += 1; ops.append("put t %d" % i)
        i += 1; ops.append("put t %d" % i)
        ops += ["thr 8", "finish", "thr 9", "put t 99", "put h 100", "get", "finish", "done"]
        yield Case("s_controlbuf", ops, "cb-directed-%d" % limit)
        # directed: close racing with producers and the writer (finish held inside onOrphaned)
        for variant in range(3):
            ops = ["limit %d" % limit]
            i = 0
            for _ in range(limit):
                i += 1; ops.append("put t %d" % i)
            ops.append("thr 1")
            i += 1; ops.append("put h %d" % i)
            if variant >= 1:
                i += 1; ops.append("put u %d" % i)
                i += 1; ops.append("put h %d" % i)
            race = ["ph%d" % (i + 1), "pt%d" % (i + 2)]
            if variant == 2:
                race += ["g", "ph%d" % (i + 3)]
            ops.append("finishrace " + " ".join(race))
            ops += ["put h %d" % (i + 10), "get", "finishrace ph%d" % (i + 11), "done"]
            yield Case("s_controlbuf", ops, "cb-finishrace-%d-%d" % (limit, variant))
    for i in range(n):
        limit = rng.choice([1, 1, 2, 2, 3, 3, 4, 5])
        yield Case("s_controlbuf", one_case(rng, limit, rng.randrange(10, 46)), "cb-rand-%d" % limit)


def nontrivial(case, impl_lines):
    return any(" blocked=" in l and " blocked=- " not in l for l in impl_lines)
