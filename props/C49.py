"""C49 Server filter chain selection is the most specific match."""
from vlib.core import Case

ID = "C49"
COMPONENTS = ["filterchain"]
T4 = ["FilterChain"]
PROOF_MODULES = ["GrpcProofs.Properties.C49"]
THEOREMS = ["GrpcProofs.C49." + t for t in (
    "lookup_is_most_specific", "select_spec", "default_only_if_none_match", "validated_config_has_unique_winner",
    "build_wellformed", "build_slots_sound", "best_is_most_specific", "prefix_match_spec",
    "nonwildcard_unique_winner_counterexample")]
DESIGN_REF = "DESIGN.md section 8, C49"
TECHNIQUE = ("Lean 4 theorems (list induction over the running-maximum loops and over the validation fold; BitVec prefix lemmas) "
             "+ T1 differential correspondence through the real LDS decoder/validation and filterChainManager.lookup + T4 constants")
LEVEL_TEXT = ("Machine-checked Lean proof, for every table produced by the modelled validation and every connection, that the modelled "
              "lookup returns the result of stage-wise most-specific narrowing (destination prefix on wildcard listeners, source type, "
              "source prefix, source port; default only when narrowing leaves nothing) and that validated tables have pairwise "
              "distinct match keys over masked prefixes, hence a unique winner and never 'multiple matching filter chains' on a "
              "listener bound to the wildcard address. On a listener bound to a specific address the unique-winner claim is false of "
              "the unchanged code (theorem nonwildcard_unique_winner_counterexample; known finding F16).")
LEVEL_NOTE = ("Trusted: Lean kernel; the hand model in lean/GrpcModel/Model/FilterChain.lean (the 4-level map kept flat, one slot per "
              "leaf), tied by differential runs against real Listener protos. Readings: (1) 'most-specific-match' is Envoy/gRFC A36 "
              "stage-wise narrowing without backtracking (GrpcModel.FilterChain.Spec); (2) destination prefixes are considered only "
              "when the listener is bound to the wildcard address — the code's documented intent (filterByDestinationPrefixes), the "
              "pinned test's comment and Envoy's field documentation; (3) unsupported match fields (destination_port, server_names, "
              "transport_protocol other than ''/raw_buffer, application_protocols) drop the chain as implemented, raw_buffer displacing "
              "'' per destination prefix; the statement names only the four stages. F16: with reading (2) two validated chains that "
              "differ only in prefix_ranges tie on a non-wildcard listener, and lookup answers 'multiple matching filter chains' "
              "(no chain, not even the default) whenever the best source prefix is found under two destination prefixes - also when "
              "the port stage would single out one chain. The pinned suite expects that error "
              "(TestLookup_Failures/multiple_matching_filter_chains), so it is a known finding, not a fix.")
GAP = ("filter chain contents (HTTP filters, security config) are not modelled, chains are identified by index; source_ports "
       "containing 0 collide with the wildcard key in code and model alike (Envoy's validation forbids 0; noted, not generated "
       "as a separate finding); IPv6 zones are not generated")
ASSUMPTIONS = ["netip.ParseAddr/PrefixFrom/Masked/Contains/Unmap/IsLoopback behave as modelled (BitVec prefixes, 4in6 unmapped)",
               "connections reach lookup through Accept(), i.e. with Unmap'd TCP addresses"]
RULE = ("case = one `lis` (1-6 filter chains: prefix_ranges / source_prefix_ranges drawn from a small pool of IPv4/IPv6 networks "
        "with unmasked host bits, source type, port lists incl. duplicates and 0, the unsupported match fields, malformed prefixes, "
        "optional default chain) followed by 10-16 lookups (wildcard and non-wildcard listener, destination/source from the same "
        "pool incl. same-IP, loopback and IPv4-mapped IPv6); non-trivial = listener accepted and at least two different answers.")

V4 = [bytes([192, 168, 100, 1]), bytes([192, 168, 1, 1]), bytes([10, 1, 1, 1]), bytes([10, 0, 0, 1]), bytes([127, 0, 0, 1]),
      bytes([172, 16, 5, 5]), bytes([10, 1, 2, 3])]
V6 = [bytes(15) + b"\x01", bytes.fromhex("20010db8000000000000000000000001"), bytes.fromhex("20010db8000100000000000000000005"),
      bytes.fromhex("fe800000000000000000000000000001"), bytes(10) + b"\xff\xff" + bytes([10, 0, 0, 1]),
      bytes.fromhex("20010db8000100020000000000000009")]


def cidr(rng, bad):
    if bad and rng.random() < 0.04:
        return "cbad %d" % rng.randrange(0, 33)
    if rng.random() < 0.65:
        a = rng.choice(V4)
        n = rng.choice([0, 8, 16, 16, 24, 32, rng.randrange(0, 33)])
        if bad and rng.random() < 0.04:
            n = rng.choice([33, 64])
        return "c4 %s %d" % (a.hex(), n)
    a = rng.choice(V6)
    n = rng.choice([0, 32, 48, 64, 128, 104, rng.randrange(0, 129)])
    if bad and rng.random() < 0.04:
        n = rng.choice([129, 200])
    return "c6 %s %d" % (a.hex(), n)


def chain(rng, bad, plain):
    dp = 1 if (not plain and rng.random() < 0.05) else 0
    sn = 1 if (not plain and rng.random() < 0.05) else 0
    tp = 0 if plain else rng.choice([0, 0, 0, 0, 0, 0, 1, 1, 2])
    alpn = 1 if (not plain and rng.random() < 0.05) else 0
    st = rng.choice([0, 0, 0, 1, 2, 2])
    if bad and rng.random() < 0.03:
        st = 3
    nd = rng.choice([0, 0, 1, 1, 1, 2])
    ns = rng.choice([0, 0, 0, 1, 1, 2])
    ports = rng.choice([[], [], [], [], [1, 2, 3], [1], [80], [2, 80], [0], [1, 1], [70000, 3]])
    toks = [str(dp), str(sn), str(tp), str(alpn), str(st), str(nd)] + [cidr(rng, bad) for _ in range(nd)]
    toks += [str(ns)] + [cidr(rng, bad) for _ in range(ns)]
    toks += [str(len(ports))] + [str(p) for p in ports]
    return " ".join(toks)


def listener(rng):
    bad = rng.random() < 0.06
    plain = rng.random() < 0.5
    n = rng.choice([1, 2, 2, 3, 3, 4, 5, 6] + ([0] if rng.random() < 0.2 else []))
    return " ".join(["lis", str(rng.choice([0, 1])), str(n)] + [chain(rng, bad, plain) for _ in range(n)])


def addr(rng):
    if rng.random() < 0.65:
        a = bytearray(rng.choice(V4))
        if rng.random() < 0.2:
            a[3] = rng.randrange(256)
        return "a4 " + bytes(a).hex()
    a = bytearray(rng.choice(V6))
    if rng.random() < 0.2:
        a[15] = rng.randrange(256)
    return "a6 " + bytes(a).hex()


def look(rng):
    wild = 1 if rng.random() < 0.7 else 0
    dst = addr(rng)
    src = dst if rng.random() < 0.2 else addr(rng)
    port = rng.choice([1, 2, 3, 80, 0, 9, 70000, 5555])
    return "look %d %s %s %d" % (wild, dst, src, port)


def f16_witness():
    """DESIGN.md F16 = TestLookup_Failures/multiple_matching_filter_chains"""
    lis = "lis 0 2 0 0 0 0 0 0 0 3 1 2 3 0 0 0 0 0 1 c4 c0a80101 16 0 1 1"
    return Case("filterchain", [lis, "look 0 a4 c0a86401 a4 c0a86401 1", "look 1 a4 c0a86401 a4 c0a86401 1",
                                "look 0 a4 c0a86401 a4 c0a86401 2"], "F16-witness")


def gen(rng, tier):
    n = {"quick": 4000, "thorough": 100000, "search": 50000}[tier]
    yield f16_witness()
    for i in range(n):
        ops = [listener(rng)] + [look(rng) for _ in range(rng.randrange(10, 17))]
        yield Case("filterchain", ops, "lis-%d" % i)


def nontrivial(case, impl_lines):
    if not impl_lines or impl_lines[0] != "ok":
        return False
    return len(set(impl_lines[1:])) >= 2
