"""C54 Health Watch streams converge to the latest status."""
from vlib.core import Case

ID = "C54"
COMPONENTS = ["s_health"]
T4 = []
PROOF_MODULES = ["GrpcProofs.Properties.C54"]
THEOREMS = ["GrpcProofs.C54." + t for t in (
    "watch_puts_current", "taken_is_current", "first_is_current_or_unknown", "no_consecutive_duplicates",
    "hist_is_status_history", "only_statuses_the_service_had", "eventually_latest", "check_is_latest",
    "shutdown_masks_until_resume", "sentinel_counterexample")]
DESIGN_REF = "DESIGN.md section 8, C54"
TECHNIQUE = ("Lean 4 inductive invariant over an interleaving model of health.Server (critical sections are rules; each Watch "
             "loop is split into recv / sendOk / leave so any number of arbitrarily slow streams interleave with "
             "SetServingStatus/Shutdown/Resume), list lemmas + grind; tie T2: the real Server in a testing/synctest bubble, Watch "
             "called with fake streams whose Send blocks until acknowledged, plus concurrent SetServingStatus/Shutdown/Watch calls")
LEVEL_TEXT = ("Machine-checked proof, for every reachable state of every interleaving with any number of streams, that what a stream "
              "takes from its channel is the service's status at that moment (SERVICE_UNKNOWN if unregistered) and the first "
              "message is never skipped, that delivered + in-flight messages never repeat a status consecutively and form a "
              "subsequence of the service's status history since registration, that the newest status in a live stream's pipeline "
              "always equals the current status and nothing in the pipeline can get stuck (so an idle stream has delivered the "
              "latest status), that Check returns the last accepted status, and that between Shutdown and Resume every registered "
              "service reports NOT_SERVING to Check and streams while SetServingStatus is ignored. The model is diffed against "
              "the real Server after every op (full stream contents) and the property predicates are evaluated on the "
              "implementation's outputs.")
LEVEL_NOTE = ("Trusted: Lean kernel; the hand model lean/GrpcModel/Model/Health.lean; channel and RWMutex semantics as modelled (the "
              "drain-then-send on the 1-slot channel under the lock is one atomic put); fake streams stand in for real ones "
              "(Send = block until ack/fail/cancel). Readings: 'every service reports NOT_SERVING' is about REGISTERED services "
              "(Shutdown ranges over statusMap; an unregistered service keeps answering NotFound / SERVICE_UNKNOWN, and a "
              "SetServingStatus for it during shutdown is ignored, so it stays unregistered); 'first reports the current status' "
              "= the status current when the stream picks the value up (a SetServingStatus between Watch's registration and the "
              "first Send replaces the initial value). Statuses are assumed to be enum values (>= 0): lastSentStatus starts at "
              "-1, so a status of -1 would never be sent (theorem sentinel_counterexample).")
GAP = "real transport streams (flow control, RPC teardown) are replaced by fake streams; interleavings inside a critical section"
ASSUMPTIONS = ["SetServingStatus arguments are enum values (>= 0)", "a sync.RWMutex critical section is atomic",
               "stream.Send either delivers and returns nil or returns an error without delivering"]
RULE = ("random op sequences over 4 services x statuses 0..5 with 0..6 streams: set/shutdown/resume/check/watch/ack/fail/cancel, "
        "concurrent Watch starts, concurrent SetServingStatus calls and SetServingStatus||Shutdown (run in parallel when every live "
        "stream is inside Send, so that the outcome is determined by the reported final status); directed: slow stream skipping "
        "intermediate statuses, A-B-A dedup, unregistered service becoming registered, shutdown with pending sends, set during "
        "shutdown. A case is non-trivial if some stream was delivered >= 2 messages; distinct = distinct op sequence")


def directed():
    yield ["watch 0", "set 0 2", "set 0 3", "set 0 1", "ack 0", "ack 0", "check 0"]                        # A-B-A while in Send: nothing more to send
    yield ["watch 0", "ack 0", "set 0 2", "set 0 1", "ack 0", "set 0 2", "ack 0", "ack 0"]
    yield ["watch 2", "ack 0", "set 2 1", "ack 0", "shutdown", "ack 0", "set 2 1", "check 2", "resume", "ack 0", "check 2"]
    yield ["watch 1", "shutdown", "set 1 1", "check 1", "ack 0", "resume", "check 1", "set 1 1", "ack 0", "ack 0"]
    yield ["watch 0", "watch 0", "watch 1", "set 0 2", "ack 0", "ack 1", "ack 2", "set 1 1", "ack 2", "cancel 0", "set 0 1", "ack 1", "ack 0"]
    yield ["watch 0", "set 0 2", "fail 0", "set 0 1", "watch 0", "ack 1", "ack 0"]
    yield ["cwatch 0 4", "cset 0 2,3,4,5", "ack 0", "ack 1", "ack 0", "ack 1", "ack 2", "ack 2", "check 0"]
    yield ["watch 3", "cshut 3 1", "ack 0", "ack 0", "check 3", "resume", "check 3", "ack 0"]
    yield ["watch 0", "ack 0", "cset 0 2,1,2", "ack 0", "ack 0", "ack 0", "cshut 0 1", "ack 0", "ack 0"]
    yield ["shutdown", "watch 0", "watch 1", "ack 0", "ack 1", "set 1 1", "resume", "ack 0", "ack 1", "set 1 2", "ack 1"]
    yield ["set 1 0", "watch 1", "ack 0", "set 1 0", "set 1 1", "set 1 0", "ack 0", "check 1"]


def gen(rng, tier):
    n = {"quick": 1000, "thorough": 20000, "search": 20000}[tier]
    for i, ops in enumerate(directed()):
        yield Case("s_health", ops, "directed-%d" % i)
    for i in range(n):
        ln = rng.randrange(4, 60)
        nsvc = rng.randrange(1, 5)
        vals = [1, 2, 1, 2, 0, 3] + ([4, 5] if rng.random() < 0.3 else [])
        nw = 0
        ops = []
        ackw = rng.choice([0.15, 0.3, 0.5])
        while len(ops) < ln:
            r = rng.random()
            svc = rng.randrange(nsvc)
            if r < 0.30:
                ops.append("set %d %d" % (svc, rng.choice(vals)))
            elif r < 0.30 + ackw and nw:
                ops.append("ack %d" % rng.randrange(nw))
            elif r < 0.62 and nw < 6:
                ops.append("watch %d" % svc)
                nw += 1
            elif r < 0.70:
                ops.append("check %d" % svc)
            elif r < 0.75:
                ops.append("shutdown")
            elif r < 0.80:
                ops.append("resume")
            elif r < 0.83 and nw:
                ops.append("cancel %d" % rng.randrange(nw))
            elif r < 0.85 and nw:
                ops.append("fail %d" % rng.randrange(nw))
            elif r < 0.92:
                ops.append("cset %d %s" % (svc, ",".join(str(rng.choice(vals)) for _ in range(rng.randrange(2, 5)))))
            elif r < 0.95 and nw < 5:
                k = rng.randrange(2, 4)
                ops.append("cwatch %d %d" % (svc, k))
                nw += k
            elif r < 0.98:
                ops.append("cshut %d %d" % (svc, rng.choice(vals)))
        # let every stream catch up at the end
        for _ in range(3):
            ops += ["ack %d" % w for w in range(nw)]
        yield Case("s_health", ops, "random-%d" % i)


def nontrivial(case, impl):
    if not impl:
        return False
    last = impl[-1]
    return any(w.split(":")[3].count(".") >= 1 for w in last.split(" | ")[-1].split() if w.count(":") == 4)
