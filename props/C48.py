"""C48 RBAC and authz policies are enforced exactly as written."""
from vlib.core import Case

ID = "C48"
COMPONENTS = ["rbac"]
T4 = ["Authz"]
PROOF_MODULES = ["GrpcProofs.Properties.C48"]
THEOREMS = ["GrpcProofs.C48." + t for t in (
    "chain_decision_spec", "chain_denied_iff", "engine_order_irrelevant", "policy_matches_iff",
    "perm_eval_spec", "prin_eval_spec", "authenticated_spec", "cidr_contains_spec", "header_leaf_spec",
    "newChainEngine_accepts_iff",
    "translate_builds", "rule_policy_matches_iff", "authz_semantics_partial", "authz_semantics_counterexample",
    "authz_allowed_sound", "authz_deny_engine_sound", "authz_lastWins_semantics")]
DESIGN_REF = "DESIGN.md section 8, C48"
TECHNIQUE = ("Lean 4 theorems (mutual structural induction over permission/principal trees, list induction over the engine "
             "chain and over the rule list / policy map) + T1 differential correspondence through the real "
             "rbac.NewChainEngine / IsAuthorized and authz.NewStatic / UnaryInterceptor + T4 regenerated header table")
LEVEL_TEXT = ("Machine-checked Lean proof, for every policy chain of any depth and every request, that the modelled "
              "ChainEngine.IsAuthorized allows exactly when no ALLOW engine lacks and no DENY engine has a policy with a matching "
              "permission and a matching principal (and/or/not/any, header, path, CIDR as a most-significant-bits comparison, port, "
              "authenticated principal = URI SANs, else DNS SANs, else subject); and that the modelled authz translation of every "
              "accepted SDK policy decides 'deny if a deny rule matches, else allow iff an allow rule matches' PROVIDED rule names are "
              "distinct within deny_rules and within allow_rules. Without that proviso the statement is false of the unchanged code "
              "(theorem authz_semantics_counterexample; known finding F4): the decision is the one of the policy with every "
              "earlier same-named rule removed (authz_lastWins_semantics).")
LEVEL_NOTE = ("Trusted: Lean kernel; the hand model in lean/GrpcModel/Model/RBAC.lean and Authz.lean, tied by differential runs "
              "against real v3 RBAC protos / real SDK JSON and synthetic contexts. Reading: 'the policy semantics' of a chain is "
              "GrpcModel.RBAC.Spec (per-engine exists-a-matching-policy), of an SDK policy GrpcModel.Authz.Spec (gRFC A43 wildcards: "
              "'*' = any non-empty single-line value, 'p*' prefix, '*s' suffix, else exact; header keys compared lower-case; a rule "
              "without principals matches unauthenticated peers too). F4 is a genuine defect of the second sentence of the statement and "
              "is listed in known_findings/C48.jsonl; the monitor labels it [dup-rule-name] only when the implementation's answer "
              "is exactly the answer of the policy with shadowed rules removed, so any other wrong decision is still reported.")
GAP = ("regular expressions other than '.+' / '.*' / a non-compiling pattern are not modelled (Go regexp is opaque); non-ASCII "
       "case folding (C47/F3) is out of the generated domain; audit logging is not modelled; JSON decoding of the SDK policy is "
       "exercised by the harness but not modelled; metadata keys colliding after lower-casing (Go map order) are not generated")
ASSUMPTIONS = ["strings are ASCII (strings.ToLower = ASCII lower-casing)",
               "net.TCPAddr.String / netip.ParseAddr / netip.ParsePrefix / Prefix.Contains behave as modelled (family split, 4in6 printed dotted by net.IP)",
               "pkix.Name{CommonName: cn}.String() = 'CN='+cn for alphanumeric cn; url.URL round-trips the generated URIs (asserted by the harness)",
               "protobuf oneof members decoded from the wire are non-nil messages"]
RULE = ("case = one `chain` (random RBAC chain: 1-3 engines, 0-3 policies, permission/principal trees to depth 5 quick / 7 thorough, "
        "all leaf kinds incl. unsupported/malformed ones) or one `authz` (random SDK policy: wildcards, repeated rule names, "
        "unsupported header keys, empty names) followed by 8-14 requests drawn from the same small universe of paths, headers, "
        "addresses (IPv4, IPv6, IPv4-mapped, port-less, non-IP), ports and TLS identities so that leaves match about half the time; "
        "non-trivial = the chain/policy was accepted and the case has both allow and deny answers or an internal error.")


def hx(s):
    if isinstance(s, str):
        s = s.encode()
    return s.hex() or "-"


PATHS = ["/pkg.Svc/Get", "/pkg.Svc/Put", "/pkg.Other/Get", "/x/secret", "/x/other", "", "/PKG.SVC/GET", "/pkg.Svc/GetAll", "*a", "a*"]
HNAMES = ["x-a", "x-b", "x-num", ":path", ":method", "te", "X-A", "TE", "grpc-x", "host"]
HVALS = ["foo", "foobar", "bar", "", "42", "-7", "+5", "007", "9223372036854775807", "9223372036854775808",
         "-9223372036854775808", "-9223372036854775809", "1,2", "a\nb", "FOO", "fooBAR", "POST", "4 2", "+", "-", "1_0", "*a", "a*", "*"]
V4 = [bytes([10, 0, 0, 1]), bytes([10, 0, 1, 1]), bytes([192, 168, 1, 7]), bytes([127, 0, 0, 1]), bytes([0, 0, 0, 0]),
      bytes([255, 255, 255, 255]), bytes([10, 128, 0, 1])]
V6 = [bytes(15) + b"\x01", bytes.fromhex("20010db8000000000000000000000001"), bytes.fromhex("20010db8000100000000000000000005"),
      bytes(10) + b"\xff\xff" + bytes([10, 0, 0, 1]), bytes(16), bytes.fromhex("fe800000000000000000000000000001"),
      bytes(10) + b"\xff\xff" + bytes([192, 168, 1, 7])]
PORTS = [80, 443, 8080, 0, 65535, 70000]
URIS = ["spiffe://foo.bar/a", "spiffe://foo.bar/b", "https://x.y/z", "spiffe://FOO.bar/A"]
DNS = ["foo.bar.com", "a.b", "Foo.Bar.com"]
CNS = ["alice", "", "Bob", "foo"]
IDENT = URIS + DNS + ["CN=alice", "CN=Bob", "CN=foo", ""]


def flipcase(rng, s):
    return "".join(c.upper() if rng.random() < 0.5 else c.lower() for c in s)


def strm(rng, pool, allow_bad=True):
    """a StringMatcher built from a slice of a pool string"""
    r = rng.random()
    if allow_bad and r < 0.03:
        return "nil 0 -"
    if allow_bad and r < 0.06:
        return "un %d -" % rng.randrange(2)
    if r < 0.14:
        rx = rng.choice([".+", ".+", ".*", "("] if allow_bad else [".+", ".*"])
        return "re %d %s" % (rng.randrange(2), hx(rx))
    s = rng.choice(pool)
    k = rng.choice(["ex", "ex", "pf", "sf", "ct"])
    if k == "pf":
        s = s[:rng.randrange(0, len(s) + 1)]
    elif k == "sf":
        s = s[rng.randrange(0, len(s) + 1):]
    elif k == "ct" and s:
        a = rng.randrange(0, len(s))
        s = s[a:rng.randrange(a, len(s) + 1)]
    if k != "ex" and s == "" and not (allow_bad and rng.random() < 0.3):
        k = "ex"
    ic = rng.random() < 0.35
    if ic or rng.random() < 0.1:
        s = flipcase(rng, s)
    return "%s %d %s" % (k, 1 if ic else 0, hx(s))


def hdr(rng, allow_bad=True):
    name = rng.choice(HNAMES[:6] if rng.random() < 0.9 else HNAMES)
    inv = rng.randrange(2) if rng.random() < 0.4 else 0
    k = rng.choice(["ex", "re", "pf", "sf", "ct", "rg", "pr", "sm", "sm"] + (["un"] if allow_bad and rng.random() < 0.2 else []))
    pool = PATHS if name == ":path" else HVALS
    v = rng.choice(pool)
    if k in ("ex",):
        body = "ex " + hx(v)
    elif k == "re":
        body = "re " + hx(rng.choice([".+", ".*"] + (["("] if allow_bad and rng.random() < 0.2 else [])))
    elif k == "pf":
        body = "pf " + hx(v[:rng.randrange(0, len(v) + 1)])
    elif k == "sf":
        body = "sf " + hx(v[rng.randrange(0, len(v) + 1):])
    elif k == "ct":
        a = rng.randrange(0, len(v) + 1)
        body = "ct " + hx(v[a:rng.randrange(a, len(v) + 1)])
    elif k == "rg":
        lo = rng.choice([-10, 0, 5, 42, 43, -2**63, 2**63 - 1, 7])
        hi = rng.choice([0, 8, 42, 43, 100, 2**63 - 1, -2**63, 6])
        body = "rg %d %d" % (lo, hi)
    elif k == "pr":
        body = "pr %d" % rng.randrange(2)
    elif k == "sm":
        body = "sm " + strm(rng, pool, allow_bad)
    else:
        body = "un"
    return "%s %d %s" % (hx(name), inv, body)


def cidr(rng, allow_bad=True):
    if allow_bad and rng.random() < 0.03:
        return "cbad %d" % rng.randrange(0, 33)
    if rng.random() < 0.55:
        a = bytearray(rng.choice(V4))
        n = rng.choice([0, 8, 16, 24, 32, rng.randrange(0, 33)])
        if allow_bad and rng.random() < 0.04:
            n = rng.choice([33, 64, 129])
        if rng.random() < 0.3:
            a[rng.randrange(4)] ^= 1 << rng.randrange(8)
        return "c4 %s %d" % (bytes(a).hex(), n)
    a = bytearray(rng.choice(V6))
    n = rng.choice([0, 32, 64, 96, 128, 104, rng.randrange(0, 129)])
    if allow_bad and rng.random() < 0.04:
        n = rng.choice([129, 200])
    if rng.random() < 0.3:
        a[rng.randrange(16)] ^= 1 << rng.randrange(8)
    return "c6 %s %d" % (bytes(a).hex(), n)


def perm(rng, depth, bad):
    r = rng.random()
    if depth > 0 and r < 0.45:
        k = rng.choice(["and", "or", "not", "and", "or"])
        if k == "not":
            return "not " + perm(rng, depth - 1, bad)
        n = rng.choice([0, 1, 2, 2, 3])
        return " ".join([k, str(n)] + [perm(rng, depth - 1, bad) for _ in range(n)])
    k = rng.choice(["any", "hdr", "hdr", "path", "path", "dip", "dip", "dport", "meta", "sni"] + (["unsup"] if bad and rng.random() < 0.15 else []))
    if k == "hdr":
        return "hdr " + hdr(rng, bad)
    if k == "path":
        return "path " + strm(rng, PATHS, bad)
    if k == "dip":
        return "dip " + cidr(rng, bad)
    if k == "dport":
        return "dport %d" % rng.choice(PORTS + [4294967295])
    if k == "meta":
        return "meta %d" % rng.randrange(2)
    if k == "sni":
        return "sni " + strm(rng, ["", "foo"], bad)
    return k


def prin(rng, depth, bad):
    r = rng.random()
    if depth > 0 and r < 0.45:
        k = rng.choice(["and", "or", "not", "and", "or"])
        if k == "not":
            return "not " + prin(rng, depth - 1, bad)
        n = rng.choice([0, 1, 2, 2, 3])
        return " ".join([k, str(n)] + [prin(rng, depth - 1, bad) for _ in range(n)])
    k = rng.choice(["any", "auth", "auth", "auth", "rip", "rip", "hdr", "path", "meta"] + (["unsup"] if bad and rng.random() < 0.15 else []))
    if k == "auth":
        if rng.random() < 0.15:
            return "auth nil 0 -"
        return "auth " + strm(rng, IDENT, bad)
    if k == "rip":
        return "rip %d %s" % (rng.randrange(3), cidr(rng, bad))
    if k == "hdr":
        return "hdr " + hdr(rng, bad)
    if k == "path":
        return "path " + strm(rng, PATHS, bad)
    if k == "meta":
        return "meta %d" % rng.randrange(2)
    return k


def chain(rng, depth):
    bad = rng.random() < 0.12          # most chains must build, or nothing is evaluated
    ne = rng.choice([1, 1, 2, 2, 3, 0])
    toks = ["chain", str(ne)]
    for _ in range(ne):
        act = rng.choice(["A", "D", "A", "D"] + (["L"] if bad and rng.random() < 0.2 else []))
        npol = rng.choice([0, 1, 1, 2, 3])
        toks += [act, str(npol)]
        for _ in range(npol):
            nperm = rng.choice([0, 1, 1, 2])
            toks.append(str(nperm))
            toks += [perm(rng, rng.randrange(depth + 1), bad) for _ in range(nperm)]
            nprin = rng.choice([0, 1, 1, 2])
            toks.append(str(nprin))
            toks += [prin(rng, rng.randrange(depth + 1), bad) for _ in range(nprin)]
    return " ".join(toks)


def addr(rng, local):
    r = rng.random()
    if r < 0.5:
        return "t4 %s %d" % (rng.choice(V4).hex(), rng.choice(PORTS))
    if r < 0.9:
        return "t6 %s %d" % (rng.choice(V6).hex(), rng.choice(PORTS))
    if local and rng.random() < 0.7:
        return "t4 %s %d" % (rng.choice(V4).hex(), rng.choice(PORTS))
    return rng.choice(["r4 " + rng.choice(V4).hex(), "r6 " + rng.choice(V6).hex(), "nm"])


def strs(rng, pool, counts):
    n = rng.choice(counts)
    return " ".join([str(n)] + [hx(rng.choice(pool)) for _ in range(n)])


def request(rng):
    missing = rng.choice(["md", "peer", "method", "conn"]) if rng.random() < 0.03 else "none"
    path = rng.choice(PATHS)
    names = []
    for nme in rng.sample(HNAMES[:3] + ["X-B", "te", "TE", ":path", ":method", "X-Num"], rng.choice([0, 1, 2, 2, 3])):
        if nme.lower() not in [x.lower() for x in names]:
            names.append(nme)
    md = [str(len(names))]
    for nme in names:
        md.append(hx(nme))
        md.append(strs(rng, HVALS, [1, 1, 1, 2, 0, 3]))
    r = rng.random()
    if r < 0.25:
        auth = "none"
    elif r < 0.33:
        auth = "other"
    else:
        nc = rng.choice([0, 1, 1, 1, 2])
        parts = ["tls", str(nc)]
        for _ in range(nc):
            parts.append(strs(rng, URIS, [0, 0, 1, 2]))
            parts.append(strs(rng, DNS, [0, 0, 1, 2]))
            parts.append(hx(rng.choice(CNS)))
        auth = " ".join(parts)
    return " ".join(["req", missing, hx(path), " ".join(md), addr(rng, False), addr(rng, True), auth])


# ---- SDK authorization policies

def glob(rng, pool):
    s = rng.choice(pool)
    r = rng.random()
    if r < 0.12:
        return "*"
    if r < 0.3:
        return s[:rng.randrange(0, len(s) + 1)] + "*"
    if r < 0.45:
        return "*" + s[rng.randrange(0, len(s) + 1):]
    if r < 0.55:
        return rng.choice(["**", "*a*", "", "*a", "a*"])
    return s


def rule(rng, names):
    name = rng.choice(names)
    np_ = rng.choice([0, 0, 1, 2])
    toks = [hx(name), str(np_)] + [hx(glob(rng, IDENT)) for _ in range(np_)]
    npath = rng.choice([0, 1, 1, 2])
    toks += [str(npath)] + [hx(glob(rng, PATHS)) for _ in range(npath)]
    nh = rng.choice([0, 0, 1, 2])
    toks.append(str(nh))
    for _ in range(nh):
        key = rng.choice(["x-a", "x-b", "X-A", "x-num", "X-Num"] if rng.random() < 0.93 else ["", ":path", "grpc-x", "host", "TE", "Grpc-Y"])
        nv = rng.choice([1, 1, 2, 3]) if rng.random() < 0.97 else 0
        toks += [hx(key), str(nv)] + [hx(glob(rng, HVALS)) for _ in range(nv)]
    return " ".join(toks)


def sdk(rng):
    # few distinct names → repeated names are common (F4 territory); sometimes an empty name
    names = rng.choice([["a", "b"], ["a", "b", "c", "d"], ["r1", "r2", "r3", "r4", "r5", "r6"], ["a", ""], ["d"]])
    pname = "pol" if rng.random() < 0.97 else ""
    nd = rng.choice([0, 1, 2, 2, 3])
    na = rng.choice([1, 1, 2, 3]) if rng.random() < 0.97 else 0
    toks = ["authz", hx(pname), str(nd)] + [rule(rng, names) for _ in range(nd)]
    toks += [str(na)] + [rule(rng, names) for _ in range(na)]
    return " ".join(toks)


def sdk_distinct(rng):
    """same, but rule names distinct within each list (the domain of authz_semantics_partial)"""
    nd = rng.choice([0, 1, 2, 3])
    na = rng.choice([1, 2, 3])
    toks = ["authz", hx("pol"), str(nd)] + [rule(rng, ["d%d" % i]) for i in range(nd)]
    toks += [str(na)] + [rule(rng, ["d%d" % i]) for i in range(na)]
    return " ".join(toks)


def f4_witness():
    """DESIGN.md F4: two deny rules named `d`"""
    pol = " ".join(["authz", hx("pol"), "2", hx("d"), "0", "1", hx("/x/secret"), "0", hx("d"), "0", "1", hx("/x/other"), "0",
                    "1", hx("a"), "0", "0", "0"])
    reqs = ["req none %s 0 t4 0a000001 1234 t4 0a000002 443 none" % hx(p) for p in ("/x/secret", "/x/other", "/pkg.Svc/Get")]
    return Case("rbac", [pol] + reqs, "F4-witness")


def gen(rng, tier):
    n_chain = {"quick": 4000, "thorough": 60000, "search": 40000}[tier]
    n_sdk = {"quick": 2000, "thorough": 30000, "search": 40000}[tier]
    depth = {"quick": 5, "thorough": 7, "search": 6}[tier]
    yield f4_witness()
    for i in range(n_chain):
        ops = [chain(rng, depth)] + [request(rng) for _ in range(rng.randrange(8, 15))]
        yield Case("rbac", ops, "chain-%d" % i)
    for i in range(n_sdk):
        pol = sdk_distinct(rng) if i % 3 == 0 else sdk(rng)
        ops = [pol] + [request(rng) for _ in range(rng.randrange(8, 15))]
        yield Case("rbac", ops, "sdk-%d" % i)


def nontrivial(case, impl_lines):
    if not impl_lines or impl_lines[0] != "built":
        return False
    s = set(impl_lines[1:])
    return ("allow" in s and "deny" in s) or "internal" in s
