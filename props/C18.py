"""C18 Retries are bounded, policy-driven and replay the exact request."""
import struct

from vlib.core import Case

ID = "C18"
COMPONENTS = ["s_retry", "s_shouldretry", "retrycfg"]
T4 = ["Retry"]
PROOF_MODULES = ["GrpcProofs.Properties.C18"]
THEOREMS = ["GrpcProofs.C18." + t for t in (
    "retry_only_if", "transparent_only_if_unprocessed", "effective_max_is_min", "attempts_bounded",
    "replay_exact", "retry_replays_buffer", "no_new_attempt_when_committed", "commit_on_delivery",
    "commit_on_buffer_limit", "negative_limit_commits_at_once", "fuel_suffices", "concurrent_send_replay_exact")]
DESIGN_REF = "DESIGN.md section 8, C18"
TECHNIQUE = ("Lean 4 theorems (case analysis of shouldRetry in source order; invariants over all application op sequences and all "
             "server scripts for the replay buffer / attempt logs) + T2 differential run of a real ClientConn over bufconn against a "
             "scripted raw HTTP/2 server inside a synctest bubble + T1 on the real shouldRetry decision table + T4 defaultMaxCallAttempts")
LEVEL_TEXT = ("Machine-checked Lean proofs, for every retry policy, buffer limit, server script and application send sequence, about "
              "a model of withRetry/retryLocked/bufferForRetryLocked/commitAttemptLocked driven by the modelled shouldRetry: a retry "
              "happens only while uncommitted, after a trailers-only failure with a policy code and a non-refusing throttler; "
              "non-transparent attempts never exceed min(policy, channel); transparent retries only for unprocessed first attempts "
              "(or streams never created); every attempt's wire log is a prefix of the application's history and a retry replays "
              "all of it; no attempt is created once committed, and delivery or exceeding the buffer limit commits.")
LEVEL_NOTE = ("Concurrency: one sender and one receiver; withRetry holds cs.mu except around op(a), so the only interleaving that can "
              "separate a sender's write from its bookkeeping is a receiver-side retry in that window: St.opSendRecv models it, "
              "concurrent_send_replay_exact proves replay exactness for it, and the sendrecv op drives it on the real code by parking the "
              "sender in a stats.Handler's OutPayload callback (after the transport write) while RecvMsg runs. Stream creation failing after "
              "a successful pick (per-RPC credentials) is modelled (failLoop/nextAttempt) and driven via the ns= script. "
              "Server discipline: scripted answers are written only at quiescent points (client blocked in RecvMsg/Header or op returned), "
              "in the model and in the harness alike; mid-burst failures of a replay are therefore outside the correspondence (they are "
              "inside the theorems only as far as replayAll always completing is concerned). Hedging does not exist in the code. "
              "A negative MaxRetryRPCBufferSize commits at once (negative_limit_commits_at_once); before /repo f1630c1 NewStream panicked "
              "there (finding F33, fixed).")
GAP = ("answers arriving in the middle of a replay burst; concurrent SendMsg/RecvMsg schedules other than the one cs.mu leaves open "
       "(the receiver running inside the sender's window between transport write and re-locking, which is modelled, proved and driven); "
       "context cancellation during backoff (C23 covers cancel); picker failures (C23); a zero-length backoff right after a GOAWAY "
       "(the retry races with the channel dropping the draining transport: generator keeps that backoff positive)")
ASSUMPTIONS = ["the scripted server writes answers only at quiescent points", "http2 transport delivers frames of one stream in order (C02/C05)"]
RULE = ("s_retry: random policy (maxAttempts 0/2..6, codes, backoff, channel limit 0/2/3/7, throttling, disableRetry), RPC kind "
        "(unary/client-stream/bidi), buffer limit (default, 0..60, negative), server script of 1..6 behaviours (trailers-only with "
        "code/pushback at HEADERS / after n messages / at half-close, headers-then-fail, OK response, REFUSED_STREAM, GOAWAY above id, "
        "no answer), a script of stream-creation outcomes (per-RPC credentials failing with a retryable or fatal code after the pick) and a random "
        "application op sequence (send sizes 0..40, close, recv, hdr, and sendrecv = SendMsg with a concurrent RecvMsg scheduled into the sender's "
        "window between transport write and re-locking); s_shouldretry: the C19 decision-table "
        "cases; retrycfg: policy conversion. Non-trivial = at least one retry attempt (N event beyond the first) or a commit by limit.")

MAXI = 2**63 - 1


def bits(x):
    return struct.unpack("<Q", struct.pack("<d", float(x)))[0]


def hexs(s):
    return "x" + s.encode().hex()


PB = [None, None, None, ["5"], ["0"], ["250"], ["-1"], ["x"], ["1", "2"], [""], ["+3"], ["1000"]]


def beh(rng, kind, pol_codes):
    r = rng.random()
    trigs = ["0", "0", "E", "E", "1"] if kind == "u" else ["0", "0", "1", "2", "3", "E", "E"]
    if r < 0.55:
        code = rng.choice(pol_codes) if pol_codes and rng.random() < 0.75 else rng.choice([14, 8, 4, 1, 13, 2, 0])
        pb = rng.choice(PB)
        s = "T%s:%d" % (rng.choice(trigs), code)
        if pb is not None:
            s += ":" + ",".join(hexs(v) for v in pb)
        return s
    if r < 0.72:
        return "H%s:%d" % (rng.choice(trigs), rng.choice([0, 0, 14, 14, 8, 2]))
    if r < 0.84:
        return "R"
    if r < 0.94:
        return "G"
    return "N"


def cfg(rng):
    kind = rng.choice(["u", "u", "c", "b", "b"])
    ma = rng.choice([0, 2, 2, 3, 3, 4, 5, 5, 6, 8])
    codes = sorted(rng.sample([14, 8, 4, 1], rng.randrange(1, 3)))
    if rng.random() < 0.7 and 14 not in codes:
        codes = sorted(codes + [14])
    ib = rng.choice([1, 1000, 10**6, 10**7, 10**9, 3 * 10**9])
    mb = rng.choice([10**6, 10**8, 10**9, 10**10, 5])
    mult = rng.choice(["1", "2", "1.5", "0.5", "3", "1.1"])
    chan = rng.choice([0, 0, 0, 2, 3, 7])
    thr = rng.choice(["-", "-", "-", "4:1", "2:0.5", "10:0.1", "3:1", "1000:1", "1:1"])
    dis = int(rng.random() < 0.06)
    n = rng.randrange(1, 7)
    script = ";".join(beh(rng, kind, codes if ma else []) for _ in range(n))
    # A GOAWAY answer on a retried attempt is followed by a timed retry. With a backoff that rounds to 0 ns the retry
    # timer fires without the bubble becoming quiescent, i.e. before the channel's own goroutine has taken the draining
    # transport away: the next pick may still get it, NewStream fails ("draining", transparent retry) and one more pick
    # follows — a scheduling race the model does not decide. Keep the backoff positive for such scripts.
    if "G" in script.split(";")[1:]:
        ib = max(ib, 10**6)
        mb = max(mb, 10**6)
        if mult == "0.5":
            mult = "1"
    return ("cfg ma=%d codes=%s ib=%d mb=%d mult=%s chan=%d thr=%s dis=%d kind=%s script=%s ns=%s" %
            (ma, ",".join(map(str, codes)), ib, mb, mult, chan, thr, dis, kind, script, ns_script(rng, codes))), kind


def ns_script(rng, codes):
    """outcome of each stream creation (pick ok, then transport.NewStream): '-' ok or the status code the per-RPC
    credentials fail with (codes the channel would rewrite to INTERNAL are avoided)"""
    if rng.random() < 0.7:
        return "-"
    out = []
    for _ in range(rng.randrange(1, 6)):
        r = rng.random()
        if r < 0.55:
            out.append("-")
        elif r < 0.8 and codes:
            out.append(str(rng.choice(codes)))
        else:
            out.append(str(rng.choice([16, 13, 7, 2])))
    return ",".join(out)


def app(rng, kind):
    r = rng.random()
    buf = "d" if r < 0.6 else str(rng.choice([0, 4, 5, 6, 10, 12, 20, 30, 60, 100])) if r < 0.97 else str(rng.choice([-1, -3, -100]))
    ops = ["new " + buf]
    if kind == "u":
        seqs = [["send %d" % rng.randrange(0, 30), "recv"], ["send %d" % rng.randrange(0, 30), "hdr", "recv", "recv"],
                ["send %d" % rng.randrange(0, 30), "recv", "recv"], ["hdr"], ["recv"], ["send 3", "close", "recv"],
                ["send 3", "send 4", "recv"]]
        ops += rng.choice(seqs)
        return ops
    n = rng.randrange(1, 9)
    closed = False
    for _ in range(n):
        x = rng.random()
        if x < 0.5:
            ops.append("send %d" % rng.choice([0, 1, 3, 7, 10, 20, 40]))
        elif x < 0.65:
            ops.append("close")
            closed = True
        elif x < 0.85:
            if closed or rng.random() < 0.3:
                ops.append("recv")
            else:
                ops.append("send 2")
        else:
            if closed or rng.random() < 0.3:
                ops.append("hdr")
            else:
                ops.append("send 1")
    if rng.random() < 0.8:
        if not closed:
            ops.append("close")
        ops += ["recv"] * rng.randrange(1, 4)
    # concurrent use: some sends run with a RecvMsg inside their window (see St.opSendRecv)
    if rng.random() < 0.45:
        ops = [("sendrecv" + o[4:]) if o.startswith("send ") and rng.random() < 0.5 else o for o in ops]
    return ops


def directed():
    P = "cfg ma=%d codes=14 ib=1000000000 mb=10000000000 mult=2 chan=%d thr=%s dis=%d kind=%s script=%s ns=%s"
    out = []

    def c(tag, ma, chan, thr, dis, kind, script, ops, ns="-"):
        out.append(Case("s_retry", [P % (ma, chan, thr, dis, kind, script, ns)] + ops, "directed-" + tag))
    c("unary-retry-pushback", 4, 0, "-", 0, "u", "TE:14;TE:14:" + hexs("123") + ";HE:0", ["new d", "send 10", "recv", "recv"])
    c("bidi-refuse-then-exhaust", 3, 0, "-", 0, "b", "T0:14;R;T2:14;T0:14", ["new d", "send 3", "send 4", "send 5", "close", "recv", "recv"])
    c("limit-commits", 3, 0, "-", 0, "b", "T2:14", ["new 6", "send 3", "send 4", "send 5", "close", "recv"])
    c("goaway-transparent", 3, 0, "-", 0, "b", "G;H1:14", ["new d", "send 3", "send 4", "recv"])
    c("never", 3, 0, "-", 0, "b", "N", ["new d", "send 3", "recv", "send 1"])
    c("maxattempts-5-cap", 8, 0, "-", 0, "u", ";".join(["TE:14"] * 9), ["new d", "send 1", "recv"])
    c("chan-cap-3", 8, 3, "-", 0, "u", ";".join(["TE:14"] * 9), ["new d", "send 1", "recv"])
    c("chan-7", 8, 7, "-", 0, "u", ";".join(["TE:14"] * 9), ["new d", "send 1", "recv"])
    c("throttle-stops", 5, 0, "4:1", 0, "u", ";".join(["TE:14"] * 9), ["new d", "send 1", "recv"])
    c("disabled", 5, 0, "-", 1, "u", "TE:14;TE:14", ["new d", "send 1", "recv"])
    c("disabled-transparent", 5, 0, "-", 1, "u", "R;TE:14", ["new d", "send 1", "recv"])
    c("nopolicy-transparent", 0, 0, "-", 0, "c", "G;R;TE:14", ["new d", "send 1", "send 2", "close", "recv"])
    c("headers-then-fail", 5, 0, "-", 0, "b", "HE:14;TE:14", ["new d", "send 1", "close", "recv", "recv"])
    c("hdr-commits", 5, 0, "-", 0, "b", "H1:0", ["new d", "send 1", "hdr", "send 2", "close", "recv", "recv"])
    c("neg-buffer", 5, 0, "-", 0, "b", "TE:14", ["new -1", "send 1"])
    c("zero-buffer", 5, 0, "-", 0, "b", "T0:14;T0:14", ["new 0", "send 0", "recv"])
    c("cardinality", 5, 0, "-", 0, "u", "T0:0", ["new d", "send 1", "recv", "recv"])
    c("send-after-close", 5, 0, "-", 0, "c", "TE:14", ["new d", "send 1", "close", "send 3", "recv", "recv"])
    c("bad-pushback", 5, 0, "4:1", 0, "u", "TE:14:" + hexs("-5") + ";TE:14", ["new d", "send 1", "recv"])
    c("hdr-retry", 5, 0, "-", 0, "b", "T0:14;T0:14;H0:0", ["new d", "hdr", "recv", "recv"])
    # the receiver retries inside the sender's window (between transport write and re-locking)
    for kind in ("b", "c"):
        c("window-retry-" + kind, 5, 0, "-", 0, kind, "T1:14;HE:0", ["new d", "sendrecv 5", "close", "recv", "recv"])
        c("window-retry-answered-" + kind, 5, 0, "-", 0, kind, "T1:14;H1:0", ["new d", "sendrecv 5", "close", "recv", "recv"])
        c("window-retry-answered2-" + kind, 5, 0, "-", 0, kind, "T2:14;H2:0", ["new d", "send 3", "sendrecv 4", "sendrecv 5", "close", "recv"])
        c("window-retry2-" + kind, 5, 0, "-", 0, kind, "T2:14;T3:14;HE:0", ["new d", "send 1", "sendrecv 2", "sendrecv 3", "close", "recv"])
        c("window-noretry-" + kind, 5, 0, "-", 0, kind, "HE:0", ["new d", "sendrecv 5", "sendrecv 6", "close", "recv"])
        c("window-limit-" + kind, 5, 0, "-", 0, kind, "T1:14;HE:0", ["new 7", "sendrecv 1", "sendrecv 1", "close", "recv"])
        c("window-headers-" + kind, 5, 0, "-", 0, kind, "H1:14;HE:0", ["new d", "sendrecv 5", "close", "recv"])
        c("window-exhaust-" + kind, 2, 0, "-", 0, kind, "T1:14;T1:14", ["new d", "sendrecv 5", "sendrecv 6", "recv"])
    # stream creation fails after a successful pick (per-RPC credentials)
    c("ns-retry-retryable", 5, 0, "-", 0, "u", "TE:14;HE:0", ["new d", "send 1", "recv"], "-,14")
    c("ns-retry-fatal", 5, 0, "-", 0, "u", "TE:14;HE:0", ["new d", "send 1", "recv", "recv"], "-,16")
    c("ns-first-retryable", 5, 0, "-", 0, "b", "HE:0", ["new d", "send 1", "close", "recv"], "14,14,-")
    c("ns-first-fatal", 5, 0, "-", 0, "b", "HE:0", ["new d", "send 1"], "16")
    c("ns-exhaust", 3, 0, "-", 0, "u", "TE:14;HE:0", ["new d", "send 1", "recv"], "-,14,14,14")
    c("ns-send-path", 5, 0, "-", 0, "b", "T0:14;HE:0", ["new d", "send 1", "send 2", "close", "recv"], "-,14,-")
    return out


def gen(rng, tier):
    import importlib.util
    import os
    # the shouldRetry decision-table and parser cases are shared with C19
    spec = importlib.util.spec_from_file_location("props_C19_for_C18", os.path.join(os.path.dirname(__file__), "C19.py"))
    c19 = importlib.util.module_from_spec(spec)
    spec.loader.exec_module(c19)
    for c in directed():
        yield c
    n = {"quick": 500, "thorough": 12000, "search": 4000}[tier]
    for i in range(n):
        line, kind = cfg(rng)
        yield Case("s_retry", [line] + app(rng, kind), "rand-%d" % i)
    for c in c19.directed():
        if c.tag.startswith("directed-order") or c.tag.startswith("directed-bucket"):
            yield c
    m = {"quick": 300, "thorough": 6000, "search": 2000}[tier]
    for i in range(m):
        yield Case("s_shouldretry", c19.thr_case(rng, rng.randrange(3, 20), clean=True), "sr-rand-%d" % i)
    for c in c19.cfg_cases(rng, {"quick": 400, "thorough": 20000, "search": 4000}[tier]):
        yield Case("retrycfg", [o for o in c.ops if o.startswith("rp ")], c.tag)


def nontrivial(case, impl_lines):
    if case.component == "retrycfg":
        return True
    if case.component == "s_shouldretry":
        return any(op.startswith("sr ") and out.split(" ")[0] in ("retry", "exhausted", "transparent") for op, out in zip(case.ops, impl_lines))
    return any(",N" in o or "N2p" in o for o in impl_lines) or any(o.startswith(("eof", "exhausted")) for o in impl_lines)
