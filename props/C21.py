"""C21 Effective message size limits are the minimum of all configured limits."""
import itertools
from vlib.core import Case

ID = "C21"
COMPONENTS = ["msgsize", "s_msgsize"]
T4 = ["MsgSize"]
PROOF_MODULES = ["GrpcProofs.Properties.C21"]
THEOREMS = ["GrpcProofs.C21." + t for t in (
    "effective_is_min", "client_limits_are_min_or_default", "server_limits_are_options",
    "oversend_never_transmitted", "prepared_msg_is_checked", "overrecv_resource_exhausted", "within_limits_intact",
    "rpc_outcome_complete")]
DESIGN_REF = "DESIGN.md section 8, C21"
TECHNIQUE = ("Lean 4 theorems (case analysis + omega) over a model of getMaxSize/minPointers, option precedence and the four size "
             "checks of a unary RPC; T1 differential on the real getMaxSize/minPointers/parseServiceConfig via export shims; T2 e2e grid "
             "with a real ClientConn and Server over bufconn (raw-bytes codec, compressors with predictable sizes); T4 default limits")
LEVEL_TEXT = ("Machine-checked proof, for every combination of service-config, dial-option, call-option and server-option limits "
              "(negative ones included) and every message size, that the model's effective client limits are the default when nothing is "
              "set and otherwise the minimum of the set limits, that a request/reply whose post-compression size exceeds the sender's "
              "limit is never transmitted and fails with RESOURCE_EXHAUSTED (whether handed to SendMsg as a message or as a pre-encoded "
              "*grpc.PreparedMsg), that one whose wire or decompressed size exceeds the "
              "receiver's limit is not delivered and fails with RESOURCE_EXHAUSTED, and that everything within the limits is delivered "
              "with its exact size. The model is diffed against the real functions and against real RPCs on every run.")
LEVEL_NOTE = ("Reading: 'dial/call option limit' = the per-call option when given, else the dial default (CallOptions are applied in "
              "order, later wins); only then is the minimum with the service config taken. 64-bit int (the service-config clamp to maxInt "
              "cannot trigger for an int64). Intactness is by size and a constant-byte content check. Compression is represented by two "
              "harness compressors with known output sizes (n+16 and 9 bytes); an empty message is never compressed (compress()). "
              "Trusted: Lean kernel, the hand model, bufconn, synctest quiescence.")
GAP = "addrConnStream (health-check / ORCA internal streams) is not driven; gzip itself is not modelled"
ASSUMPTIONS = ["int is 64 bits", "decompress(compress(x)) = x for the compressors in use"]
RULE = ("msgsize: every None/Some combination of getMaxSize with values around each other, negative, zero, MaxInt32, MaxInt64; "
        "s_msgsize: exhaustive presence grid {service config, dial option, call option, server option} on the request side (response "
        "side small) and on the response side, limits from a small set (incl. 0 and -1), message sizes limit-1, limit, limit+1 for every "
        "configured limit, without compression and with both compressors, each through Invoke, through NewStream/SendMsg/RecvMsg "
        "and as *grpc.PreparedMsg in both directions; plus the 4 MiB defaults. A case is non-trivial if it contains "
        "both an accepted and a rejected message.")

MAXI = 2**63 - 1
VALS = [-2**63, -5, -1, 0, 1, 2, 99, 100, 101, 4194303, 4194304, 4194305, 2**31 - 2, 2**31 - 1, 2**31, MAXI - 1, MAXI]


def opt(v):
    return "-" if v is None else str(v)


def gen_t1(rng, tier):
    ops = []
    for a in [None] + VALS:
        for b in [None] + VALS:
            for d in (4194304, 2**31 - 1, 0, -1):
                ops.append("gms %s %s %d" % (opt(a), opt(b), d))
    for a in VALS:
        for b in VALS:
            ops.append("minp %d %d" % (a, b))
    for a in [None] + VALS + [MAXI + 1, -2**63 - 1]:
        for b in [None, 0, 7, MAXI, MAXI + 1]:
            ops.append("scp %s %s" % (opt(a), opt(b)))
    n = {"quick": 2000, "thorough": 100000, "search": 50000}[tier]
    for _ in range(n):
        def rv():
            r = rng.random()
            if r < 0.25:
                return None
            if r < 0.5:
                return rng.choice(VALS)
            return rng.randrange(-10, 2**rng.randrange(1, 63))
        a, b = rv(), rv()
        if a is not None and b is not None and rng.random() < 0.3:
            b = a + rng.choice([-1, 0, 1])
            b = max(-2**63, min(MAXI, b))
        d = rng.choice([4194304, 2**31 - 1, rng.randrange(0, 2**40)])
        ops.append("gms %s %s %d" % (opt(a), opt(b), d))
    yield Case("msgsize", ops, "msgsize-t1")


LIMS = [0, 1, 7, 50, 100, 150, 1000, 5000]
MODES = ["unary", "stream", "prep"]


def around(vals):
    s = {0}
    for v in vals:
        if v is None:
            continue
        for d in (-1, 0, 1):
            if v + d >= 0:
                s.add(v + d)
    return sorted(s)


def gen_e2e(rng, tier):
    comps = ["none", "pad", "rle"]
    k = 0
    reps = {"quick": 1, "thorough": 12, "search": 6}[tier]
    for rep in range(reps):
        for side in ("req", "resp"):
            for present in itertools.product([0, 1], repeat=4):   # sc, dial, call, server
                vals = [rng.choice(LIMS) if p else None for p in present]
                if rng.random() < 0.15 and present[0]:
                    vals[0] = -1
                if rng.random() < 0.3:                              # equal limits from two sources
                    on = [i for i, p in enumerate(present) if p]
                    if len(on) >= 2:
                        vals[on[1]] = vals[on[0]]
                sc, dial, call, srv = vals
                # the other direction gets small random limits now and then
                o_sc, o_dial, o_call, o_srv = [rng.choice(LIMS[3:]) if rng.random() < 0.2 else None for _ in range(4)]
                if side == "req":
                    cfg = "cfg %s %s %s %s %s %s" % (opt(sc), opt(o_sc), opt(dial), opt(o_dial), opt(srv), opt(o_srv))
                else:
                    cfg = "cfg %s %s %s %s %s %s" % (opt(o_sc), opt(sc), opt(o_dial), opt(dial), opt(o_srv), opt(srv))
                ops = [cfg]
                sizes = around(vals)
                csizes = around([v - 16 for v in vals if v is not None and v >= 16] + [v for v in vals if v is not None])
                for comp in comps:
                    szs = sizes if comp == "none" else (csizes if comp == "pad" else sizes + [9, 10, 8])
                    for n in sorted(set(szs)):
                        other = rng.choice([0, 3, 10])
                        # every boundary size through every send API: Invoke, the streaming API, and
                        # *grpc.PreparedMsg (encoded ahead of SendMsg) in both directions
                        for mode in MODES:
                            if side == "req":
                                ops.append("call %s %s %s %d %d %s" % (opt(call), opt(o_call), comp, n, other, mode))
                            else:
                                ops.append("call %s %s %s %d %d %s" % (opt(o_call), opt(call), comp, other, n, mode))
                yield Case("s_msgsize", ops, "grid-%s-%d" % (side, k))
                k += 1
    # defaults: 4 MiB receive limits on both sides
    ops = ["cfg - - - - - -"]
    for n in (4194303, 4194304, 4194305):
        ops.append("call - - none %d 1" % n)
        ops.append("call - - none 1 %d" % n)
    ops.append("call - - pad %d 1" % (4194304 - 16))
    ops.append("call - - pad %d 1" % (4194304 - 15))
    ops.append("call - - rle 4194304 4194305")
    ops.append("call - - rle 4194305 1")
    ops.append("call - - none 4194305 1 prep")
    ops.append("call - - none 1 4194305 prep")
    ops.append("call - - none 4194304 4194304 stream")
    yield Case("s_msgsize", ops, "defaults")
    # service config larger than the default and alone: it IS the limit (no min with the default)
    yield Case("s_msgsize", ["cfg - 5000000 - - - -", "call - - none 1 4194305", "call - - none 1 5000000", "call - - none 1 5000001",
                             "call - 4500000 none 1 4500001", "call - 6000000 none 1 5000001"], "sc-above-default")
    # random mixes
    n_rand = {"quick": 20, "thorough": 600, "search": 300}[tier]
    for i in range(n_rand):
        v = [rng.choice(LIMS + [-1]) if rng.random() < 0.5 else None for _ in range(6)]
        ops = ["cfg " + " ".join(opt(x) for x in v)]
        for _ in range(12):
            cs, cr = [rng.choice(LIMS) if rng.random() < 0.35 else None for _ in range(2)]
            pool = around(v + [cs, cr]) + [9, 16, 17]
            ops.append("call %s %s %s %d %d %s" % (opt(cs), opt(cr), rng.choice(comps), rng.choice(pool), rng.choice(pool), rng.choice(MODES)))
        yield Case("s_msgsize", ops, "mix-%d" % i)


def gen(rng, tier):
    yield from gen_t1(rng, tier)
    yield from gen_e2e(rng, tier)


def nontrivial(case, impl_lines):
    if case.component == "msgsize":
        return True
    return any(l.startswith("code=0") for l in impl_lines) and any(l.startswith("code=8") for l in impl_lines)
