"""C09 User metadata crosses the wire unchanged and reserved headers never leak."""
import base64
import itertools

from vlib.core import Case

ID = "C09"
COMPONENTS = ["s_mdwire", "mdcodec", "s_rawpeer"]
T4 = ["MdWire", "Timeout"]
PROOF_MODULES = ["GrpcProofs.Properties.C09"]
THEOREMS = ["GrpcProofs.C09." + t for t in (
    "md_roundtrip_partial", "per_key_order", "transport_added_keys", "md_roundtrip_counterexample_host",
    "md_roundtrip_counterexample_connection", "accept_encoding_surfaced_counterexample", "invalid_md_fails_before_send", "validate_pair_iff",
    "reserved_never_sent_client", "reserved_never_sent_server", "reserved_never_surfaced_server_partial",
    "reserved_never_surfaced_header_partial", "reserved_never_surfaced_trailer_partial",
    "content_type_surfaced_counterexample_server", "content_type_surfaced_counterexample_client",
    "header_roundtrip", "trailer_roundtrip", "header_calls_roundtrip", "trailer_calls_roundtrip", "join_per_key", "valid_md_wire_ok", "bin_value_roundtrip", "bin_value_padded_peer",
    "append_lowercases", "reserved_table", "server_switch_names")]
DESIGN_REF = "DESIGN.md section 8, C09"
TECHNIQUE = ("Lean 4 theorems about a model of newClientStream validation -> createHeaderFields -> server operateHeaders -> handler metadata "
             "and writeHeaderLocked/writeStatus -> client operateHeaders (list induction, base64 arithmetic by omega, decide over the regenerated "
             "reserved/whitelist tables) + T2 end-to-end correspondence (real grpc.Server and grpc.NewClient over bufconn in a synctest bubble) "
             "+ T1 on the codec/validation functions + T4 regenerated header tables")
LEVEL_TEXT = ("Machine-checked Lean proofs about a model of the metadata path: for every valid outgoing MD + appended pairs (no host/connection key) the "
              "handler's metadata has, for EVERY key, the transport's values followed by the user's in the order given; for every header/trailer MD the "
              "client's Header()/Trailer() has exactly the server's values per key — also for handlers making several SetHeader/SendHeader/SetTrailer calls "
              "(values of the calls that succeeded, in call order, metadata.Join semantics; the handler's own MD values are only read); reserved names are never produced from user metadata (any MD) and, for "
              "ANY field list a peer may send, never surface except :authority, user-agent and (finding F17, proved to be a counterexample) content-type; "
              "invalid outgoing metadata yields no fields at all; binary values of any bytes round-trip, padded or raw; validated metadata is always "
              "acceptable to the peer's HTTP/2 framer. The model is diffed against real RPCs over bufconn and against the codec/validation functions on every run.")
LEVEL_NOTE = ("Readings: (1) 'exactly the client's metadata' is per key, modulo the keys the transport adds (:authority, user-agent allowed by the statement; "
              "content-type = F17; grpc-accept-encoding with the names of the compressors registered in the client process = F30, reported by the "
              "harness and fed to the model as CallCfg.acceptEncoding); a key with an empty value list is unobservable; (2) the last clause (invalid metadata fails with INTERNAL before anything is "
              "sent) is read client-side (newClientStream); on the server ServerStream.SetHeader/SendHeader validate and return INTERNAL, ServerStream.SetTrailer "
              "only logs, grpc.SetHeader/SendHeader/SetTrailer(ctx) do not validate (F10): invalid server metadata is outside the statement's domain, the monitor "
              "does not judge those RPCs (observed and modelled: names the framer rejects make the client fail with INTERNAL and lose the handler's status; "
              "non-printable values pass through); (3) a handler-supplied grpc-status-details-bin trailer is interpreted by the client's status logic (C10), the "
              "status clause is not judged on those RPCs; (4) AppendToOutgoingContext keys with bytes >= 0x80 (strings.ToLower is Unicode-aware) are outside the "
              "model. Trusted, modelled and differentially tied but not proved: encoding/base64 port, HPACK/http2 framing (fields delivered as queued; the "
              "framer's name/value validity checks are modelled), Go map iteration order (cross-key order is not observable in an MD).")
GAP = ("HPACK and HTTP/2 framing, header-list-size limits, per-RPC credentials / stats handlers / binary logging adding their own keys, "
       "grpc-accept-encoding and grpc-timeout added by the transport when compressors/deadlines are configured (harness uses none), retries")
ASSUMPTIONS = ["the http2 framer/HPACK deliver header fields exactly as queued, or reject the frame per validWireHeaderFieldName / ValidHeaderFieldValue",
               "no send-compressor, no deadline, no per-RPC credentials (transport adds only :method :scheme :path :authority content-type user-agent te, plus grpc-accept-encoding with the process's registered compressors)"]
RULE = ("s_mdwire: one real RPC per op (unary, stream trailers-only, stream with a message): client metadata as a raw MD literal given to "
        "NewOutgoingContext plus pairs appended with AppendToOutgoingContext; handler records FromIncomingContext and publishes header/trailer MD through "
        "ServerStream.SetHeader/SendHeader/SetTrailer or grpc.SetHeader/SendHeader/SetTrailer; client records status, Header(), Trailer(). Systematic part: "
        "every key of the pools (23 valid incl. -bin and grpc-* names, 15 reserved/pseudo, 14 invalid, 9 mixed-case) alone in each position, every listed "
        "value (printable, empty, control bytes, non-ASCII) in each position, binary values of length 0..7; random part: cases of 20 RPCs with 0-4 keys x 0-3 "
        "values per MD, invalid/reserved/special keys mixed in. RPCs that hit a listed known finding (host, connection) travel in single-op cases; F17 is "
        "judged on three dedicated `probe` ops, F30 on two `probeae` ops. Multi-call family (`pool`/`rpcm`): the component keeps long-lived metadata.MD "
        "objects; each RPC's handler makes 0-4 header calls (SetHeader/SendHeader, both APIs) and 0-3 SetTrailer calls whose argument is either one of those "
        "objects (the same Go map in every RPC of the case) or a fresh literal; systematically every pair/triple pattern over {object, literal} x 4 API/path "
        "combinations repeated in 3 RPCs of one connection, then random cases of 3-7 RPCs over 1-3 objects; the harness also prints the objects after every RPC. mdcodec: isReservedHeader/isWhitelistedHeader on all 1- and 2-byte names and the pools, Validate on every "
        "byte in key and value positions and random MDs, encode/decodeMetadataHeader on valid (raw and padded) and mutated base64, AppendToOutgoingContext "
        "lower-casing on all ASCII bytes. A case is non-trivial when at least one handler ran. s_rawpeer: the real server against a scripted raw HTTP/2 client and the real client against a scripted raw HTTP/2 server: request/response header fields grpc-go never writes itself (padded/raw/invalid base64, reserved names, duplicate and missing pseudo-headers, host with and without :authority, connection, content-type and :method variants, grpc-timeout good and malformed, names/values the framer rejects), every listed extra field alone in each position plus random combinations.")


def hexs(bs):
    return bytes(bs).hex() or "-"


def hv(bs):
    return bytes(bs).hex() or "~"


VALID_KEYS = [b"k", b"key1", b"a.b", b"x-y_z", b"0", b"k-bin", b"data-bin", b"-bin", b"bin", b"x-bin-y", b"authorization",
              b"grpc-previous-rpc-attempts", b"grpc-retry-pushback-ms", b"grpc-tags-bin", b"grpc-trace-bin", b"grpc-accept-encoding",
              b"grpc-status-details-bin", b"content-length", b"keep-alive", b"trailer", b"grpc-statusx", b"tee", b"user-agent2"]
RESERVED_KEYS = [b"content-type", b"te", b"user-agent", b"grpc-status", b"grpc-message", b"grpc-encoding", b"grpc-timeout",
                 b"grpc-message-type", b":authority", b":path", b":method", b":scheme", b":status", b":x", b":"]
SPECIAL_KEYS = [b"host", b"connection"]
INVALID_KEYS = [b"", b"K", b"Key", b"a b", b"a:b", b"k\xc3\xa9", b"k!", b"a\x00", b"k=", b"k,", b"k;", b"UP-bin", b" k", b"k~"]
UPPER_KEYS = [b"Foo", b"KEY-BIN", b"Te", b"Content-Type", b"X-Y", b"K", b"GRPC-STATUS", b":Path", b"aBc"]
ASCII_VALS = [b"", b"v", b"value one", b" lead", b"trail ", b"~", b"a,b", b"a;b=c", b"%41", b"x" * 100, b"  "]
BAD_VALS = [b"\x00", b"\xff", b"a\nb", b"\x7f", "é".encode(), b"\t", b"\x1f", b"ok\x80"]


def rand_bytes(rng, n):
    return bytes(rng.randrange(256) for _ in range(n))


def rand_val(rng, key, allow_bad):
    if key.endswith(b"-bin"):
        k = rng.random()
        if k < 0.15:
            return b""
        return rand_bytes(rng, rng.choice([1, 2, 3, 4, 5, 6, 7, 16, 33]))
    if allow_bad and rng.random() < 0.5:
        return rng.choice(BAD_VALS)
    if rng.random() < 0.7:
        return rng.choice(ASCII_VALS)
    return bytes(rng.randrange(0x20, 0x7f) for _ in range(rng.randrange(1, 12)))


def rand_md(rng, p_invalid=0.0, p_reserved=0.2, p_special=0.0, raw=True):
    """a metadata.MD literal: list of (key, [values]) with distinct keys"""
    n = rng.choice([0, 1, 1, 2, 2, 3, 4])
    md = []
    used = set()
    bad_val = rng.random() < p_invalid / 2
    for _ in range(n):
        r = rng.random()
        if r < p_invalid:
            k = rng.choice(INVALID_KEYS)
        elif r < p_invalid + p_reserved:
            k = rng.choice(RESERVED_KEYS)
        elif r < p_invalid + p_reserved + p_special:
            k = rng.choice(SPECIAL_KEYS)
        else:
            k = rng.choice(VALID_KEYS)
        if k in used:
            continue
        used.add(k)
        nv = rng.choice([0, 1, 1, 1, 2, 3])
        md.append((k, [rand_val(rng, k, bad_val) for _ in range(nv)]))
    return md


def show_md(md):
    if not md:
        return "-"
    return ";".join(hexs(k) + "=" + ",".join(hv(v) for v in vs) for k, vs in md)


def rand_added(rng, p_invalid=0.0, p_special=0.0):
    n = rng.choice([0, 0, 1, 2, 3, 5])
    out = []
    bad_val = rng.random() < p_invalid / 2
    for _ in range(n):
        r = rng.random()
        if r < p_invalid:
            k = rng.choice(INVALID_KEYS[:1] + INVALID_KEYS[3:])
        elif r < p_invalid + 0.15:
            k = rng.choice(RESERVED_KEYS)
        elif r < p_invalid + 0.15 + p_special:
            k = rng.choice(SPECIAL_KEYS + [b"Host", b"CONNECTION"])
        elif r < p_invalid + 0.45:
            k = rng.choice(UPPER_KEYS)
        else:
            k = rng.choice(VALID_KEYS)
        out.append((k, rand_val(rng, k.lower(), bad_val)))
    return out


def show_added(kv):
    if not kv:
        return "-"
    return ";".join(hexs(k) + "=" + hv(v) for k, v in kv)


def valid_key(k):
    if not k:
        return False
    if k[:1] == b":":
        return True
    return all((97 <= c <= 122) or (48 <= c <= 57) or c in b".-_" for c in k)


def valid_pair(k, vals):
    if not valid_key(k):
        return False
    if k.endswith(b"-bin"):
        return True
    return all(all(0x20 <= c <= 0x7e for c in v) for v in vals)


RESERVED = set(RESERVED_KEYS[:8])


def is_reserved(k):
    return k[:1] == b":" or k in RESERVED


def hits_special(md, added):
    """valid outgoing metadata with a (sent) host/connection key: listed known findings, travel alone"""
    ok = all(valid_pair(k, vs) for k, vs in md) and all(valid_pair(k.lower(), [v]) for k, v in added)
    if not ok:
        return False
    for k, vs in md:
        if k in (b"host", b"connection") and vs:
            return True
    return any(k.lower() in (b"host", b"connection") for k, v in added)


def op(verb, path, md, added, hapi, hmd, tapi, tmd, code):
    return "%s %s %s %s %s %s %s %s %d" % (verb, path, show_md(md), show_added(added), hapi, show_md(hmd), tapi, show_md(tmd), code)


def rand_op(rng, special=False):
    path = rng.choice(["u", "b0", "b1"])
    r = rng.random()
    p_inv = 0.25 if r < 0.2 else 0.0
    md = rand_md(rng, p_invalid=p_inv, p_special=0.5 if special else 0.0) if rng.random() < 0.8 else []
    use_md = bool(md) or rng.random() < 0.3
    added = rand_added(rng, p_invalid=0.2 if (r >= 0.2 and r < 0.3) else 0.0, p_special=0.4 if special else 0.0)
    hapis = ["none", "ctx.set", "ctx.send"] + (["ss.set", "ss.send"] if path != "u" else [])
    tapis = ["none", "ctx.set"] + (["ss.set"] if path != "u" else [])
    hapi = rng.choice(hapis)
    tapi = rng.choice(tapis)
    s_inv = 0.2 if rng.random() < 0.15 else 0.0
    hmd = rand_md(rng, p_invalid=s_inv) if hapi != "none" else []
    tmd = rand_md(rng, p_invalid=s_inv) if tapi != "none" else []
    code = rng.choice([0, 0, 5, 3, 13, 16])
    return md, added, op("rpc", path, md if use_md else [], added, hapi, hmd, tapi, tmd, code)


def gen(rng, tier):
    n_cases = {"quick": 60, "thorough": 2500, "search": 1200}[tier]
    per = 20
    # systematic: every pool key alone, in the base MD and appended, on the unary path
    ops = []
    for k in VALID_KEYS + RESERVED_KEYS + INVALID_KEYS + UPPER_KEYS:
        v = b"\x00\xfe" if k.lower().endswith(b"-bin") else b"val"
        ops.append(op("rpc", "u", [(k, [v, v + b"2"])], [], "none", [], "none", [], 0))
        ops.append(op("rpc", "b1", [], [(k, v), (b"z", b"1"), (k, v + b"3")], "none", [], "none", [], 0))
        if k not in (b"",):
            ops.append(op("rpc", "b1", [], [], "ss.send", [(k, [v])], "ss.set", [(k, [v, v])], 5))
            ops.append(op("rpc", "u", [], [], "ctx.set", [(k, [v])], "ctx.set", [(k, [v])], 0))
    # same key in the base MD and appended: per-key order (base MD values first, then appended, in order)
    ops.append(op("rpc", "u", [(b"k", [b"1", b"2"]), (b"j", [b"x"])], [(b"K", b"3"), (b"j", b"y"), (b"k", b"4")], "none", [], "none", [], 0))
    ops.append(op("rpc", "b1", [(b"o-bin", [b"\x01", b"\x02"])], [(b"O-BIN", b"\x03"), (b"o-bin", b"")], "ss.send", [(b"h", [b"1", b"2", b"3"])], "ss.set", [(b"t", [b"3", b"2", b"1"])], 0))
    ops.append(op("rpc", "u", [(b"user-agent", [b"mine"]), (b":authority", [b"evil"])], [(b"User-Agent", b"mine2"), (b":authority", b"evil2")], "none", [], "none", [], 0))
    for v in ASCII_VALS + BAD_VALS:
        ops.append(op("rpc", "u", [(b"k", [v]), (b"k-bin", [v])], [(b"k", v)], "ctx.set", [(b"h", [v])], "ctx.set", [(b"t-bin", [v])], 0))
    for n in range(0, 8):
        b = bytes(x % 256 for x in range(250, 250 + n))
        ops.append(op("rpc", "b1", [(b"d-bin", [b, b[::-1]])], [(b"D-BIN", b)], "ss.set", [(b"d-bin", [b])], "ss.set", [(b"d-bin", [b, b])], 0))
    for i in range(0, len(ops), per):
        yield Case("s_mdwire", ops[i:i + per], "systematic")
    singles = []
    for k in SPECIAL_KEYS:
        singles.append(op("rpc", "u", [(k, [b"x"])], [], "none", [], "none", [], 0))
        singles.append(op("rpc", "b1", [], [(k.upper(), b"x")], "none", [], "none", [], 0))
        singles.append(op("rpc", "u", [(k, [b"x", b"y"])], [], "none", [], "none", [], 0))
    for kcase in range(n_cases):
        ops = []
        for _ in range(per):
            md, added, o = rand_op(rng, special=rng.random() < 0.04)
            (singles if hits_special(md, added) else ops).append(o)
        yield Case("s_mdwire", ops, "random-%d" % kcase)
    yield from gen_multi(rng, tier)
    for o in singles[:{"quick": 40, "thorough": 400, "search": 200}[tier]]:
        yield Case("s_mdwire", [o], "special-keys")
    # F17 probes (last, so that a new violation is reported on an ordinary rpc op first): the content-type clause of the monitor is on for these (one op per case)
    yield Case("s_mdwire", ["probe u - - none - none - 0"], "probe-f17")
    yield Case("s_mdwire", ["probe b0 %s - none - none - 5" % show_md([(b"k", [b"v"])])], "probe-f17")
    yield Case("s_mdwire", ["probe b1 - - ss.send %s ss.set %s 0" % (show_md([(b"h", [b"1"])]), show_md([(b"t", [b"2"])]))], "probe-f17")
    # F30 probes: the grpc-accept-encoding clause of the monitor is on for these (it fires only when a compressor is registered in
    # the harness binary, e.g. by another property's component; the harness reports the advertised value in `ae=`)
    yield Case("s_mdwire", ["probeae u - - none - none - 0"], "probe-f30")
    yield Case("s_mdwire", ["probeae b1 %s %s none - none - 0" % (show_md([(b"k", [b"v"])]), show_added([(b"grpc-accept-encoding", b"mine")]))], "probe-f30")
    yield from gen_fn(rng, tier)
    yield from gen_peer(rng, tier)


# ---- the real client / server against a scripted raw HTTP/2 peer (component s_rawpeer) -----------

def fld(n, v):
    return (hexs(n) if n else "~") + "=" + (hexs(v) if v else "~")


def fields(fs):
    return ";".join(fld(n, v) for n, v in fs) or "-"


ST200 = (b":status", b"200")
CTG = (b"content-type", b"application/grpc")
REQ = [(b":method", b"POST"), (b":scheme", b"http"), (b":path", b"/v.S/B"), (b":authority", b"auth"), (b"content-type", b"application/grpc"), (b"te", b"trailers")]
PEER_EXTRA = [(b"k", b"v"), (b"k", b"w"), (b"k-bin", b"AQI"), (b"k-bin", b"AQI="), (b"k-bin", b"AQ"), (b"k-bin", b"AQ=="), (b"k-bin", b""), (b"k-bin", b"A"),
              (b"k-bin", b"AQ=I"), (b"k-bin", b"A Q"), (b"-bin", b"/w"), (b"te", b"x"), (b"grpc-status", b"9"), (b"grpc-message", b"m"),
              (b"grpc-message-type", b"t"), (b"grpc-encoding", b"identity"), (b"user-agent", b"peer/1"), (b"user-agent", b"peer/2"),
              (b"content-type", b"application/grpc+proto"), (b"grpc-accept-encoding", b"gzip"), (b"grpc-accept-encoding", b""),
              (b"grpc-previous-rpc-attempts", b"2"), (b"x.y_z-0", b" sp "), (b"v", b"\xff\xfe"), (b"v", b"tab\there"), (b"empty", b""),
              (b"grpc-status-details-bin", b"CAU"), (b"grpc-tags-bin", b"AAAA")]
PEER_BAD = [(b"Kx", b"v"), (b"k", b"a\x00b"), (b"k", b"a\nb"), (b"k", b"\x7f"), (b"", b"v"), (b"k k", b"v"), (b"k\xc3\xa9", b"v"), (b":foo", b"v"),
            (b":path", b"/again"), (b":status", b"200"), (b":authority", b"second")]


def gen_peer(rng, tier):
    n = {"quick": 150, "thorough": 4000, "search": 1500}[tier]
    ops = []
    # --- raw client -> real server
    ops.append("cli " + fields(REQ))
    for e in PEER_EXTRA + PEER_BAD:
        ops.append("cli " + fields(REQ + [e]))
        ops.append("cli " + fields(REQ[:3] + [e] + REQ[3:]))          # (pseudo-after-regular when e is regular)
    noauth = [f for f in REQ if f[0] != b":authority"]
    for extra in ([], [(b"host", b"h1")], [(b"host", b"h1"), (b"host", b"h2")], [(b"connection", b"close")], [(b"grpc-timeout", b"5S")],
                  [(b"grpc-timeout", b"5x")], [(b"grpc-timeout", b"123456789S")], [(b"grpc-timeout", b"")]):
        ops.append("cli " + fields(REQ + extra))
        ops.append("cli " + fields(noauth + extra))
    for ct in (b"application/grpc+proto", b"application/grpc;x=y", b"application/grpc+", b"application/grpcx", b"text/html", b"", b"application/grp", b"APPLICATION/GRPC"):
        ops.append("cli " + fields([f if f[0] != b"content-type" else (b"content-type", ct) for f in REQ]))
    ops.append("cli " + fields([f for f in REQ if f[0] != b"content-type"]))
    for m in (b"GET", b"post", b""):
        ops.append("cli " + fields([f if f[0] != b":method" else (b":method", m) for f in REQ]))
    ops.append("cli " + fields([f for f in REQ if f[0] != b":method"]))
    for _ in range(n):
        ex = [rng.choice(PEER_EXTRA) for _ in range(rng.randrange(0, 6))]
        if rng.random() < 0.15:
            ex.insert(rng.randrange(len(ex) + 1), rng.choice(PEER_BAD))
        ops.append("cli " + fields(REQ + ex))
    # --- real client <- raw server
    for e in PEER_EXTRA + PEER_BAD:
        if e[0] == b"grpc-encoding":
            continue
        ops.append("srv %s 0 %s" % (fields([ST200, CTG, e]), fields([(b"grpc-status", b"0")])))
        ops.append("srv %s 1 %s" % (fields([ST200, CTG]), fields([(b"grpc-status", b"5"), e])))
        ops.append("srv - 0 %s" % fields([ST200, CTG, (b"grpc-status", b"5"), e]))
    for _ in range(n):
        h = [e for e in (rng.choice(PEER_EXTRA) for _ in range(rng.randrange(0, 5))) if e[0] != b"grpc-encoding"]
        t = [e for e in (rng.choice(PEER_EXTRA) for _ in range(rng.randrange(0, 5))) if e[0] not in (b"grpc-status", b"grpc-status-details-bin")]
        if rng.random() < 0.1:
            h.append(rng.choice(PEER_BAD))
        if rng.random() < 0.1:
            t.append(rng.choice(PEER_BAD[:7]))
        code = rng.choice([b"0", b"5", b"16"])
        if rng.random() < 0.7:
            ops.append("srv %s %d %s" % (fields([ST200, CTG] + h), rng.randrange(2), fields([(b"grpc-status", code)] + t)))
        else:
            ops.append("srv - 0 %s" % fields([ST200, CTG, (b"grpc-status", code)] + t))
    per = 25
    for i in range(0, len(ops), per):
        yield Case("s_rawpeer", ops[i:i + per], "rawpeer-%d" % (i // per))


B64 = b"ABCDEFGHIJKLMNOPQRSTUVWXYZabcdefghijklmnopqrstuvwxyz0123456789+/"


def gen_multi(rng, tier):
    """Handlers that make SEVERAL header / trailer calls per RPC, partly with long-lived metadata objects they keep
    (package-level constant headers, an MD cached per service, ...) and reuse in later RPCs of the same connection:
    calls accumulate like metadata.Join and the server must neither keep nor modify the handler's MD values."""
    n_cases = {"quick": 45, "thorough": 1500, "search": 600}[tier]
    hkeys = [b"x-server-name", b"x-request-no", b"h", b"h2", b"h-bin", b"grpc-status", b"content-type"]

    def small_md():
        md = []
        used = set()
        for _ in range(rng.choice([0, 1, 1, 2, 3])):
            k = rng.choice(hkeys) if rng.random() < 0.97 else rng.choice(INVALID_KEYS[1:])
            if k in used:
                continue
            used.add(k)
            md.append((k, [rand_val(rng, k, False) for _ in range(rng.choice([0, 1, 1, 2]))]))
        return md

    def calls(apis, npool, lo, hi):
        cs = []
        for _ in range(rng.randrange(lo, hi + 1)):
            ref = "p%d" % rng.randrange(npool) if rng.random() < 0.55 else "l" + show_md(small_md())
            cs.append(rng.choice(apis) + "@" + ref)
        return "|".join(cs) or "-"

    # systematic: every pair / triple of Set calls over {pool object, fresh literal}, repeated in 3 RPCs of one connection
    sysops = []
    common = [(b"x-server-name", [b"alpha"])]
    for path, api in (("u", "ctx.set"), ("b1", "ss.set"), ("b0", "ctx.set"), ("b1", "ctx.set")):
        for pattern in (["p0", "l"], ["l", "p0"], ["p0", "p1"], ["p0", "p0"], ["p0", "l", "l"], ["l", "l"], ["p0", "l", "p1"]):
            ops = ["pool 0 " + show_md(common), "pool 1 " + show_md([(b"h", [b"1", b"2"]), (b"x-request-no", [b"0"])])]
            for n in (1, 2, 3):
                lit = "l" + show_md([(b"x-request-no", [b"%d" % n])])
                hc = "|".join(api + "@" + (lit if r == "l" else r) for r in pattern)
                tc = "|".join(("ctx.set" if api.startswith("ctx") else "ss.set") + "@" + (lit if r == "l" else r) for r in pattern)
                ops.append("rpcm %s %s %s %d" % (path, hc, tc if n != 2 else "-", 0 if n != 3 else 5))
            sysops.append(ops)
    for i, ops in enumerate(sysops):
        yield Case("s_mdwire", ops, "multi-systematic-%d" % i)
    for kcase in range(n_cases):
        npool = rng.randrange(1, 4)
        ops = ["pool %d %s" % (i, show_md(small_md())) for i in range(npool)]
        for _ in range(rng.randrange(3, 8)):
            path = rng.choice(["u", "b0", "b1"])
            hapis = ["ctx.set", "ctx.set", "ctx.send"] + (["ss.set", "ss.set", "ss.send"] if path != "u" else [])
            tapis = ["ctx.set"] + (["ss.set"] if path != "u" else [])
            ops.append("rpcm %s %s %s %d" % (path, calls(hapis, npool, 0, 4), calls(tapis, npool, 0, 3), rng.choice([0, 0, 5, 16])))
            if rng.random() < 0.1:
                i = rng.randrange(npool)
                ops.append("pool %d %s" % (i, show_md(small_md())))
        yield Case("s_mdwire", ops, "multi-%d" % kcase)


def gen_fn(rng, tier):
    scale = {"quick": 1, "thorough": 15, "search": 6}[tier]
    ops = set()
    names = VALID_KEYS + RESERVED_KEYS + SPECIAL_KEYS + INVALID_KEYS + UPPER_KEYS + [b"grpc-", b"content-typ", b"content-type ", b"tE", b"t", b"e", b"user-agent\x00"]
    for n in names:
        ops.add("res " + hexs(n))
        ops.add("append " + hexs(n))
    for a in range(256):
        ops.add("res %02x" % a)
        ops.add("res %02x41" % a)
        ops.add("append %02x" % a if a < 128 else "res %02x42" % a)
        ops.add("valid %02x=%s" % (a, hv(b"v")))
        ops.add("valid %s=%02x" % (hexs(b"k"), a))
        ops.add("valid %s=%02x" % (hexs(b"k-bin"), a))
        ops.add("valid %s=%s" % (hexs(b"k" + bytes([a])), hv(b"v")))
        ops.add("valid %s=%s" % (hexs(bytes([a]) + b"k"), hv(b"v")))
    ops.add("valid -")
    ops.add("valid %s=" % hexs(b"k"))
    ops.add("valid %s=" % hexs(b"K"))
    ops.add("valid =%s" % hv(b"v"))
    for _ in range(600 * scale):
        md = rand_md(rng, p_invalid=0.2)
        ops.add("valid " + show_md(md))
    for k in (b"k", b"k-bin", b"-bin", b"bin", b"x-binn", b"k-BIN", b"grpc-status-details-bin"):
        for _ in range(150 * scale):
            v = rand_bytes(rng, rng.randrange(0, 10))
            ops.add("enc %s %s" % (hexs(k), hexs(v)))
            for enc in (base64.b64encode(v), base64.b64encode(v).rstrip(b"=")):
                e = bytearray(enc)
                ops.add("dec %s %s" % (hexs(k), hexs(e)))
                if e and rng.random() < 0.6:
                    i = rng.randrange(len(e))
                    c = rng.randrange(4)
                    if c == 0:
                        e[i] = rng.choice(b"=-_ \n") if rng.random() < 0.6 else rng.randrange(256)
                    elif c == 1:
                        del e[i]
                    elif c == 2:
                        e += rng.choice([b"=", b"==", b"A", b"="])
                    else:
                        e[-1] = rng.choice(B64)
                    ops.add("dec %s %s" % (hexs(k), hexs(e)))
    ops = sorted(ops)
    chunk = 5000
    for i in range(0, len(ops), chunk):
        yield Case("mdcodec", ops[i:i + chunk], "mdcodec-batch-%d" % (i // chunk))


def nontrivial(case, impl_lines):
    if case.component == "mdcodec":
        return True
    if case.component == "s_rawpeer":
        return any("=3a" in l or "hdr=63" in l for l in impl_lines)
    return any("in=3a" in l for l in impl_lines)
