"""C04 Inbound flow-control accounting is exact and never wedges a stream."""
from vlib.core import Case

ID = "C04"
COMPONENTS = ["inflow", "s_inflowconn", "s_inflowsrv"]
T4 = ["InFlow"]
PROOF_MODULES = ["GrpcProofs.Properties.C04"]
THEOREMS = ["GrpcProofs.C04." + t for t in (
    "ledger_exact", "accepts_conforming_peer", "rejects_only_excess", "advertised_le_max_partial",
    "advertised_bound_counterexample", "no_wedge", "big_read_granted", "monitor_accepts_model",
    "conn_ledger", "conn_window", "conn_streams_exact", "conn_accepts_iff_fits", "new_stream_window", "conn_no_wedge")]
DESIGN_REF = "DESIGN.md section 8, C04 (+ the two C04 readings in section 7)"
TECHNIQUE = ("Lean 4 theorems (invariant induction over legal histories of the ported uint32 bookkeeping with the peer-side window as "
             "ghost state; omega over wrap-around arithmetic; lifted to a connection with stream registration interleaved with BDP "
             "updates) + T1 op-level differential correspondence on the real inFlow/trInFlow + T2 quiescent-step correspondence of a "
             "real http2Client (dynamic window) against a scripted HTTP/2 peer under testing/synctest, judged by a peer-side window "
             "ledger built from the frames the client sent + T4 regenerated constants")
LEVEL_TEXT = ("Machine-checked Lean proof, for every interleaving of DATA frames (any size < 2^24, padded or not, conforming or not), "
              "read requests of any size < 2^32, reads, and BDP limit increases that follows the callers' protocol, that the peer-side "
              "window equals limit+delta-(pendingData+pendingUpdate), that a frame is accepted iff it fits that window, that the window "
              "is > 3/4 of the configured one whenever all delivered data was read and a larger read is granted, and that it stays "
              "<= 2^31-1 (side condition on BDP updates), about a uint32-exact model of inFlow/trInFlow diffed against the real methods.")
LEVEL_NOTE = ("Trusted: Lean kernel; the hand model lean/GrpcModel/Model/InFlow.lean (tied op by op, all four fields compared, incl. "
              "arguments around 2^31 and 2^32 and histories outside the protocol); the callers' protocol Ghost.legal (requestRead(n) "
              "is followed by reads adding up to n; padding is returned right after onData; BDP limits only grow, <= 16 MiB) is read "
              "off http2_client.go/http2_server.go/transport.go. The connection-level model (InFlowConn: a stream gets inFlow{limit: "
              "initialWindowSize} when it is registered; a BDP update raises initialWindowSize, every active stream and the "
              "advertised SETTINGS together) is tied by T2 on a real http2Client: WINDOW_UPDATE/RST frames and every stream's four "
              "fields are predicted and compared after each quiescent step; which queued NewStream registers, whether a BDP ping "
              "goes out and the window the float BDP estimator picks are taken from the implementation (no clock/scheduler in "
              "the model), and the monitor judges the frames alone (no FLOW_CONTROL reset of a peer inside its windows, excess "
              "reset, windows <= 2^31-1, and once everything delivered on a stream has been read - its reader is blocked or the "
              "completed reads add up to the payload sent - the window the peer holds is restored to within a strict quarter of "
              "the advertised one: conn_no_wedge). The same model, prediction and monitor are run against a real http2Server "
              "transport with a scripted raw client (s_inflowsrv). Readings (DESIGN 7): 'restored to "
              "at least the configured window' = adv + pendingUpdate = limit + delta with pendingUpdate < limit/4 once all delivered "
              "data is read (literal adv >= limit is false by design of the quarter-window batching); the 2^31-1 bound carries the "
              "side condition 'no BDP update while limit+delta would exceed it', the excluded point is run and reported as F20.")
GAP = "BDP estimator RTT arithmetic (only its output n matters); schedules inside one quiescent step are the Go runtime's; the net/http based handler_server transport keeps no flow-control bookkeeping of its own"
ASSUMPTIONS = ["callers' protocol as in Ghost.legal: one reader per stream; Stream.read/ReadMessageHeader call requestRead(n) then read exactly n bytes; initial limit <= 2^31-1",
               "DATA frame flow-controlled length < 2^24 (HTTP/2 frame length field)", "BDP updates n satisfy limit <= n <= bdpLimit (bdp_estimator.go)"]
RULE = ("protocol cases (peer mostly conforming, one overshoot; padded frames; header+body reads, bodies up to 2^32-1; BDP "
        "updates), huge-message cases (>= 2 GiB in maximal frames), raw cases (arbitrary method calls with arguments at 0..5, "
        "16384+-1, 2^24, 2^31+-2, 2^32-1: only diffed), connection cases (conforming and raw). Non-trivial = a non-zero window "
        "update or a rejection occurred; distinct = distinct op list. T2 (s_inflowconn): queued-stream cases (NewStream queued on "
        "MAX_CONCURRENT_STREAMS 1..3 before/after one or two BDP rounds, then the peer fills the window advertised for the newly "
        "registered stream with a slow/absent reader, padded frames, optional one-byte overshoot) and random walks over several "
        "streams (frames within the windows, reads of all sizes incl. blocking and > window, BDP rounds, stream ends). T2 server "
        "side (s_inflowsrv): the same walks against a real http2Server; on both sides padding cases: bursts of 70-300 PADDED DATA "
        "frames with an empty or 1-5 byte data section (one or more stream windows of pure padding), with a blocked/slow reader.")

MAXW = 2**31 - 1
W = 2**32
BDP = 16 * 2**20


class PyInFlow:
    """generator-side port of inFlow, only used to steer generation (mostly-conforming peers)"""

    def __init__(self, limit):
        self.limit, self.pd, self.pu, self.delta = limit, 0, 0, 0

    def on_data(self, n):
        self.pd = (self.pd + n) % W
        return (self.pd + self.pu) % W > (self.limit + self.delta) % W

    def on_read(self, n):
        if self.pd == 0:
            return 0
        self.pd = (self.pd - n) % W
        if n > self.delta:
            n = (n - self.delta) % W
            self.delta = 0
        else:
            self.delta = (self.delta - n) % W
            n = 0
        self.pu = (self.pu + n) % W
        if self.pu >= self.limit // 4:
            w, self.pu = self.pu, 0
            return w
        return 0

    def maybe_adjust(self, n):
        n = min(n, MAXW)

        def i32(x):
            x %= W
            return x if x < 2**31 else x - W
        q = i32(self.limit - (self.pd + self.pu))
        u = i32(n - self.pd)
        if u > q:
            self.delta = (MAXW - self.limit) % W if (self.limit + n) % W > MAXW else n
            return self.delta
        return 0


LIMITS = [65535, 65535, 65535, 65536, 1, 3, 4, 5, 100, 16384, 2**20, BDP, 2**30, MAXW - 1, MAXW, MAXW - 65535]


def protocol_case(rng, idx):
    """a history that follows the callers' protocol: peer (mostly conforming), app reads, BDP"""
    r = rng
    L = r.choice(LIMITS)
    f = PyInFlow(L)
    ops = ["init %d" % L]
    if idx % 11 == 0:
        ops.append("consts")
    adv = L
    want = 0
    avail = 0
    inflight = None
    msgs_left = r.randrange(1, 6)
    phase = "hdr"
    big = r.random() < 0.3
    dynamic = L == 65535 and r.random() < 0.6
    nops = r.randrange(20, 250)
    over = r.random() < 0.25     # this peer will overshoot once
    for _ in range(nops):
        x = r.random()
        if inflight is not None and x < 0.7:
            s, p = inflight
            ops.append("pad %d" % p)
            adv += f.on_read(p)
            avail += s - p
            inflight = None
            continue
        if x < 0.45 and inflight is None:
            # peer sends a frame
            cap = min(adv, 2**24 - 1)
            if over and r.random() < 0.05:
                size = min(adv + r.choice([1, 1, 2, 100]), 2**24 - 1)
                if size <= adv:
                    continue
                ops.append("data %d -" % size)
                ops.append("read 0")   # illegal after the rejection: not judged, still diffed
                break
            if cap <= 0:
                continue
            size = r.choice([1, cap, cap, max(1, cap - 1), r.randrange(1, cap + 1), min(cap, 16384), min(cap, r.randrange(1, 200))])
            if r.random() < 0.25:
                p = r.choice([0, 1, size, r.randrange(0, size + 1), min(size, 256)])
                ops.append("data %d %d" % (size, p))
                inflight = (size, p)
            else:
                ops.append("data %d -" % size)
                avail += size
            if f.on_data(size):
                break
            adv -= size
        elif x < 0.85:
            if want == 0:
                if phase == "hdr":
                    n = 5
                    phase = "body"
                else:
                    if big:
                        n = r.choice([L + 1, 2 * L, 4 * L + 3, MAXW - L, MAXW - L + 1, MAXW, MAXW + 1, 2**32 - 1, 3 * 2**30,
                                      r.randrange(1, 2**32)])
                    else:
                        n = r.choice([0, 1, 5, 100, L // 4, L // 2, L, L + 1, 3 * L, r.randrange(0, 4 * L + 10)])
                    n = min(n, 2**32 - 1)
                    phase = "hdr"
                ops.append("req %d" % n)
                adv += f.maybe_adjust(n % W)
                want = n
            else:
                k = min(want, avail)
                if k > 0 and r.random() < 0.6:
                    k = r.choice([k, k, 1, r.randrange(1, k + 1), min(k, 16384)])
                ops.append("read %d" % k)
                adv += f.on_read(k)
                want -= k
                avail -= k
        elif dynamic and x < 0.9 and f.limit < BDP:
            n = r.choice([f.limit, f.limit + 1, min(BDP, f.limit * 2), BDP, r.randrange(f.limit, BDP + 1)])
            ops.append("lim %d" % n)
            adv += n - f.limit
            f.limit = n
        else:
            # app drains what is there
            k = min(want, avail)
            ops.append("read %d" % k)
            adv += f.on_read(k)
            want -= k
            avail -= k
    return Case("inflow", ops, "proto-%d-L%d" % (idx, L))


def huge_message_case(rng, idx):
    """one message of ~2 GiB or more delivered in maximal frames: exercises delta, the 2^31-1 clamp and
    the restoration of the window across >100 frames"""
    r = rng
    L = r.choice([65535, 65536, 2**20, BDP, 2**30])
    n = r.choice([MAXW, MAXW + 1, MAXW - L, 2**31 + 12345, 2**32 - 1, 3 * 2**29])
    f = PyInFlow(L)
    ops = ["init %d" % L, "req 5"]
    adv = L + f.maybe_adjust(5)
    want, avail = 5, 0
    ops.append("data 5 -")
    f.on_data(5)
    adv -= 5
    ops.append("read 5")
    adv += f.on_read(5)
    ops.append("req %d" % n)
    adv += f.maybe_adjust(n % W)
    want = n
    guard = 0
    while want > 0 and guard < 700:
        guard += 1
        if adv > 0 and (avail == 0 or r.random() < 0.7):
            size = min(adv, 2**24 - 1, want - avail) if r.random() < 0.9 else min(adv, r.randrange(1, 2**24))
            if size <= 0:
                size = min(adv, 2**24 - 1)
            ops.append("data %d -" % size)
            if f.on_data(size):
                break
            adv -= size
            avail += size
        else:
            k = min(want, avail)
            if r.random() < 0.3 and k > 1:
                k = r.randrange(1, k + 1)
            ops.append("read %d" % k)
            adv += f.on_read(k)
            want -= k
            avail -= k
    return Case("inflow", ops, "huge-%d" % idx)


EDGE = [0, 1, 2, 3, 4, 5, 16383, 16384, 16385, 65535, 65536, 2**24 - 1, 2**24, 2**30, 2**31 - 2, 2**31 - 1, 2**31, 2**31 + 1,
        2**32 - 65536, 2**32 - 2, 2**32 - 1]


def raw_case(rng, idx):
    """arbitrary method calls with boundary arguments: only the uint32 arithmetic is compared"""
    r = rng
    L = r.choice(EDGE + LIMITS)
    ops = ["init %d" % L]

    def val():
        x = r.random()
        if x < 0.5:
            return r.choice(EDGE)
        if x < 0.7:
            return max(0, min(2**32 - 1, L + r.choice([-2, -1, 0, 1, 2]) * r.choice([1, 1, L // 4 or 1])))
        if x < 0.85:
            return r.randrange(0, 2**32)
        return r.randrange(0, 70000)
    for _ in range(r.randrange(5, 60)):
        k = r.choice(["data", "data", "pad", "read", "read", "req", "req", "lim"])
        if k == "data":
            ops.append("data %d %s" % (val(), r.choice(["-", "-", str(r.randrange(0, 300))])))
        else:
            ops.append("%s %d" % (k, val()))
    return Case("inflow", ops, "raw-%d" % idx)


def conn_case(rng, idx, raw):
    r = rng
    L = r.choice([65535, 65535, 65536, 1, 3, 4, 7, 1000, 2**20, BDP, 2**30, MAXW])
    ops = ["tinit %d" % L]
    lim, un = L, 0
    for _ in range(r.randrange(5, 120)):
        x = r.random()
        if raw:
            k = r.choice(["tdata", "tdata", "treset", "tlim"])
            ops.append(k if k == "treset" else "%s %d" % (k, r.choice(EDGE + [r.randrange(0, 2**32)])))
            continue
        adv = lim - un
        if x < 0.8:
            cap = min(adv, 2**24 - 1)
            if cap <= 0:
                ops.append("treset")
                un = 0
                continue
            n = r.choice([0, 1, cap, max(0, cap - 1), r.randrange(0, cap + 1), min(cap, 16384), max(0, min(cap, lim // 4 - un - 1)),
                          max(0, min(cap, lim // 4 - un))])
            ops.append("tdata %d" % n)
            un += n
            if un >= lim // 4:
                un = 0
        elif x < 0.9:
            ops.append("treset")
            un = 0
        elif lim < BDP:
            n = r.choice([lim, lim + 1, min(BDP, 2 * lim), BDP, r.randrange(lim, BDP + 1)])
            ops.append("tlim %d" % n)
            lim = n
    return Case("inflow", ops, "conn-%s-%d" % ("raw" if raw else "proto", idx))



# ---------------------------------------------------------------------------------------------
# T2: real http2Client (dynamic window) against a scripted server -- component s_inflowconn

class ConnSim:
    """generator-side simulation of one client connection (peer ledger + the client's bookkeeping); it only
    steers generation towards mostly-conforming peers, the verdicts come from the implementation's frames"""

    def __init__(self, k):
        self.k, self.iws = k, 65535
        self.climit, self.unacked, self.pconn = 65535, 0, 65535
        self.st = {}            # worker -> dict(fc, pwin, chunks, pend, dead)
        self.waiting, self.nopen = [], 0
        self.now = 0            # virtual ms
        self.bdp, self.is_sent, self.sample, self.sent_at = 65535, False, 0, 0
        self.rtt, self.bw_max, self.count, self.ping_out = 0.0, 0.0, 0, False

    def open(self, w):
        self.st[w] = dict(fc=PyInFlow(self.iws), pwin=self.iws, chunks=[], pend=None, dead=False)
        self.nopen += 1

    def new(self, w):
        if self.nopen < self.k:
            self.open(w)
        else:
            self.waiting.append(w)

    def alive(self, w):
        return w in self.st and not self.st[w]["dead"]

    def conn_credit(self):
        self.pconn += self.unacked
        self.unacked = 0

    def consume(self, w):
        s = self.st[w]
        while s["pend"] and s["chunks"]:
            k = min(s["chunks"][0], s["pend"])
            s["pwin"] += s["fc"].on_read(k)
            s["pend"] -= k
            if k == s["chunks"][0]:
                s["chunks"].pop(0)
            else:
                s["chunks"][0] -= k
        if s["pend"] == 0:
            s["pend"] = None

    def sdata(self, w, ln, pad):
        size = ln if pad is None else 1 + ln + pad
        self.pconn -= size
        self.unacked += size
        if self.unacked >= self.climit // 4:
            self.conn_credit()
        if self.bdp != BDP:
            if not self.is_sent:
                self.is_sent, self.sample, self.sent_at, self.ping_out = True, size, self.now, True
                self.count += 1
                self.conn_credit()
            else:
                self.sample += size
        if not self.alive(w) or size == 0:
            return
        s = self.st[w]
        s["pwin"] -= size
        if s["fc"].on_data(size):
            self.kill(w)
            return
        if pad is not None:
            s["pwin"] += s["fc"].on_read(size - ln)
        if ln > 0:
            s["chunks"].append(ln)
        self.consume(w)

    def read(self, w, n):
        s = self.st[w]
        s["pwin"] += s["fc"].maybe_adjust(n)
        s["pend"] = n if n > 0 else None
        self.consume(w)

    def kill(self, w):
        self.st[w]["dead"] = True
        self.nopen -= 1
        if self.waiting:
            self.open(self.waiting.pop(0))

    def pingack(self):
        if not self.ping_out:
            return
        self.ping_out = False
        rtt_sample = (self.now - self.sent_at) / 1000.0
        if self.count < 10:
            self.rtt += (rtt_sample - self.rtt) / float(self.count)
        else:
            self.rtt += (rtt_sample - self.rtt) * 0.9
        self.is_sent = False
        bw = float("inf") if self.rtt == 0 else float(self.sample) / (self.rtt * 1.5)
        if bw > self.bw_max:
            self.bw_max = bw
        if float(self.sample) >= 0.66 * float(self.bdp) and bw == self.bw_max and self.bdp != BDP:
            n = min(int(2 * float(self.sample)), BDP)
            self.bdp = n
            d = n - self.iws
            self.iws = n
            self.pconn += n - self.climit
            self.climit = n
            for s in self.st.values():
                if not s["dead"]:
                    s["fc"].limit = n
                    s["pwin"] += d


def conn_frame(r, sim, w, cap=16384, exact=None):
    """one conforming DATA frame on w (None if nothing fits)"""
    s = sim.st[w]
    room = min(s["pwin"], sim.pconn, cap)
    if room <= 0:
        return None
    if r.random() < 0.15 and room >= 3:
        pad = r.choice([0, 1, 7, 255])
        pad = min(pad, room - 2)
        ln = r.choice([room - 1 - pad, max(0, (room - 1 - pad) // 2), 0, 1])
        ln = max(0, min(ln, room - 1 - pad))
        return ln, pad
    ln = exact if exact and exact <= room else r.choice([room, room, room, max(1, room - 1), r.randrange(1, room + 1)])
    return ln, None


def emit_frame(ops, sim, w, fr):
    ln, pad = fr
    ops.append("sdata %d %d %s" % (w, ln, "-" if pad is None else str(pad)))
    sim.sdata(w, ln, pad)


def bdp_round(r, sim, ops, w, want_increase=True):
    """traffic on w while a BDP ping is outstanding, then its ack (usually enough for an increase)"""
    target = int(0.66 * sim.bdp) + 1 if want_increase else r.randrange(1, max(2, int(0.5 * sim.bdp)))
    guard = 0
    while guard < 12 and sim.alive(w) and (not sim.is_sent or sim.sample < target):
        guard += 1
        fr = conn_frame(r, sim, w)
        if fr is None:
            # the application makes room
            k = sum(sim.st[w]["chunks"])
            if k == 0 or sim.st[w]["pend"]:
                break
            ops.append("read %d %d" % (w, k))
            sim.read(w, k)
            continue
        emit_frame(ops, sim, w, fr)
    ms = r.choice([0, 1, 5, 20, 100])
    if ms:
        ops.append("sleep %d" % ms)
        sim.now += ms
    ops.append("pingack")
    sim.pingack()


def queued_case(rng, idx):
    """the class 'a stream is registered after the window changed': NewStream calls queue on
    MAX_CONCURRENT_STREAMS while BDP rounds raise the initial window; once registered, the peer uses the
    window it was advertised for the new stream (slow or absent reader, reads smaller than the window),
    finally overshoots by a little"""
    r = rng
    k = r.choice([1, 1, 2, 3])
    sim = ConnSim(k)
    ops = ["conn %d" % k]
    nxt = 1
    holders = []
    for _ in range(k):
        ops.append("new %d" % nxt)
        sim.new(nxt)
        holders.append(nxt)
        nxt += 1
    queued = nxt
    nxt += 1
    order = r.random()
    if order < 0.7:
        ops.append("new %d" % queued)           # queued before the window grows
        sim.new(queued)
    for _ in range(r.choice([1, 1, 2])):
        bdp_round(r, sim, ops, r.choice(holders), want_increase=r.random() < 0.9)
    if order >= 0.7:
        ops.append("new %d" % queued)           # queued after the window grew
        sim.new(queued)
    victim = r.choice(holders)
    ops.append("sclose %d" % victim)
    sim.kill(victim)
    # the peer fills the window it was given for the newly registered stream
    w = queued
    guard = 0
    while sim.alive(w) and guard < 40:
        guard += 1
        x = r.random()
        if x < 0.75:
            fr = conn_frame(r, sim, w)
            if fr is None:
                break
            emit_frame(ops, sim, w, fr)
        elif x < 0.9 and sim.st[w]["chunks"] and not sim.st[w]["pend"]:
            n = r.choice([1, 5, 1000, sim.st[w]["chunks"][0], sum(sim.st[w]["chunks"])])
            n = min(n, sum(sim.st[w]["chunks"]))
            ops.append("read %d %d" % (w, n))
            sim.read(w, n)
        elif sim.ping_out and x < 0.95:
            ops.append("pingack")
            sim.pingack()
    if sim.alive(w) and r.random() < 0.5 and sim.st[w]["pwin"] < 16384 and sim.pconn > sim.st[w]["pwin"] + 2:
        # one byte (or a few) more than the stream window: must be reset with FLOW_CONTROL
        emit_frame(ops, sim, w, (sim.st[w]["pwin"] + r.choice([1, 1, 2, 50]), None))
    elif sim.alive(w) and sim.st[w]["chunks"] and not sim.st[w]["pend"]:
        n = sum(sim.st[w]["chunks"])
        ops.append("read %d %d" % (w, n))
        sim.read(w, n)
    return Case("s_inflowconn", ops, "queued-%d-k%d" % (idx, k))


def padding_case(rng, idx, comp):
    """the class 'frames that carry little or no payload': bursts of PADDED DATA frames whose data section is
    empty or tiny (the whole frame length is flow-controlled and must come back at once), adding up to one or
    more stream windows, mixed with ordinary frames, a blocked or slow reader and BDP rounds"""
    r = rng
    sim = ConnSim(100)
    ops = ["conn 100"]
    nw = r.choice([1, 1, 2])
    for w in range(1, nw + 1):
        ops.append("new %d" % w)
        sim.new(w)
    if r.random() < 0.5:
        w = r.randrange(1, nw + 1)
        n = r.choice([5, 1000, 100000])
        ops.append("read %d %d" % (w, n))       # the application is blocked in Read
        sim.read(w, n)
    target = r.choice([70, 90, 150, 300])
    style = r.choice(["only", "only", "tiny", "mixed"])
    for i in range(target):
        live = [w for w in sim.st if sim.alive(w)]
        if not live:
            break
        w = r.choice(live)
        room = min(sim.st[w]["pwin"], sim.pconn)
        if room < 300:
            break
        x = r.random()
        if style == "only" or (style == "mixed" and x < 0.6):
            fr = (0, r.choice([255, 255, 254, 0, 1, 100]))
        elif style == "tiny" or x < 0.8:
            fr = (r.choice([1, 1, 2, 5]), r.choice([255, 250, 0, 10]))
        else:
            fr = (r.choice([1, 100, 16384 if room >= 16384 else 1]), None)
        emit_frame(ops, sim, w, fr)
        y = r.random()
        if y < 0.03 and sim.st[w]["chunks"] and not sim.st[w]["pend"]:
            n = sum(sim.st[w]["chunks"])
            ops.append("read %d %d" % (w, n))
            sim.read(w, n)
        elif y < 0.06 and sim.ping_out:
            ops.append("pingack")
            sim.pingack()
    for w in [w for w in sim.st if sim.alive(w)]:
        s = sim.st[w]
        if s["chunks"] and not s["pend"]:
            n = sum(s["chunks"])
            ops.append("read %d %d" % (w, n))
            sim.read(w, n)
    return Case(comp, ops, "padding-%s-%d" % (style, idx))


def conn_walk_case(rng, idx, comp="s_inflowconn"):
    """random walk: several streams, frames within the windows, reads of all sizes (some blocking, some
    larger than the window), BDP rounds, stream ends, at most one queued NewStream at a time"""
    r = rng
    k = r.choice([1, 2, 4, 100]) if comp == "s_inflowconn" else 100
    sim = ConnSim(k)
    ops = ["conn %d" % k]
    nxt = 1
    for _ in range(r.randrange(8, 60)):
        live = [w for w in sim.st if sim.alive(w)]
        x = r.random()
        if x < 0.12 and nxt < 8 and (sim.nopen < k or not sim.waiting):
            ops.append("new %d" % nxt)
            sim.new(nxt)
            nxt += 1
        elif not live:
            if nxt < 8:
                ops.append("new %d" % nxt)
                sim.new(nxt)
                nxt += 1
            continue
        elif x < 0.6:
            w = r.choice(live)
            fr = conn_frame(r, sim, w)
            if fr is not None:
                emit_frame(ops, sim, w, fr)
        elif x < 0.8:
            w = r.choice(live)
            s = sim.st[w]
            if s["pend"]:
                continue
            have = sum(s["chunks"])
            n = r.choice([0, 1, 5, have, have, max(1, have // 2), have + r.choice([1, 100, 70000]), 200000])
            ops.append("read %d %d" % (w, n))
            sim.read(w, n)
        elif x < 0.9:
            if sim.ping_out:
                ms = r.choice([0, 1, 10, 50])
                if ms:
                    ops.append("sleep %d" % ms)
                    sim.now += ms
                ops.append("pingack")
                sim.pingack()
        elif x < 0.95 and len(live) > 0:
            w = r.choice(live)
            if not sim.st[w]["pend"]:
                ops.append("sclose %d" % w)
                sim.kill(w)
    return Case(comp, ops, "walk-%d-k%d" % (idx, k))


def conn_fixed_cases():
    out = []
    # a queued stream registered after a BDP increase gets the new window and the peer fills it
    out.append(["conn 1", "new 1", "new 2", "sdata 1 16384 -", "sdata 1 16384 -", "sdata 1 16384 -", "sleep 10", "pingack",
                "sclose 1", "sdata 2 16384 -", "sdata 2 16384 -", "sdata 2 16384 -", "sdata 2 16384 -", "sdata 2 16384 -",
                "sdata 2 16384 -", "read 2 1000", "read 2 97304"])
    # exactly the initial window, then one byte more
    out.append(["conn 100", "new 1", "sdata 1 16384 -", "sdata 1 16384 -", "sdata 1 16384 -", "sdata 1 16383 -", "sdata 1 1 -"])
    # a read four times the window while data keeps coming
    out.append(["conn 100", "new 1", "read 1 262140", "sdata 1 16384 -", "sdata 1 16000 100", "sdata 1 16384 -", "sdata 1 16384 -",
                "sdata 1 16384 -"])
    res = [Case("s_inflowconn", o, "connfixed-%d" % i) for i, o in enumerate(out)]
    # the server side: window, one byte more; padded frames with and without payload; a read 4x the window
    srv = [["conn 100", "new 1", "sdata 1 16384 -", "sdata 1 16384 -", "sdata 1 16384 -", "sdata 1 16383 -", "sdata 1 1 -"],
           ["conn 100", "new 1", "new 2", "sdata 1 0 255", "sdata 1 0 0", "sdata 2 1 255", "sdata 1 100 10", "read 1 100", "read 2 1",
            "sclose 2", "sdata 1 16384 -"],
           out[2]]
    return res + [Case("s_inflowsrv", o, "srvfixed-%d" % i) for i, o in enumerate(srv)]


def fixed_cases():
    out = []
    # the excluded point of the 2^31-1 bound: a BDP update while a ~2 GiB read is in flight (known finding F20)
    out.append(["init 65535", "req 2147483647", "lim 131070", "data 16384 -", "read 16384"])
    # exactly the window, one byte more
    out.append(["init 65535", "data 65535 -", "req 5", "read 5"])
    out.append(["init 65535", "data 16384 -", "data 16384 -", "data 16384 -", "data 16384 -", "data 1 -"])
    # quarter-window batching boundary
    out.append(["init 65535", "req 16383", "data 16383 -", "read 16382", "read 1", "req 1", "data 1 -", "read 1"])
    # message 4x the window with padded frames
    out.append(["init 65535", "req 5", "data 5 -", "read 5", "req 262140", "data 16384 100", "pad 100", "read 16284",
                "data 16384 -", "read 16384", "data 65535 -", "read 65535"])
    # maybeAdjust twice without a full read in between (outside the protocol: ledger no longer exact; only diffed)
    out.append(["init 65535", "req 100000", "req 100000", "data 65535 -", "data 65535 -", "data 65535 -"])
    out.append(["tinit 65535", "tdata 16383", "tdata 1", "tdata 16384", "treset", "tlim 131070", "tdata 32767", "tdata 1"])
    return [Case("inflow", o, "fixed-%d" % i) for i, o in enumerate(out)]


def gen(rng, tier):
    n = {"quick": 400, "thorough": 20000, "search": 6000}[tier]
    nconn = {"quick": 60, "thorough": 1500, "search": 600}[tier]
    for c in fixed_cases():
        yield c
    for c in conn_fixed_cases():
        yield c
    for i in range(nconn):
        m = i % 6
        if m in (0, 3):
            yield queued_case(rng, i)
        elif m == 1:
            yield conn_walk_case(rng, i)
        elif m == 4:
            yield conn_walk_case(rng, i, "s_inflowsrv")
        else:
            yield padding_case(rng, i, "s_inflowconn" if m == 2 else "s_inflowsrv")
    for i in range(n):
        m = i % 10
        if m < 5:
            yield protocol_case(rng, i)
        elif m < 7:
            yield raw_case(rng, i)
        elif m == 7:
            yield conn_case(rng, i, False)
        elif m == 8:
            yield conn_case(rng, i, True) if i % 20 == 8 else conn_case(rng, i, False)
        else:
            yield huge_message_case(rng, i) if i % 40 == 9 else protocol_case(rng, i)


def nontrivial(case, impl_lines):
    # some window update was actually emitted or some frame was judged
    if case.component.startswith("s_inflow"):
        return any("ev=" in l and ("W" in l.split(" | ")[0] or "R" in l.split(" | ")[0]) for l in impl_lines)
    return any((l.split(" ")[0].isdigit() and l.split(" ")[0] != "0") or l.startswith("err") for l in impl_lines)
