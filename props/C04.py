"""C04 Inbound flow-control accounting is exact and never wedges a stream."""
from vlib.core import Case

ID = "C04"
COMPONENTS = ["inflow"]
T4 = ["InFlow"]
PROOF_MODULES = ["GrpcProofs.Properties.C04"]
THEOREMS = ["GrpcProofs.C04." + t for t in (
    "ledger_exact", "accepts_conforming_peer", "rejects_only_excess", "advertised_le_max_partial",
    "advertised_bound_counterexample", "no_wedge", "big_read_granted", "monitor_accepts_model",
    "conn_ledger", "conn_window")]
DESIGN_REF = "DESIGN.md section 8, C04 (+ the two C04 readings in section 7)"
TECHNIQUE = ("Lean 4 theorems (invariant induction over legal histories of the ported uint32 bookkeeping with the peer-side window as "
             "ghost state; omega over wrap-around arithmetic) + T1 op-level differential correspondence on the real inFlow/trInFlow + "
             "T4 regenerated constants")
LEVEL_TEXT = ("Machine-checked Lean proof, for every interleaving of DATA frames (any size < 2^24, padded or not, conforming or not), "
              "read requests of any size < 2^32, reads, and BDP limit increases that follows the callers' protocol, that the peer-side "
              "window equals limit+delta-(pendingData+pendingUpdate), that a frame is accepted iff it fits that window, that the window "
              "is > 3/4 of the configured one whenever all delivered data was read and a larger read is granted, and that it stays "
              "<= 2^31-1 (side condition on BDP updates), about a uint32-exact model of inFlow/trInFlow diffed against the real methods.")
LEVEL_NOTE = ("Trusted: Lean kernel; the hand model lean/GrpcModel/Model/InFlow.lean (tied op by op, all four fields compared, incl. "
              "arguments around 2^31 and 2^32 and histories outside the protocol); the callers' protocol Ghost.legal (requestRead(n) "
              "is followed by reads adding up to n; padding is returned right after onData; BDP limits only grow, <= 16 MiB) is read "
              "off http2_client.go/http2_server.go/transport.go, not tied by a transport-level run. Readings (DESIGN 7): 'restored to "
              "at least the configured window' = adv + pendingUpdate = limit + delta with pendingUpdate < limit/4 once all delivered "
              "data is read (literal adv >= limit is false by design of the quarter-window batching); the 2^31-1 bound carries the "
              "side condition 'no BDP update while limit+delta would exceed it', the excluded point is run and reported as F20.")
GAP = "BDP estimator RTT arithmetic (only its output n matters); connection-level accounting is per trInFlow call, handleData/updateFlowControl themselves are not driven (no transport in the loop)"
ASSUMPTIONS = ["callers' protocol as in Ghost.legal: one reader per stream; Stream.read/ReadMessageHeader call requestRead(n) then read exactly n bytes; initial limit <= 2^31-1",
               "DATA frame flow-controlled length < 2^24 (HTTP/2 frame length field)", "BDP updates n satisfy limit <= n <= bdpLimit (bdp_estimator.go)"]
RULE = ("protocol cases (peer mostly conforming, one overshoot; padded frames; header+body reads, bodies up to 2^32-1; BDP "
        "updates), huge-message cases (>= 2 GiB in maximal frames), raw cases (arbitrary method calls with arguments at 0..5, "
        "16384+-1, 2^24, 2^31+-2, 2^32-1: only diffed), connection cases (conforming and raw). Non-trivial = a non-zero window "
        "update or a rejection occurred; distinct = distinct op list.")

MAXW = 2**31 - 1
W = 2**32
BDP = 16 * 2**20


class PyInFlow:
    """generator-side port of inFlow, only used to steer generation (mostly-conforming peers)"""

    def __init__(self, limit):
        self.limit, self.pd, self.pu, self.delta = limit, 0, 0, 0

    def on_data(self, n):
        self.pd = (self.pd + n) % W
        return (self.pd + self.pu) % W > (self.limit + self.delta) % W

    def on_read(self, n):
        if self.pd == 0:
            return 0
        self.pd = (self.pd - n) % W
        if n > self.delta:
            n = (n - self.delta) % W
            self.delta = 0
        else:
            self.delta = (self.delta - n) % W
            n = 0
        self.pu = (self.pu + n) % W
        if self.pu >= self.limit // 4:
            w, self.pu = self.pu, 0
            return w
        return 0

    def maybe_adjust(self, n):
        n = min(n, MAXW)

        def i32(x):
            x %= W
            return x if x < 2**31 else x - W
        q = i32(self.limit - (self.pd + self.pu))
        u = i32(n - self.pd)
        if u > q:
            self.delta = (MAXW - self.limit) % W if (self.limit + n) % W > MAXW else n
            return self.delta
        return 0


LIMITS = [65535, 65535, 65535, 65536, 1, 3, 4, 5, 100, 16384, 2**20, BDP, 2**30, MAXW - 1, MAXW, MAXW - 65535]


def protocol_case(rng, idx):
    """a history that follows the callers' protocol: peer (mostly conforming), app reads, BDP"""
    r = rng
    L = r.choice(LIMITS)
    f = PyInFlow(L)
    ops = ["init %d" % L]
    if idx % 11 == 0:
        ops.append("consts")
    adv = L
    want = 0
    avail = 0
    inflight = None
    msgs_left = r.randrange(1, 6)
    phase = "hdr"
    big = r.random() < 0.3
    dynamic = L == 65535 and r.random() < 0.6
    nops = r.randrange(20, 250)
    over = r.random() < 0.25     # this peer will overshoot once
    for _ in range(nops):
        x = r.random()
        if inflight is not None and x < 0.7:
            s, p = inflight
            ops.append("pad %d" % p)
            adv += f.on_read(p)
            avail += s - p
            inflight = None
            continue
        if x < 0.45 and inflight is None:
            # peer sends a frame
            cap = min(adv, 2**24 - 1)
            if over and r.random() < 0.05:
                size = min(adv + r.choice([1, 1, 2, 100]), 2**24 - 1)
                if size <= adv:
                    continue
                ops.append("data %d -" % size)
                ops.append("read 0")   # illegal after the rejection: not judged, still diffed
                break
            if cap <= 0:
                continue
            size = r.choice([1, cap, cap, max(1, cap - 1), r.randrange(1, cap + 1), min(cap, 16384), min(cap, r.randrange(1, 200))])
            if r.random() < 0.25:
                p = r.choice([0, 1, size, r.randrange(0, size + 1), min(size, 256)])
                ops.append("data %d %d" % (size, p))
                inflight = (size, p)
            else:
                ops.append("data %d -" % size)
                avail += size
            if f.on_data(size):
                break
            adv -= size
        elif x < 0.85:
            if want == 0:
                if phase == "hdr":
                    n = 5
                    phase = "body"
                else:
                    if big:
                        n = r.choice([L + 1, 2 * L, 4 * L + 3, MAXW - L, MAXW - L + 1, MAXW, MAXW + 1, 2**32 - 1, 3 * 2**30,
                                      r.randrange(1, 2**32)])
                    else:
                        n = r.choice([0, 1, 5, 100, L // 4, L // 2, L, L + 1, 3 * L, r.randrange(0, 4 * L + 10)])
                    n = min(n, 2**32 - 1)
                    phase = "hdr"
                ops.append("req %d" % n)
                adv += f.maybe_adjust(n % W)
                want = n
            else:
                k = min(want, avail)
                if k > 0 and r.random() < 0.6:
                    k = r.choice([k, k, 1, r.randrange(1, k + 1), min(k, 16384)])
                ops.append("read %d" % k)
                adv += f.on_read(k)
                want -= k
                avail -= k
        elif dynamic and x < 0.9 and f.limit < BDP:
            n = r.choice([f.limit, f.limit + 1, min(BDP, f.limit * 2), BDP, r.randrange(f.limit, BDP + 1)])
            ops.append("lim %d" % n)
            adv += n - f.limit
            f.limit = n
        else:
            # app drains what is there
            k = min(want, avail)
            ops.append("read %d" % k)
            adv += f.on_read(k)
            want -= k
            avail -= k
    return Case("inflow", ops, "proto-%d-L%d" % (idx, L))


def huge_message_case(rng, idx):
    """one message of ~2 GiB or more delivered in maximal frames: exercises delta, the 2^31-1 clamp and
    the restoration of the window across >100 frames"""
    r = rng
    L = r.choice([65535, 65536, 2**20, BDP, 2**30])
    n = r.choice([MAXW, MAXW + 1, MAXW - L, 2**31 + 12345, 2**32 - 1, 3 * 2**29])
    f = PyInFlow(L)
    ops = ["init %d" % L, "req 5"]
    adv = L + f.maybe_adjust(5)
    want, avail = 5, 0
    ops.append("data 5 -")
    f.on_data(5)
    adv -= 5
    ops.append("read 5")
    adv += f.on_read(5)
    ops.append("req %d" % n)
    adv += f.maybe_adjust(n % W)
    want = n
    guard = 0
    while want > 0 and guard < 700:
        guard += 1
        if adv > 0 and (avail == 0 or r.random() < 0.7):
            size = min(adv, 2**24 - 1, want - avail) if r.random() < 0.9 else min(adv, r.randrange(1, 2**24))
            if size <= 0:
                size = min(adv, 2**24 - 1)
            ops.append("data %d -" % size)
            if f.on_data(size):
                break
            adv -= size
            avail += size
        else:
            k = min(want, avail)
            if r.random() < 0.3 and k > 1:
                k = r.randrange(1, k + 1)
            ops.append("read %d" % k)
            adv += f.on_read(k)
            want -= k
            avail -= k
    return Case("inflow", ops, "huge-%d" % idx)


EDGE = [0, 1, 2, 3, 4, 5, 16383, 16384, 16385, 65535, 65536, 2**24 - 1, 2**24, 2**30, 2**31 - 2, 2**31 - 1, 2**31, 2**31 + 1,
        2**32 - 65536, 2**32 - 2, 2**32 - 1]


def raw_case(rng, idx):
    """arbitrary method calls with boundary arguments: only the uint32 arithmetic is compared"""
    r = rng
    L = r.choice(EDGE + LIMITS)
    ops = ["init %d" % L]

    def val():
        x = r.random()
        if x < 0.5:
            return r.choice(EDGE)
        if x < 0.7:
            return max(0, min(2**32 - 1, L + r.choice([-2, -1, 0, 1, 2]) * r.choice([1, 1, L // 4 or 1])))
        if x < 0.85:
            return r.randrange(0, 2**32)
        return r.randrange(0, 70000)
    for _ in range(r.randrange(5, 60)):
        k = r.choice(["data", "data", "pad", "read", "read", "req", "req", "lim"])
        if k == "data":
            ops.append("data %d %s" % (val(), r.choice(["-", "-", str(r.randrange(0, 300))])))
        else:
            ops.append("%s %d" % (k, val()))
    return Case("inflow", ops, "raw-%d" % idx)


def conn_case(rng, idx, raw):
    r = rng
    L = r.choice([65535, 65535, 65536, 1, 3, 4, 7, 1000, 2**20, BDP, 2**30, MAXW])
    ops = ["tinit %d" % L]
    lim, un = L, 0
    for _ in range(r.randrange(5, 120)):
        x = r.random()
        if raw:
            k = r.choice(["tdata", "tdata", "treset", "tlim"])
            ops.append(k if k == "treset" else "%s %d" % (k, r.choice(EDGE + [r.randrange(0, 2**32)])))
            continue
        adv = lim - un
        if x < 0.8:
            cap = min(adv, 2**24 - 1)
            if cap <= 0:
                ops.append("treset")
                un = 0
                continue
            n = r.choice([0, 1, cap, max(0, cap - 1), r.randrange(0, cap + 1), min(cap, 16384), max(0, min(cap, lim // 4 - un - 1)),
                          max(0, min(cap, lim // 4 - un))])
            ops.append("tdata %d" % n)
            un += n
            if un >= lim // 4:
                un = 0
        elif x < 0.9:
            ops.append("treset")
            un = 0
        elif lim < BDP:
            n = r.choice([lim, lim + 1, min(BDP, 2 * lim), BDP, r.randrange(lim, BDP + 1)])
            ops.append("tlim %d" % n)
            lim = n
    return Case("inflow", ops, "conn-%s-%d" % ("raw" if raw else "proto", idx))


def fixed_cases():
    out = []
    # the excluded point of the 2^31-1 bound: a BDP update while a ~2 GiB read is in flight (known finding F20)
    out.append(["init 65535", "req 2147483647", "lim 131070", "data 16384 -", "read 16384"])
    # exactly the window, one byte more
    out.append(["init 65535", "data 65535 -", "req 5", "read 5"])
    out.append(["init 65535", "data 16384 -", "data 16384 -", "data 16384 -", "data 16384 -", "data 1 -"])
    # quarter-window batching boundary
    out.append(["init 65535", "req 16383", "data 16383 -", "read 16382", "read 1", "req 1", "data 1 -", "read 1"])
    # message 4x the window with padded frames
    out.append(["init 65535", "req 5", "data 5 -", "read 5", "req 262140", "data 16384 100", "pad 100", "read 16284",
                "data 16384 -", "read 16384", "data 65535 -", "read 65535"])
    # maybeAdjust twice without a full read in between (outside the protocol: ledger no longer exact; only diffed)
    out.append(["init 65535", "req 100000", "req 100000", "data 65535 -", "data 65535 -", "data 65535 -"])
    out.append(["tinit 65535", "tdata 16383", "tdata 1", "tdata 16384", "treset", "tlim 131070", "tdata 32767", "tdata 1"])
    return [Case("inflow", o, "fixed-%d" % i) for i, o in enumerate(out)]


def gen(rng, tier):
    n = {"quick": 400, "thorough": 20000, "search": 6000}[tier]
    for c in fixed_cases():
        yield c
    for i in range(n):
        m = i % 10
        if m < 5:
            yield protocol_case(rng, i)
        elif m < 7:
            yield raw_case(rng, i)
        elif m == 7:
            yield conn_case(rng, i, False)
        elif m == 8:
            yield conn_case(rng, i, True) if i % 20 == 8 else conn_case(rng, i, False)
        else:
            yield huge_message_case(rng, i) if i % 40 == 9 else protocol_case(rng, i)


def nontrivial(case, impl_lines):
    # some window update was actually emitted or some frame was judged
    return any((l.split(" ")[0].isdigit() and l.split(" ")[0] != "0") or l.startswith("err") for l in impl_lines)
