"""C25 Server stop semantics and per-connection handler limit hold."""
from vlib.core import Case

ID = "C25"
COMPONENTS = ["s_sema", "s_serverstop"]
T4 = []
PROOF_MODULES = ["GrpcProofs.Properties.C25"]
THEOREMS = ["GrpcProofs.C25." + t for t in (
    "semaphore_running_le_n", "semaphore_counter", "semaphore_no_lost_release", "semaphore_no_stale_token",
    "semaphore_release_never_blocks", "semaphore_acquire_iff_free",
    "handlers_le_quota", "gracefulStop_returns_after_all_handlers", "accepted_before_completes",
    "none_accepted_after", "gracefulStop_drains_every_connection", "final_goaway_never_dispatches", "stop_cancels_all")]
DESIGN_REF = "DESIGN.md section 8, C25"
TECHNIQUE = ("Lean 4: (a) interleaving model of atomicSemaphore (one rule per atomic Add / channel operation, one sequential acquirer, "
             "any number of releasers by counting abstraction) with an inductive invariant proved per rule by omega; (b) event-level "
             "state machine of server, connections (reader FIFO, stream parked in the handler quota), handlers and Stop/GracefulStop "
             "with invariants proved by induction over arbitrary op sequences. Ties: T3 - the real atomicSemaphore of the instrumented "
             "server.go stepped at its yield points inside a synctest bubble (blocked channel operations are observed as such); "
             "T2 - real grpc.Server with MaxConcurrentStreams 1..4 and real ClientConns over bufconn, handler entry/exit/ctx logs")
LEVEL_TEXT = ("Machine-checked proof that under every interleaving of the semaphore's atomic operations at most cap slots are held, "
              "n = cap - held - [parked] >= -1, a parked acquirer with a free slot always has exactly one wake-up in flight whose "
              "delivery is enabled (no lost release), no stale token exists, release never blocks; and that for every sequence of "
              "dial/start/cancel/finish/GracefulStop/Stop events no connection runs more than cap handlers, a pending GracefulStop "
              "returns only when no handler runs, a live handler's status is what its client gets, nothing started after a stop call "
              "is ever sent by a grpc-go client, a stream that any peer opens on a connection whose final GOAWAY was written never "
              "gets a handler, and Stop leaves every sent RPC with a cancelled context and a non-OK (or earlier) result. Both models "
              "are diffed against the real code on every run.")
LEVEL_NOTE = ("Readings: 'no RPC is accepted afterwards' = after the stop call has reached quiescence (the GOAWAY handshake has completed: "
              "in the tie every op is followed by synctest.Wait); streams started before are accepted and complete. The clause is checked "
              "both for cooperating grpc-go clients (they stop sending: none_accepted_after) and for a hand-written HTTP/2 peer that acks "
              "the GOAWAY ping but ignores GOAWAY and keeps opening streams (the server must ignore them: final_goaway_never_dispatches; "
              "the model keeps a per-connection `draining` flag = http2Server.state draining). 'handlers run at once' "
              "counts handler goroutines between entry and return, INCLUDING handlers whose stream the client has cancelled (that is the "
              "case the semaphore exists for: the transport already refuses streams beyond MAX_CONCURRENT_STREAMS). Semaphore theorems are "
              "for ONE sequential acquirer (the code's documented use: the transport reader calls the stream callback synchronously). "
              "The yield points of the T3 tie are before the atomic Adds; there is no yield between release's Add and its channel send, so "
              "that window is covered by the proof only. Domain of the T2 tie (generator): GracefulStop is not called while a connection's "
              "reader is parked in the handler quota, and Stop is not called while a GracefulStop still waits for handlers - in both "
              "situations the real code blocks a goroutine on a sync.Mutex (http2Server.maxStreamMu held by the parked reader / Server.mu "
              "held across handlersWG.Wait), which a synctest bubble cannot settle; see the final report for the first one, which can "
              "stall a connection's writer. Trusted: Lean kernel, both models (tied by the runs), tools/instrument, Go memory model for sync/atomic.")
GAP = "listener/OS; keepalive; ServeHTTP transport; several concurrent acquirers on one semaphore; the serverWorker stack-reset threshold (65536 handlers on one worker)"
ASSUMPTIONS = ["one HandleStreams reader per connection (sequential acquire)", "sync/atomic operations are sequentially consistent",
               "fewer than 2^63 concurrent handlers (int64 counter)"]
RULE = ("s_sema: random legal schedules of the acquirer and releasers for cap 0..4, stepped at the yield points; s_serverstop: random "
        "scenarios (1-3 connections, MaxConcurrentStreams 1..4, with/without WaitForHandlers, with NumStreamWorkers 0/1/2/8 so that "
        "handlers are dispatched both to fresh goroutines and to busy/idle pooled workers) of dial/start/cancel/finish with 0-2 stop "
        "calls (GracefulStop, Stop, GracefulStop then Stop), biased to client cancellations so that handler slots are held by "
        "cancelled streams and new streams park in the quota; in 40% of the scenarios one connection is a hand-written HTTP/2 peer "
        "that ignores GOAWAY and keeps opening streams after GracefulStop (they must never reach a handler); every handler is finally told to return. Non-trivial: a case with at "
        "least one blocked acquire (s_sema) / a stop call or a cancelled RPC (s_serverstop).")


def sema_case(rng, cap, n, bias):
    """schedule for the atomicSemaphore: the single acquirer `a` and releasers r<i>; a releaser is
    only started when a held slot is not already being released (the code's usage: release is the
    deferred call of a handler that holds a slot). Mirrors the model to keep the schedule legal."""
    ops = ["new %d" % cap]
    apc, nn, held, at_yield, fresh = "idle", cap, 0, [], 0
    for _ in range(n):
        choices = []
        if apc != "parked":
            choices += ["a"] * bias
        if at_yield:
            choices += ["r-step"] * 2
        if len(at_yield) < held:
            choices += ["r-new"] * 2
        if apc == "parked" and rng.random() < 0.15:
            choices.append("a")       # stepping a blocked goroutine is a no-op
        if not choices:
            break
        ch = rng.choice(choices)
        if ch == "a":
            ops.append("step a")
            if apc == "idle":
                apc = "atAdd"
            elif apc == "atAdd":
                nn -= 1
                if nn < 0:
                    apc = "parked"
                else:
                    apc, held = "idle", held + 1
        elif ch == "r-new":
            fresh += 1
            name = "r%d" % fresh
            at_yield.append(name)
            ops.append("step " + name)
        else:
            name = at_yield.pop(rng.randrange(len(at_yield)))
            ops.append("step " + name)
            nn += 1
            held -= 1
            if nn <= 0 and apc == "parked":
                apc, held = "idle", held + 1
    return Case("s_sema", ops, "sema-cap%d" % cap)


class Sim:
    """mirror of the parts of GrpcModel.ServerStop the generator needs to keep scenarios inside the
    domain: which handlers run, which arrivals are parked/unread, the client's stream count"""

    def __init__(self, cap):
        self.cap = cap
        self.phase = "serving"
        self.conns = {}      # id -> dict(usable, fifo, blocked, cli_active, waiting)
        self.rpcs = {}       # id -> dict(conn, sent, cli, running, cancelled)
        self.run = []

    def running_on(self, c):
        return [r for r in self.run if self.rpcs[r]["conn"] == c]

    def pump(self, c):
        k = self.conns[c]
        while True:
            if k["blocked"] is not None:
                if len(self.running_on(c)) < self.cap:
                    r, k["blocked"] = k["blocked"], None
                    self.enter(r)
                    continue
                return
            if not k["fifo"]:
                return
            ev, r = k["fifo"].pop(0)
            if ev == "arrive":
                if len(self.running_on(c)) < self.cap:
                    self.enter(r)
                else:
                    k["blocked"] = r
                    return
            else:
                self.rpcs[r]["cancelled"] = True

    def enter(self, r):
        self.rpcs[r]["running"] = True
        self.run.append(r)

    def send(self, c, r):
        self.rpcs[r]["sent"] = True
        self.conns[c]["cli_active"] += 1
        self.conns[c]["fifo"].append(("arrive", r))
        self.pump(c)

    def wake(self, c):
        k = self.conns[c]
        if k["waiting"] and k["usable"] and k["cli_active"] < self.cap:
            self.send(c, k["waiting"].pop(0))

    def dial(self, c):
        self.conns[c] = dict(usable=self.phase == "serving", fifo=[], blocked=None, cli_active=0, waiting=[], raw=False,
                             alive=self.phase == "serving")

    def rawdial(self, c):
        self.conns[c] = dict(usable=False, fifo=[], blocked=None, cli_active=0, waiting=[], raw=True,
                             alive=self.phase == "serving")

    def rawstart(self, c, r):
        """a peer that ignores GOAWAY opens a stream: dispatched while serving, ignored once draining"""
        k = self.conns[c]
        self.rpcs[r] = dict(conn=c, sent=False, cli=None, running=False, cancelled=False, raw=True)
        if not k["alive"]:
            self.rpcs[r]["cli"] = 14
        elif self.phase == "serving":
            self.send(c, r)
        else:
            self.rpcs[r]["sent"] = True

    def start(self, c, r):
        k = self.conns[c]
        self.rpcs[r] = dict(conn=c, sent=False, cli=None, running=False, cancelled=False, raw=False)
        if not k["usable"]:
            self.rpcs[r]["cli"] = 14
        elif k["cli_active"] >= self.cap:
            k["waiting"].append(r)
        else:
            self.send(c, r)

    def cancel(self, r):
        x = self.rpcs[r]
        if x["cli"] is not None:
            return
        x["cli"] = 1
        k = self.conns[x["conn"]]
        if x["sent"]:
            k["cli_active"] -= 1
            k["fifo"].append(("reset", r))
            self.pump(x["conn"])
            self.wake(x["conn"])
        else:
            k["waiting"].remove(r)

    def finish(self, r, code):
        x = self.rpcs[r]
        self.run.remove(r)
        x["running"] = False
        if not x["cancelled"] and x["cli"] is None:
            x["cli"] = code
            self.conns[x["conn"]]["cli_active"] -= 1
        self.pump(x["conn"])
        self.wake(x["conn"])

    def any_blocked(self):
        return any(k["blocked"] is not None for k in self.conns.values())

    def any_waiting(self):
        return any(k["waiting"] for k in self.conns.values())

    def gstop(self):
        self.phase = "graceful"
        for k in self.conns.values():
            k["usable"] = False

    def stop(self):
        self.phase = "hard"
        for k in self.conns.values():
            k["usable"] = False
            k["fifo"] = []
            k["cli_active"] = 0
        for x in self.rpcs.values():
            if x["sent"]:
                x["cancelled"] = True
                if x["cli"] is None:
                    x["cli"] = 14


CODES = [0, 0, 0, 2, 5, 7, 13]


def stop_case(rng, n_ops, tag):
    """one scenario for s_serverstop. Kept inside the domain of the tie: GracefulStop is never
    called while a connection's reader is parked in the handler quota (the real transport then
    blocks its writer on a sync.Mutex held by the parked reader, which the synctest bubble cannot
    settle - see the report), no RPC waits for client stream quota while a stop is called, a handler
    is only told to finish while it runs."""
    cap = rng.choice([1, 1, 2, 2, 3, 4])
    wait = rng.random() < 0.25
    sim = Sim(cap)
    # grpc.NumStreamWorkers: handlers may run on pooled worker goroutines instead of fresh ones; the
    # per-connection limit must hold on both dispatch paths (k=1: the pool is usually busy, k=8: a
    # worker is always idle when a stream arrives)
    workers = rng.choice([0, 0, 0, 1, 2, 8])
    ops = ["serve %d%s%s" % (cap, " wait" if wait else "", " w%d" % workers if workers else "")]
    nconn = 0
    nrpc = 0
    stop_budget = rng.choice([0, 1, 1, 2])
    p_cancel = rng.choice([0.05, 0.25, 0.5])
    use_raw = rng.random() < 0.4
    for _ in range(n_ops):
        ch = []
        if nconn < 3:
            ch += ["dial"] * (3 if nconn == 0 else 1)
        if any(not v["raw"] for v in sim.conns.values()):
            ch += ["start"] * 6
        live = [r for r, x in sim.rpcs.items() if x["cli"] is None and not x["raw"]]
        raws = [c for c, k in sim.conns.items() if k["raw"]]
        if not raws and nconn < 3 and use_raw:
            ch += ["rawdial"] * 2
        # a raw peer may open streams while serving (within the limit: it has no client-side quota) and,
        # ignoring GOAWAY, after GracefulStop was called
        raw_ok = [c for c in raws if sim.phase == "graceful" or (sim.phase == "serving" and sim.conns[c]["cli_active"] < cap)]
        if raw_ok:
            ch += ["rawstart"] * (6 if sim.phase == "graceful" else 3)
        if live:
            ch += ["cancel"] * max(1, int(12 * p_cancel))
        if sim.run:
            ch += ["finish"] * 5
        if stop_budget and nrpc >= 2 and not sim.any_waiting():
            if sim.phase == "serving" and not sim.any_blocked():
                ch += ["gstop"]
            # Stop while a GracefulStop still waits for handlers: the two calls queue on Server.mu
            # (a sync.Mutex, which the bubble cannot settle) - only generated once no handler runs
            if sim.phase == "serving" or (sim.phase == "graceful" and not sim.run and not sim.any_blocked()):
                ch += ["stop"]
        c = rng.choice(ch)
        if c == "dial":
            nconn += 1
            sim.dial(nconn)
            ops.append("dial c%d" % nconn)
        elif c == "rawdial":
            nconn += 1
            sim.rawdial(nconn)
            ops.append("rawdial p%d" % nconn)
        elif c == "rawstart":
            conn = rng.choice(raw_ok)
            nrpc += 1
            sim.rawstart(conn, nrpc)
            ops.append("rawstart p%d r%d" % (conn, nrpc))
        elif c == "start":
            real = [k for k, v in sim.conns.items() if not v["raw"]]
            if not real:
                continue
            conn = rng.choice(real)
            k = sim.conns[conn]
            if k["usable"] and k["cli_active"] >= cap and (k["waiting"] or rng.random() < 0.7):
                continue            # at most one RPC waits for client-side stream quota
            nrpc += 1
            sim.start(conn, nrpc)
            ops.append("start c%d r%d" % (conn, nrpc))
        elif c == "cancel":
            r = rng.choice(live)
            sim.cancel(r)
            ops.append("cancel r%d" % r)
        elif c == "finish":
            r = rng.choice(sim.run)
            code = rng.choice(CODES)
            sim.finish(r, code)
            ops.append("finish r%d %d" % (r, code))
        elif c == "gstop":
            stop_budget -= 1
            sim.gstop()
            ops.append("gstop")
        else:
            stop_budget -= 1
            sim.stop()
            ops.append("stop")
    # drain: let every handler return so that the stop calls can complete
    for r in list(sim.run):
        pass
    guard = 0
    while sim.run and guard < 64:
        guard += 1
        r = sim.run[0]
        sim.finish(r, 0)
        ops.append("finish r%d 0" % r)
    return Case("s_serverstop", ops, tag)


def gen_sema(rng, tier):
    k = {"quick": 150, "thorough": 3000, "search": 1500}[tier]
    for i in range(k):
        cap = rng.choice([0, 1, 1, 2, 2, 3, 4])
        yield sema_case(rng, cap, rng.choice([12, 30, 60]), rng.choice([1, 2, 4]))


def raw_after_goaway_case(rng, tag):
    """directed: a peer that ignores GOAWAY has k streams in flight when GracefulStop is called (so its
    connection outlives the final GOAWAY), then opens more streams; optionally a grpc-go client next to it"""
    cap = rng.choice([1, 2, 3, 4])
    sim = Sim(cap)
    workers = rng.choice([0, 0, 2])
    ops = ["serve %d%s%s" % (cap, " wait" if rng.random() < 0.3 else "", " w%d" % workers if workers else "")]
    n = 0

    def rid():
        nonlocal n
        n += 1
        return n
    if rng.random() < 0.5:
        sim.dial(2)
        ops.append("dial c2")
        r = rid()
        sim.start(2, r)
        ops.append("start c2 r%d" % r)
    sim.rawdial(1)
    ops.append("rawdial p1")
    for _ in range(rng.randint(1, cap)):
        r = rid()
        sim.rawstart(1, r)
        ops.append("rawstart p1 r%d" % r)
    sim.gstop()
    ops.append("gstop")
    for _ in range(rng.randint(1, 3)):
        r = rid()
        sim.rawstart(1, r)
        ops.append("rawstart p1 r%d" % r)
        if sim.run and rng.random() < 0.4:
            f = rng.choice(sim.run)
            code = rng.choice(CODES)
            sim.finish(f, code)
            ops.append("finish r%d %d" % (f, code))
    while sim.run:
        f = sim.run[0]
        sim.finish(f, 0)
        ops.append("finish r%d 0" % f)
    r = rid()
    sim.rawstart(1, r)
    ops.append("rawstart p1 r%d" % r)
    return Case("s_serverstop", ops, tag)


def gen(rng, tier):
    yield from gen_sema(rng, tier)
    for i in range({"quick": 25, "thorough": 400, "search": 200}[tier]):
        yield raw_after_goaway_case(rng, "rawgoaway-%d" % i)
    k = {"quick": 250, "thorough": 5000, "search": 2500}[tier]
    for i in range(k):
        yield stop_case(rng, rng.choice([8, 14, 22, 30]), "stop-%d" % i)


def nontrivial(case, impl_lines):
    if case.component == "s_sema":
        return any(l.startswith("blocked") for l in impl_lines)
    return any(o in ("gstop", "stop") or o.startswith("cancel") for o in case.ops)
