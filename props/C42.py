"""C42 ADS requests carry correct versions, nonces and subscriptions."""
from vlib.core import Case

ID = "C42"
COMPONENTS = ["s_ads", "s_adsfan"]
T4 = []
PROOF_MODULES = ["GrpcProofs.Properties.C42", "GrpcProofs.Properties.C42Fan"]
THEOREMS = ["GrpcProofs.C42." + t for t in (
    "emit_node", "senderGo_spec", "subscribe_requests", "existingGo_spec", "new_stream_requests", "ack_spec", "nack_spec",
    "unknown_type_no_request", "read_sets_pending", "blocked_while_pending", "only_done_unblocks")] + [
    "GrpcProofs.C42Fan." + t for t in (
    "outstanding_counts_busy_watchers", "no_read_while_watcher_busy", "released_when_all_watchers_done",
    "one_done_of_several_does_not_release")]
DESIGN_REF = "DESIGN.md section 8, C42"
TECHNIQUE = ("Lean 4 theorems about each request-producing function of an event->quiescence model of adsStreamImpl (all states, hence all "
             "histories); T2 correspondence: the real adsStreamImpl (runner/send/recv goroutines, flow control) under testing/synctest with "
             "a scripted transport and channel, requests decoded from the wire; plus an invariant proof (induction over all watch/respond/done "
             "histories) about a counting model of the fan-out of one response over the authorities sharing an xdsChannel and their watchers, "
             "tied (T2, component s_adsfan) to the real XDSClient with 1-4 authorities on one channel and blocking watchers")
LEVEL_TEXT = ("Machine-checked proof that, in the model of the ADS stream, every request caused by a (un)subscription carries the type's last "
              "ACKed version, its latest nonce on the current stream and the names snapshot; that a new stream resets every nonce, keeps "
              "versions and re-requests exactly the subscribed names; that an ACK carries the accepted version/nonce, a NACK the previously "
              "accepted version, the rejected nonce and an error detail; that the node identity goes with exactly the first request of a "
              "stream; and that no response is read while the watchers' processing of the previous one is pending - both at the stream (the "
              "reader blocks until onDone) and across the fan-out: in every reachable state the stream's flow-control count equals the number "
              "of response `done`s still held by watchers of ANY authority sharing the channel, so the next Recv is not entered before the last "
              "of them returns it (and is entered once they all have). The models are replayed "
              "against the real goroutines on every run and the monitor re-derives version/nonce/NACK/names/node expectations from the "
              "implementation's own wire output.")
LEVEL_NOTE = ("Reading (DESIGN section 7): 'lists exactly the currently subscribed names' = the names snapshot taken when the request was "
              "queued (subscribe/unsubscribe) or the current set (ACK/NACK/new stream). Trusted: Lean kernel; synctest's notion of quiescence; "
              "protobuf (un)marshalling of DiscoveryRequest/Response; the fake transport/channel of the harness. Requests emitted within one "
              "quiescence step are compared as a sorted multiset (sendExisting ranges over a Go map). Watch-expiry timers are outside this model (C43).")
GAP = ("goroutine interleavings inside one quiescence step; real gRPC transport; watch expiry timers; in s_adsfan every response carries "
       "fresh content, watches are never cancelled and all authorities use the one top-level server (unwatch/fallback are C43/C44)")
ASSUMPTIONS = ["stream.Send fails only on a broken stream", "the backoff function is the constant 1s passed by the harness"]
RULE = ("s_adsfan: 27 directed cases (k=1..3 named authorities + top-level on one channel; the busy watcher in each authority in turn; the "
        "other authorities have no watcher for the response / a non-blocking one / a blocking one that finishes first; further responses "
        "queued behind; the busy watcher finishes last) + random histories of 6-30 ops (watch with blocking/non-blocking watchers, several "
        "per resource, same names under different authorities; responses naming resources of some/all/none of the authorities; dones in any "
        "order). s_ads: random histories (20-60 events) over two resource types + an unknown one: sub/unsub of 4 names, responses with fresh or repeated "
        "versions/nonces and verdict ack/nack/unsup, watcher-done, stream break, transport up/down, sleeps around the 1 s backoff; biased so "
        "that responses queue up behind pending flow control and streams restart with and without a received message. Non-trivial: at least "
        "3 requests incl. an ACK or NACK; distinct = distinct op list")

NAMES = ["x", "y", "z", "w"]


def gen_case(rng, ln):
    ops = []
    if rng.random() < 0.8:
        ops.append("up")
    ver = 0
    for _ in range(ln):
        r = rng.random()
        t = rng.choice(["A", "A", "B"])
        if r < 0.22:
            ops.append("sub %s %s" % (t, rng.choice(NAMES)))
        elif r < 0.32:
            ops.append("unsub %s %s" % (t, rng.choice(NAMES)))
        elif r < 0.62:
            ver += 1
            tt = t if rng.random() < 0.9 else "X"
            verdict = rng.choice(["ack", "ack", "ack", "nack", "nack", "unsup"]) if tt != "X" else rng.choice(["unsup", "ack"])
            names = "+".join(sorted(rng.sample(NAMES, rng.randrange(0, 3)))) or "-"
            v = "v%d" % (ver if rng.random() < 0.85 else max(1, ver - 1))
            ops.append("recv %s %s n%d %s %s" % (tt, v, ver, verdict, names))
        elif r < 0.80:
            ops.append("done")
        elif r < 0.87:
            ops.append("break")
        elif r < 0.90:
            ops.append(rng.choice(["down", "up", "up"]))
        else:
            ops.append("sleep %d" % rng.choice([1, 500, 999, 1000, 1001, 2500]))
    ops += ["up", "sleep 1000", "done", "done", "done", "sub A x"]
    return ops


def directed(rng):
    """windows the random walk rarely reaches: a type that has NO subscription when the stream restarts, then comes
    back; ACK/NACK right after a restart; a response for a type that was never subscribed; restart while blocked."""
    t, o = rng.choice([("A", "B"), ("B", "A")])
    n1, n2 = rng.sample(NAMES, 2)
    pre = ["up", "sleep 1000", "sub %s %s" % (o, n2), "sub %s %s" % (t, n1), "recv %s v1 n1 ack %s" % (t, n1), "done"]
    yield pre + ["unsub %s %s" % (t, n1), "break", "sleep 1000", "sub %s %s" % (t, n1), "recv %s v2 n2 ack %s" % (t, n1), "done"]
    yield pre + ["unsub %s %s" % (t, n1), "recv %s v2 n2 ack -" % o, "done", "break", "sub %s %s" % (t, n2), "sleep 1000"]
    yield pre + ["recv %s v2 n2 nack %s" % (t, n1), "break", "done", "sleep 1000", "recv %s v3 n3 ack %s" % (t, n1), "done"]
    yield pre + ["down", "break", "sleep 3000", "unsub %s %s" % (t, n1), "up", "sleep 1000", "sub %s %s" % (t, n1)]
    yield ["up", "sleep 1000", "recv %s v1 n1 ack -" % t, "sub %s %s" % (t, n1), "done", "recv %s v2 n2 ack %s" % (t, n1)]
    yield pre + ["recv %s v2 n2 ack %s" % (t, n1), "recv %s v3 n3 nack %s" % (t, n1), "break", "done", "done", "sleep 1000"]


FNAMES = ["x", "y", "z"]


def fan_case(rng, ln):
    """the fan-out of one response over several authorities that share the xdsChannel: k named authorities + the top-level
    one, blocking and non-blocking watchers (several per resource, same names under different authorities), responses that
    name resources of some / all / none of the authorities, `done`s in any order, responses queued behind a busy watcher."""
    k = rng.choice([0, 1, 1, 2, 3])
    ops = ["cfg %d" % k]
    wid = 0
    watchers = []   # (wid, auth, name, blocking)
    held = {}       # wid -> number of dones it may hold (upper bound; `done` on an empty holder prints nopend on both sides)
    for _ in range(ln):
        r = rng.random()
        if r < 0.30 or not watchers:
            wid += 1
            a, n, b = rng.randrange(0, k + 1), rng.choice(FNAMES), rng.random() < 0.6
            ops.append("watch %d %s %d %s" % (a, n, wid, "b" if b else "n"))
            watchers.append((wid, a, n, b))
            held[wid] = held.get(wid, 0) + 1
        elif r < 0.62:
            pool = sorted({(a, n) for (_, a, n, _) in watchers})
            extra = [(rng.randrange(0, k + 1), rng.choice(FNAMES))]
            pick = [x for x in pool if rng.random() < 0.5] + (extra if rng.random() < 0.3 else [])
            ops.append("respond " + (",".join("%d.%s" % x for x in sorted(set(pick))) or "-"))
            for (w, a, n, b) in watchers:
                if b and (a, n) in pick:
                    held[w] = held.get(w, 0) + 1
        else:
            blocking = [w for (w, _, _, b) in watchers if b]
            if blocking:
                ops.append("done %d" % rng.choice(blocking))
            else:
                ops.append("respond -")
    return ops


def fan_directed():
    """one authority answers at once (no watcher for the response's resources, or a non-blocking one) while a watcher of
    another authority is still busy; then more responses; then the busy watcher finishes"""
    for k in (1, 2, 3):
        for busy in range(0, k + 1):
            for other in ("none", "n", "b-done"):
                ops = ["cfg %d" % k]
                wid = 1
                ops.append("watch %d x %d b" % (busy, wid))
                for a in range(0, k + 1):
                    if a == busy:
                        continue
                    wid += 1
                    ops.append("watch %d %s %d %s" % (a, "y" if other == "none" else "x", wid, "n" if other != "b-done" else "b"))
                allx = ",".join("%d.x" % a for a in range(0, k + 1))
                ops.append("respond " + allx)
                if other == "b-done":
                    for w in range(2, wid + 1):
                        ops.append("done %d" % w)
                ops += ["respond " + allx, "respond -", "done 1", "done 1", "respond %d.x" % busy, "done 1"]
                yield ops


def gen(rng, tier):
    for i, ops in enumerate(fan_directed()):
        yield Case("s_adsfan", ops, "fan-directed-%d" % i)
    nf, lf = {"quick": (150, 30), "thorough": (4000, 60), "search": (2000, 40)}[tier]
    for i in range(nf):
        yield Case("s_adsfan", fan_case(rng, rng.randrange(6, lf)), "fan-%d" % i)
    for k in range({"quick": 6, "thorough": 60, "search": 40}[tier]):
        for i, ops in enumerate(directed(rng)):
            yield Case("s_ads", ops + gen_case(rng, rng.randrange(0, 8)), "directed-%d-%d" % (k, i))
    n, ln = {"quick": (300, 35), "thorough": (8000, 60), "search": (4000, 50)}[tier]
    for i in range(n):
        yield Case("s_ads", gen_case(rng, rng.randrange(8, ln)), "ads-%d" % i)


def nontrivial(case, impl):
    if case.component == "s_adsfan":
        return any("pend=" in l and "pend=-" not in l for l in impl) and any("recv=2" in l or "recv=3" in l for l in impl)
    reqs = [l for l in impl if "reqs=" in l and "reqs=-" not in l]
    return len(reqs) >= 3 and any("|v" in l for l in reqs)
