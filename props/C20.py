"""C20 Connection backoff stays within the documented bounds."""
import struct
from vlib.core import Case

ID = "C20"
COMPONENTS = ["backoff", "s_backoff"]
T4 = ["Backoff"]
PROOF_MODULES = ["GrpcProofs.Properties.C20"]
THEOREMS = ["GrpcProofs.C20." + t for t in (
    "retries0_is_base", "nonneg", "band", "saturates", "grow_is_min",
    "waits_at_least_backoff_unless_reset", "idx_counts_failures_since_success_or_reset",
    "idx_resets_on_success", "idx_resets_on_reset")]
DESIGN_REF = "DESIGN.md section 8, C20"
TECHNIQUE = ("Lean 4 theorems over Q (Mathlib linarith/positivity) for the backoff value, induction over event sequences for the "
             "addrConn pacing; T1 differential + interval monitor on Exponential.Backoff; T2 synctest run of a real ClientConn "
             "with a scripted dialer and a recording backoff strategy; T4 minConnectTimeout")
LEVEL_TEXT = ("Machine-checked proof, for every configuration, retry count and random draw, that the real-number reading of "
              "Exponential.Backoff (with the saturating conversion the code performs since fix 8a2d107, finding F1) is non-negative, "
              "equals the base delay for 0 retries and lies in the "
              "[(1-j),(1+j)] x min(base*mult^n, max) band (truncated, saturating at MaxInt64). For every sequence of connect/fail/success/timer/reset/connection-lost/address-update events the "
              "addrConn pacing model never redials before failure time + backoff unless reset, and its index is the number of failures "
              "since the last success or reset.")
LEVEL_NOTE = ("Reading: BaseDelay, MaxDelay >= 0 and finite Multiplier/Jitter (Backoff(0) returns a negative BaseDelay as is; Inf/NaN "
              "multipliers are not generated). The code computes in float64, the theorems are over Q: the monitor applies the band with the "
              "rigorous float64 rounding bound (n+16)*2^-52 relative, nothing on non-negativity or on Backoff(0). 'waits at least that "
              "backoff' is measured from the failure of the attempt to the next dial, 'that backoff' being the value the strategy returned "
              "for the failed attempt (recorded by a wrapper around the real Exponential). SubConn.UpdateAddresses is part of the model (a running backoff "
              "is not cut short by a new address list; a dial in flight or a READY connection to a dropped address restarts at once) and is "
              "driven through a one-subchannel LB policy of the harness, since pick_first never calls it. Trusted: Lean kernel, the hand model, "
              "synctest virtual time, pick_first / the harness policy reconnecting on IDLE (modelled in the environment part of the model).")
GAP = "IEEE-754 rounding (bounded, not modelled), the Go runtime timer implementation, multiple addresses per subchannel"
ASSUMPTIONS = ["time.Duration is int64 nanoseconds", "float64 operations are correctly rounded (error <= 2^-53 relative each)",
               "time.Timer never fires early", "amd64 float64->int64 conversion of out-of-range values gives MinInt64"]
RULE = ("backoff: grid of base/max (0, 1, ms..s, 2^53+-1, 2^62, MaxInt64) x multiplier (0.5..1e300) x jitter (0..5) x retries (0..1e5), "
        "each op = min/max of k real calls; exact-arithmetic configs are compared value for value. s_backoff: random scripts of "
        "connect/sleep/resetbo/kill/mode(fail|ok|hang)/addrs (SubConn.UpdateAddresses from a one-subchannel LB policy, in every "
        "subchannel state, plus a directed family) over configs with dyadic and non-dyadic multipliers, jitter 0..0.9; sleeps are "
        "biased to land exactly on, just before and just after timer expiry. A case is non-trivial if it has at least two backoff calls.")


def fb(x):
    return struct.unpack("<Q", struct.pack("<d", x))[0]


MAXI = 2**63 - 1
BASES = [0, 1, 1000, 10**6, 10**9, 120 * 10**9, 2**53 - 1, 2**53 + 1, 2**62, MAXI - 1, MAXI]
MULTS = [1.0, 1.6, 2.0, 3.0, 1.0000001, 10.0, 1e6, 1e300, 0.5, 0.0, 0.999]
JITS = [0.0, 0.2, 0.5, 1.0, 1e-9, 1.5, 5.0]
RETR = [0, 1, 2, 3, 5, 10, 64, 1000]


def bo(base, mult, jit, mx, retries, k):
    return "bo %d %d %d %d %d %d" % (base, fb(mult), fb(jit), mx, retries, k)


def gen_backoff(rng, tier):
    ops = []
    k = {"quick": 8, "thorough": 64, "search": 32}[tier]
    # F1 witnesses first (DESIGN.md section 7; repaired by /repo 8a2d107): must saturate at MaxInt64
    ops.append(bo(10**9, 1e6, 0.2, MAXI, 5, 64))
    ops.append(bo(MAXI, 1.0, 0.0, MAXI, 1, 1))
    # default config, every index the subchannel can reach
    for n in range(0, 40):
        ops.append(bo(10**9, 1.6, 0.2, 120 * 10**9, n, 4 * k))
    grid = [(b, m, j, x) for b in BASES for m in MULTS for j in JITS for x in BASES]
    if tier == "quick":
        grid = rng.sample(grid, 900)
    for (b, m, j, x) in grid:
        n = rng.choice(RETR)
        ops.append(bo(b, m, j, x, n, 1 if n == 0 else k))
    n_rand = {"quick": 1800, "thorough": 60000, "search": 30000}[tier]
    for _ in range(n_rand):
        b = rng.choice([rng.randrange(0, 2**rng.randrange(1, 64)), rng.choice(BASES)])
        x = rng.choice([rng.randrange(0, 2**rng.randrange(1, 64)), rng.choice(BASES), b])
        m = rng.choice([rng.choice(MULTS), 1 + rng.random() * rng.choice([1e-6, 1, 10]), float(rng.randrange(1, 8)), rng.random() * 2])
        j = rng.choice([rng.choice(JITS), rng.random(), rng.random() * 3])
        n = rng.choice([rng.choice(RETR), rng.randrange(0, 80), rng.randrange(-3, 3), 7])
        if rng.random() < 0.01:
            n, m = 10**5, rng.choice([1.0, 1.6, 2.0])   # long loop only where it stays cheap for the rational model
        ops.append(bo(b, m, j, x, n, 1 if n == 0 else k))
    chunk = 4000
    for i in range(0, len(ops), chunk):
        yield Case("backoff", ops[i:i + chunk], "backoff-batch-%d" % (i // chunk))


def gen_pacing(rng, tier):
    n_cases = {"quick": 60, "thorough": 1500, "search": 600}[tier]
    MS = 10**6
    for ci in range(n_cases):
        lb = False
        if rng.random() < 0.1:
            base, mult, jit, mx = 10**9, 1.6, 0.2, 120 * 10**9
            ops = ["newdef"]
            minct = 20 * 10**9
        else:
            base = rng.choice([1, 10, 100, 1000, 2500]) * MS
            mult = rng.choice([1.0, 1.5, 2.0, 2.0, 3.0, 1.6, 1.25, 1.0000001])
            jit = rng.choice([0.0, 0.0, 0.2, 0.5, 0.9])
            mx = rng.choice([base, base * 4, base * 10, 120 * 10**9, base // 2])
            minct = rng.choice([0, base // 2, base * 3, base * 7])
            # half of the channels use the harness's one-subchannel policy, whose subchannel can be given a new
            # address list (SubConn.UpdateAddresses, what grpclb does) at any moment
            lb = rng.random() < 0.5
            ops = ["%s %d %d %d %d %d" % ("newlb" if lb else "new", base, fb(mult), fb(jit), mx, minct)]
        if rng.random() < 0.3:
            ops.append("mode " + rng.choice(["fail", "ok", "hang"]))
        ops.append("connect")
        # expected next timer distance (jitter-free estimate) to aim sleeps at the boundary
        est = base
        for _ in range(rng.randrange(3, 25)):
            r = rng.random()
            if r < 0.55:
                c = rng.random()
                if c < 0.35:
                    d = est
                elif c < 0.5:
                    d = max(1, est - 1)
                elif c < 0.65:
                    d = est + 1
                elif c < 0.8:
                    d = max(1, int(est * rng.random()))
                else:
                    d = int(est * rng.choice([2, 3.5, 8])) + minct
                ops.append("sleep %d" % d)
                est = min(max(int(est * max(mult, 1)), 1), max(mx, base))
            elif r < 0.7:
                ops.append("resetbo")
                est = base
            elif r < 0.85:
                ops.append("mode " + rng.choice(["fail", "fail", "ok", "hang"]))
            elif r < 0.93:
                ops.append("kill")
                ops.append("connect")
                est = base
            else:
                ops.append("connect")
            if lb and rng.random() < 0.3:
                # a new (mostly different) address list, in whatever state the subchannel is in; often followed
                # by a sleep shorter than the running backoff
                ops.append("addrs %d" % rng.randrange(3))
                if rng.random() < 0.6:
                    ops.append("sleep %d" % max(1, int(est * rng.choice([0.1, 0.5, 0.9]))))
        yield Case("s_backoff", ops, "pacing-%d" % ci)
    # directed: an address update in each subchannel state (backoff running, dial in flight, READY, IDLE)
    k = 0
    for base, mult in ((1000 * MS, 2.0), (10 * MS, 1.5)):
        for mode in ("fail", "hang", "ok"):
            for frac in (0.0, 0.25, 0.9):
                ops = ["newlb %d %d %d %d %d" % (base, fb(mult), fb(0.0), base * 8, base * 3), "mode " + mode, "connect"]
                if frac:
                    ops.append("sleep %d" % int(base * frac))
                ops += ["addrs 1", "sleep %d" % (base // 2), "addrs 1", "addrs 2", "sleep %d" % (base * 4), "mode fail",
                        "addrs 0", "sleep %d" % (base // 3), "addrs 1", "sleep %d" % (base * 6), "kill", "addrs 2", "connect", "sleep %d" % base]
                yield Case("s_backoff", ops, "addrs-directed-%d" % k)
                k += 1


def gen(rng, tier):
    yield from gen_backoff(rng, tier)
    yield from gen_pacing(rng, tier)


def nontrivial(case, impl_lines):
    if case.component == "backoff":
        return any(o.split()[5] != "0" for o in case.ops)
    return sum(l.count(":bo:") for l in impl_lines) >= 2
