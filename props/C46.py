"""C46 xDS routing selects the right virtual host, route and cluster."""
from vlib.core import Case

ID = "C46"
COMPONENTS = ["routing"]
T4 = ["Routing"]
PROOF_MODULES = ["GrpcProofs.Properties.C46"]
THEOREMS = ["GrpcProofs.C46." + t for t in (
    "domain_rank_order", "domain_match_spec", "best_vhost_invalid", "best_vhost_spec", "better_spec",
    "best_vhost_eq_monitor", "first_matching_route", "first_matching_route_first", "route_match_spec",
    "fraction_count_as_is_partial", "fraction_exact_counterexample", "fraction_exact_after_fix",
    "cluster_in_proportion", "cluster_count", "hash_depends_only_on_policy_inputs", "hash_eq_monitor_projection",
    "hash_examples", "hash_terminal_cuts", "select_config_spec")]
DESIGN_REF = "DESIGN.md section 8, C46"
TECHNIQUE = ("Lean 4 theorems (loop invariant of FindBestMatchingVirtualHost + uniqueness of the first maximal match, findIdx? "
             "characterisation of the route loop with an explicit random source, counting lemmas over List.range for the runtime fraction "
             "and the random WRR, congruence of the hash fold) + T1 differential correspondence on the real FindBestMatchingVirtualHost, "
             "RouteToMatcher, newConfigSelector and SelectConfig with both random sources scripted + T4 (domainMatchType order, source "
             "text of fractionMatcher.match)")
LEVEL_TEXT = ("Machine-checked Lean proof, for every route configuration, RPC and value of the random source, that the ported code picks "
              "the owner of the first best-matching domain (exact > suffix > prefix > wildcard, longer first; malformed domain => none), "
              "the first route whose path, header and fraction matchers match, a cluster in exact proportion to the weights over all draws, "
              "and a request hash that is a function of the hash-policy inputs only; the runtime-fraction clause is proved FALSE of the "
              "unchanged code (f+1 of 10^6 draws match, 0 matches t=0: known finding F2) and true after the one-character fix.")
LEVEL_NOTE = ("Readings: 'best matches' = the first domain, in configuration order, among the matching ones that no matching domain beats "
              "(ties keep the earlier one, as the code's >= does); 'in proportion' = count_i * sum(w) = w_i * #draws over all draws of the WRR's "
              "source (the equal-weights fast path draws below len, not sum); 'depends only on' = non-interference: equal policy inputs => equal "
              "hash, and the monitor recomputes the hash from the projection of the RPC onto the policy inputs. Trusted: Lean kernel; hand model "
              "lean/GrpcModel/Model/Routing.lean tied by the differential run; xxhash64 is a parameter of the theorems (a Lean reference "
              "implementation is diffed against the real one through SelectConfig). The fraction comparison used by the model (<= as is, or <) is "
              "selected from the regenerated source text of fractionMatcher.match, so the check stays meaningful after the fix; the monitor "
              "always demands t < f.")
GAP = ("hash policies with a regex rewrite (modelled as absent), HTTP filter interceptors / ref-counting in SelectConfig, retry and timeout "
       "fields of the returned config; rand.Uint64() fallback observed only as 'two runs differ'")
ASSUMPTIONS = ["math/rand Int64N(n) is uniform on [0,n) (the theorems count draws)", "weights are uint32, so accumulated weights are non-decreasing (sort.Search = first index)",
               "metadata keys are lower-case ASCII (metadata.MD contract)"]
RULE = ("vhost: hosts over a 4-label vocabulary against 1-4 virtual hosts whose domains are derived from the host (exact, every suffix/prefix "
        "pattern, '*', near misses, equal-length ties, malformed '', 'a*b'); exhaustive over all ordered triples of an 8-pattern pool. frac: "
        "(f,t) at t in {0,f-1,f,f+1,999999} for f in {0,1,2,..,10^6,10^6+1,2^32-1}; fraccount: all 10^6 draws enumerated on the real matcher; "
        "wrrcount: every draw of the real WRR through SelectConfig for weight vectors of 1-6 clusters; select: 1-4 routes with path/header/"
        "fraction matchers, weighted clusters or plugin, header/channel-id hash policies (terminal, -bin, absent header, extra metadata), "
        "scripted draws (never equal to a configured fraction: that boundary is probed by frac). Non-trivial: every op except unmatched select/vhost.")

UNIT = "op"


def nontrivial_op(op, out):
    return out not in ("none", "err=nomatch")


def hx(bs):
    if isinstance(bs, str):
        bs = bs.encode()
    return "".join("%02x" % b for b in bs) or "-"


MILLION = 10**6
LABELS = ["a", "bc", "foo", "x1"]


def suspect(op):
    f = op.split(" ")
    if f[0] == "frac":
        return f[1] == f[2]
    return f[0] == "fraccount"


def rand_host(rng):
    return ".".join(rng.choice(LABELS) for _ in range(rng.choice([1, 2, 2, 3])))


def patterns_for(rng, host):
    """domain patterns related to the host: most match, some nearly."""
    out = [host, "*"]
    for k in range(0, len(host) + 1):
        out.append("*" + host[k:])
        out.append(host[:k] + "*")
    out += [host + "x", "x" + host, host[:-1], "*x" + host, host + "x*", "*" + host + "x", host.upper()]
    return out


def vh_text(vhs):
    if not vhs:
        return "_"
    return "|".join(",".join(hx(d) for d in vh) if vh else "~" for vh in vhs)


def gen_vhost(rng, n, ops):
    pool = ["a.bc", "*.bc", "*bc", "a.*", "a*", "*", "a.b*", "*a.bc"]
    host = "a.bc"
    for x in pool:
        for y in pool:
            ops.append("vhost %s %s" % (hx(host), vh_text([[x], [y]])))
            ops.append("vhost %s %s" % (hx(host), vh_text([[x, y]])))
            for z in pool[:5]:
                ops.append("vhost %s %s" % (hx(host), vh_text([[x], [y, z]])))
    for bad in ["", "a*b", "*a*", "a**", "**"]:
        ops.append("vhost %s %s" % (hx(host), vh_text([["a.bc"], [bad]])))
        ops.append("vhost %s %s" % (hx(host), vh_text([[bad], ["a.bc"]])))
        ops.append("vhost %s %s" % (hx("a*"), vh_text([[bad, "*"]])))
    ops.append("vhost %s _" % hx(host))
    ops.append("vhost %s ~" % hx(host))
    ops.append("vhost - %s" % vh_text([["*"], [""]]))
    ops.append("vhost - %s" % vh_text([["*"]]))
    for _ in range(n):
        host = rand_host(rng)
        pats = patterns_for(rng, host)
        vhs = []
        for _ in range(rng.choice([1, 2, 2, 3, 4])):
            vh = []
            for _ in range(rng.choice([0, 1, 1, 2, 3])):
                r = rng.random()
                if r < 0.8:
                    vh.append(rng.choice(pats))
                elif r < 0.95:
                    vh.append(rng.choice(patterns_for(rng, rand_host(rng))))
                else:
                    vh.append(rng.choice(["", "a*b", "*.*.c", "f*o"]))
            vhs.append(vh)
        ops.append("vhost %s %s" % (hx(host), vh_text(vhs)))


METHODS = ["/s/m", "/s/other", "/svc.T/Get", "/S/M", "/x"]
HKEYS = ["k", "user", "x-bin", "content-type", "tag"]
HVALS = ["v", "v1", "7", "42", "", "a,b"]


def rand_md(rng, allow_empty=True):
    ents = []
    keys = list(HKEYS)
    rng.shuffle(keys)
    for k in keys[:rng.choice([0, 1, 1, 2, 3])]:
        vs = [rng.choice(HVALS) for _ in range(rng.choice([1, 1, 2]))]
        ents.append(hx(k) + ":" + ",".join(hx(v) for v in vs))
    return ";".join(ents) if ents else "_"


def rand_route(rng, fractions, method):
    m = method if rng.random() < 0.75 else rng.choice(METHODS)
    r = rng.random()
    if r < 0.35:
        path = "p0:" + hx(m[:rng.randrange(0, len(m) + 1)])
    elif r < 0.5:
        path = "p1:" + hx(m[:rng.randrange(0, len(m) + 1)].upper())
    elif r < 0.8:
        path = "e0:" + hx(m)
    else:
        path = "e1:" + hx(m.swapcase())
    hdrs = []
    for _ in range(rng.choice([0, 0, 0, 1, 1, 2])):
        k = rng.choice(HKEYS)
        inv = rng.choice("01")
        t = rng.random()
        if t < 0.35:
            hdrs.append("se:%s:%s:%s" % (hx(k), hx(rng.choice(HVALS + ["v,v1", "v1,v"])), inv))
        elif t < 0.55:
            hdrs.append("sp:%s:%s:%s" % (hx(k), hx(rng.choice(["v", "4", "a,"])), inv))
        elif t < 0.8:
            hdrs.append("pr:%s:%s:%s" % (hx(k), rng.choice("01"), inv))
        else:
            hdrs.append("rg:%s:%d:%d:%s" % (hx(k), rng.choice([0, 7, 42, -5]), rng.choice([7, 8, 43, 100]), inv))
    frac = "-"
    if rng.random() < 0.45:
        f = rng.choice([0, 1, 2, 500000, 999999, MILLION, MILLION + 1, 2**32 - 1, rng.randrange(0, MILLION)])
        fractions.add(f)
        frac = str(f)
    action = "r" if rng.random() < 0.9 else "u"
    c = rng.random()
    if c < 0.08:
        clusters = "~"
    elif c < 0.2:
        clusters = "csp:" + hx(rng.choice(["plug", "p2"]))
    else:
        n = rng.choice([1, 2, 2, 3, 4])
        if rng.random() < 0.3:
            w = rng.randrange(1, 6)
            ws = [w] * n
        else:
            ws = [rng.randrange(1, 10) for _ in range(n)]
        clusters = ",".join("%s:%d" % (hx("c%d" % j), w) for j, w in enumerate(ws))
    pols = []
    for _ in range(rng.choice([0, 0, 1, 1, 2, 3])):
        if rng.random() < 0.7:
            pols.append("h:%s:%s" % (hx(rng.choice(HKEYS + ["K", "absent", "Tag"])), rng.choice("001")))
        else:
            pols.append("c:%s" % rng.choice("001"))
    return "/".join([path, "+".join(hdrs) or "~", frac, action, clusters, "+".join(pols) or "~"])


def gen_select(rng, n, ops):
    for _ in range(n):
        fractions = set()
        method = rng.choice(METHODS)
        routes = [rand_route(rng, fractions, method) for _ in range(rng.choice([1, 2, 2, 3, 4]))]
        draws = []
        for _ in routes:
            while True:
                t = rng.choice([0, 1, 2, 3, 499999, 500001, 999998, 999999, rng.randrange(0, MILLION)])
                if t not in fractions:      # the t == f boundary is F2: probed by `frac`, kept out of `select`
                    break
            draws.append(t)
        emd = "none" if rng.random() < 0.5 else rand_md(rng)
        ops.append("select %d %s %s %s %s %d %s" % (
            rng.choice([0, 1, 77, 2**64 - 1, rng.randrange(2**64)]), hx(method), rand_md(rng), emd,
            ",".join(map(str, draws)), rng.randrange(0, 2**40), " ".join(routes)))


def gen(rng, tier):
    n = {"quick": 3000, "thorough": 40000, "search": 20000}[tier]
    ops = []
    gen_vhost(rng, n, ops)
    fs = [0, 1, 2, 3, 17, 499999, 500000, 999998, 999999, MILLION, MILLION + 1, 2**31, 2**32 - 1]
    for f in fs + [rng.randrange(0, MILLION) for _ in range(n // 50)]:
        for t in (0, 1, f - 1, f, f + 1, 999999, rng.randrange(0, MILLION)):
            if 0 <= t < MILLION:
                ops.append("frac %d %d" % (f, t))
    counts = {"quick": [0, 1, 999999, MILLION, 2**32 - 1], "thorough": [0, 1, 2, 250000, 999998, 999999, MILLION, MILLION + 1, 2**32 - 1, rng.randrange(MILLION)],
              "search": [0, 1, 999999, MILLION]}[tier]
    for f in counts:
        ops.append("fraccount %d" % f)
    for ws in ([1], [1, 1], [1, 2], [2, 1], [1, 2, 3], [3, 3, 3], [5, 1, 1, 1], [0, 3], [2, 0, 2], [7], [1, 1, 1, 1, 1, 1], [9, 8, 7, 6, 5, 4]):
        ops.append("wrrcount " + ",".join(map(str, ws)))
    for _ in range(n // 25):
        k = rng.choice([1, 2, 2, 3, 4, 5, 6])
        ws = [rng.randrange(1, 5)] * k if rng.random() < 0.3 else [rng.randrange(0 if rng.random() < 0.1 else 1, 12) for _ in range(k)]
        if sum(ws) > 0:
            ops.append("wrrcount " + ",".join(map(str, ws)))
    gen_select(rng, n * 2, ops)
    seen = set()
    uniq = [o for o in ops if not (o in seen or seen.add(o))]
    plain = [o for o in uniq if not suspect(o)]
    single = [o for o in uniq if suspect(o)]
    chunk = 3000
    for i in range(0, len(plain), chunk):
        yield Case("routing", plain[i:i + chunk], "routing-batch-%d" % (i // chunk))
    # ops on the F2 boundary (a known finding on the unchanged tree) travel alone so that they cannot mask anything
    for o in single:
        yield Case("routing", [o], "routing-single")
