"""C45 xDS resource parsing is total and accepted resources satisfy invariants (partial)."""
from vlib.core import Case

ID = "C45"
COMPONENTS = ["xdsparse"]
T4 = []
PROOF_MODULES = ["GrpcProofs.Properties.C45"]
THEOREMS = ["GrpcProofs.C45." + t for t in (
    "eds_accept_implies_inv", "eds_priorities_contiguous", "eds_update_reflects_input",
    "rds_weighted_clusters_positive_total")]
DESIGN_REF = "DESIGN.md section 8, C45"
TECHNIQUE = ("Lean 4 port of parseEDSRespProto/parseEndpoints/parseDropPolicy on a mirror of the ClusterLoadAssignment proto + "
             "fold-invariant proof that every accepted update satisfies the EDS invariants; T1 differential tie on real v3 protos "
             "built from the op line (accept/reject class and canonical dump diffed, each input parsed twice); RDS/CDS/LDS: "
             "acceptance invariants as executable Lean predicates evaluated on the dump of every update the real validators accept, "
             "on structurally valid generated protos and on byte-mutated ones")
LEVEL_TEXT = ("Machine-checked proof, for every ClusterLoadAssignment (any number of localities/endpoints, any uint32 field values, any "
              "env switches), that an update accepted by the model of the EDS parser has priorities contiguous from 0, no repeated "
              "address, no repeated (locality, priority), non-zero locality and endpoint weights, per-priority and per-locality weight "
              "sums within uint32 and supported drop denominators; and that accepted RDS weighted clusters have positive total weight "
              "within uint32. The model is diffed against the real unmarshalEndpointsResource on every run; the same invariant "
              "predicates are evaluated on everything the real EDS/RDS/CDS/LDS validators accept.")
LEVEL_NOTE = ("PARTIAL: only the EDS parser and the RDS weighted-cluster branch are modelled and proved; RDS route validation, CDS and LDS "
              "validators are exercised on the real code only through no-panic / determinism / invariant monitors (2 000+ lines of field "
              "validation are not ported). 'Never panics' and 'same answer every time' are runtime facts observed on the generated inputs "
              "(every input parsed twice; harness calls the unmarshal functions directly, i.e. without the channel's panic recovery); "
              "protobuf decoding itself (proto.Unmarshal) is trusted. Metadata conversion is abstracted to 'fails / does not fail'. "
              "Reading of 'every accepted route has a supported action': the code deliberately keeps routes whose action is neither "
              "`route` nor `non_forwarding_action` as ActionType=RouteActionUnsupported (gRFC A36: such a route fails the RPCs it matches); "
              "the monitor therefore demands: action type is one of the three kinds and a forwarding action has a plugin or clusters "
              "of positive total weight. LocalityString (%q of three strings) is taken to be injective. CDS invariants monitored on every "
              "accepted ClusterUpdate include: LB policy JSON parses in the LB registry, and a ring_hash policy has minRingSize <= "
              "maxRingSize <= 8388608 (finding F35, a legacy RING_HASH cluster with out-of-bounds sizes was accepted, is fixed in /repo "
              "by e491411; reverting it makes the check fail again). The ring sizes are judged as the ring_hash parser reads them (0 = "
              "unset: min 1024, max 4096): the residual F35b — an explicit minimum_ring_size 0 with maximum_ring_size < 1024 was "
              "accepted and later rejected by the parser — is fixed in /repo by db88f2a; the whole grid of unset / explicit boundary ring "
              "sizes (144 combinations) is run in every tier, and on a tree without either fix the quick tier reports the violation.")
GAP = "CDS/LDS/RDS-route validators not modelled; proto.Unmarshal trusted; no-panic is observed, not proved"
ASSUMPTIONS = ["proto uint32 fields are < 2^32 (typing hypothesis of the theorem)", "fmt %q is injective on strings",
               "net.JoinHostPort brackets exactly the hosts containing ':'"]
RULE = ("eds: random ClusterLoadAssignments over small pools of locality ids / addresses / priorities (so that duplicates and gaps "
        "occur), boundary weights around 2^32, all env switches, nil sub-messages, metadata variants; directed cases per error branch; "
        "raw: random bytes and truncated/bit-flipped encodings as the Any value of each resource type; "
        "gen: seeded structurally valid RouteConfiguration/Cluster/Listener protos with 0..3 byte mutations; wc: weight lists around "
        "2^32. One op per line; non-trivial = every op except `err proto`; distinct = distinct op text")

M32 = 2**32 - 1


def hx(s):
    return s.encode().hex() or "-"


HOSTS = ["a", "b", "10.0.0.1", "::1", "", "h.example.com", "[::1]"]
REG = ["r", "r2", "", "re\"g"]


def gen_endpoint(rng, boundary):
    w = rng.choice(["-", "-", "1", "2", "3", "0", "7"] + (["2147483648", str(M32), str(M32 - 1), "4294967294"] if boundary else []))
    health = rng.randrange(0, 6)
    hostname = rng.choice(["", "", "host"])
    md = rng.choice([0, 0, 0, 0, 1, 2, 3])
    na = rng.choice([1, 1, 1, 2, 3, 0])
    addrs = []
    for _ in range(na):
        addrs += [hx(rng.choice(HOSTS)), str(rng.randrange(0, 6) if rng.random() < 0.8 else rng.randrange(0, 65536))]
    return [w, str(health), hx(hostname), str(md), str(na)] + addrs


def gen_locality(rng, boundary, nprio):
    hasloc = 0 if rng.random() < 0.04 else 1
    w = rng.choice([1, 1, 2, 3, 5, 0] + ([2**31, M32, M32 - 1, 2**31 - 1] if boundary else []))
    prio = rng.randrange(0, nprio) if rng.random() < 0.9 else rng.choice([nprio, nprio + 1, 7, M32])
    md = rng.choice([0, 0, 0, 1, 2, 3])
    ne = rng.choice([0, 1, 1, 2, 3, 4])
    toks = [str(hasloc), hx(rng.choice(REG)), hx(rng.choice(["z", "z2"])), hx(rng.choice(["s", "", "s2"])), str(w), str(prio), str(md), str(ne)]
    for _ in range(ne):
        toks += gen_endpoint(rng, boundary)
    return toks


def gen_eds(rng):
    boundary = rng.random() < 0.3
    env = [rng.choice([1, 1, 1, 0]), rng.choice([0, 0, 1]), rng.choice([0, 0, 1]), rng.choice([0, 0, 0, 1])]
    name = "" if rng.random() < 0.03 else "cluster"
    nd = rng.choice([0, 0, 1, 2, 3])
    toks = [str(x) for x in env] + [hx(name), str(nd)]
    for _ in range(nd):
        toks += [hx(rng.choice(["", "lb", "throttle"])), str(rng.choice([0, 1, 50, 100, 999999, M32])), str(rng.choice([0, 1, 2] * 8 + [3, 9]))]
    nl = rng.choice([0, 1, 2, 2, 3, 4, 5])
    nprio = rng.randrange(1, 4)
    toks.append(str(nl))
    for _ in range(nl):
        toks += gen_locality(rng, boundary, nprio)
    return "eds " + " ".join(toks)


def directed_eds():
    E = "- 0 - 0 1 %s 80"          # endpoint: default weight, one address
    def loc(region, w, prio, eps, hasloc=1, md=0):
        return "%d %s %s %s %d %d %d %d %s" % (hasloc, hx(region), hx("z"), hx("s"), w, prio, md, len(eps), " ".join(eps))
    def op(locs, drops="0", env="1 0 0 0", name="c"):
        return ("eds %s %s %s %d %s" % (env, hx(name), drops, len(locs), " ".join(locs))).strip()
    a, b, c = E % hx("a"), E % hx("b"), E % hx("c")
    yield op([loc("r", 1, 0, [a]), loc("r2", 1, 1, [b])])                         # accepted, two priorities
    yield op([loc("r", 1, 1, [a])])                                                # priority 0 missing
    yield op([loc("r", 1, 0, [a]), loc("r2", 1, 2, [b])])                         # gap
    yield op([loc("r", 1, 0, [a]), loc("r", 1, 0, [b])])                          # duplicate (locality, priority)
    yield op([loc("r", 1, 0, [a]), loc("r", 1, 1, [b])])                          # same locality, two priorities: fine
    yield op([loc("r", 1, 0, [a]), loc("r2", 1, 0, [a])])                         # duplicate address across localities
    yield op([loc("r", 1, 0, [a, a])])                                             # duplicate address in one locality
    yield op([loc("r", 1, 0, ["- 0 - 0 2 %s 80 %s 80" % (hx("a"), hx("a"))])])   # duplicate inside one endpoint (dualstack)
    yield op([loc("r", 1, 0, ["- 0 - 0 2 %s 80 %s 80" % (hx("a"), hx("a"))])], env="0 0 0 0")   # … ignored without dualstack
    yield op([loc("r", 0, 5, [a]), loc("r2", 1, 0, [a])])                         # weight-0 locality is skipped entirely
    yield op([loc("r", M32, 0, [a]), loc("r2", 1, 0, [b])])                       # locality weight sum 2^32
    yield op([loc("r", M32 - 1, 0, [a]), loc("r2", 1, 0, [b])])                   # … 2^32-1: fine
    yield op([loc("r", M32, 0, [a]), loc("r2", 1, 1, [b])])                       # different priorities: fine
    yield op([loc("r", 1, 0, ["%d 0 - 0 1 %s 80" % (M32, hx("a")), "1 0 - 0 1 %s 80" % hx("b")])])      # endpoint weight sum 2^32
    yield op([loc("r", 1, 0, ["%d 0 - 0 1 %s 80" % (M32 - 1, hx("a")), "- 0 - 0 1 %s 80" % hx("b")])])  # 2^32-1 with a default weight
    yield op([loc("r", 1, 0, ["0 0 - 0 1 %s 80" % hx("a")])])                     # zero endpoint weight
    yield op([loc("r", 1, 0, [a], hasloc=0)])                                      # no locality id
    yield op([loc("r", 1, 0, ["- 0 - 2 1 %s 80" % hx("a")])])                     # endpoint metadata conversion fails
    yield op([loc("r", 1, 0, ["- 0 - 2 1 %s 80" % hx("a")])], env="1 0 1 0")      # … not looked at in compat mode
    yield op([loc("r", 1, 0, [a], md=2)])                                          # locality metadata ignored without http connect
    yield op([loc("r", 1, 0, [a], md=2)], env="1 1 0 0")                           # … rejected with it
    yield op([loc("r", 1, 0, [a])], drops="2 %s 5 0 %s 7 3" % (hx("x"), hx("y")))  # unsupported denominator
    yield op([loc("r", 1, 0, [a])], drops="3 %s 5 0 %s 7 1 - 9 2" % (hx("x"), hx("y")))
    yield op([loc("r", 1, 0, [a])], name="")                                       # empty name
    yield op([loc("r", 1, 0, [a])], env="1 0 0 1")                                 # wrapped in Resource
    yield op([])                                                                    # no localities at all
    yield op([loc("r", 1, 0, ["- 0 - 0 0"])])                                      # endpoint without address -> ":0"
    yield op([loc("r", 1, 0, ["- 0 - 0 0", "- 0 - 0 0"])])                         # twice -> duplicate ":0"
    yield op([loc("r", 1, 0, ["- 3 %s 1 1 %s 443" % (hx("host"), hx("::1"))])])    # ipv6 literal is bracketed


def gen(rng, tier):
    n = {"quick": 3000, "thorough": 400000, "search": 40000}[tier]
    ops = list(directed_eds())
    ops += [gen_eds(rng) for _ in range(n)]
    # raw bytes
    nraw = n // 6
    for _ in range(nraw):
        kind = rng.choice(["eds", "rds", "cds", "lds"])
        ln = rng.choice([0, 1, 2, 3, 5, 8, 13, 40])
        bs = bytes(rng.randrange(256) if rng.random() < 0.5 else rng.choice([0x0a, 0x12, 0x1a, 0x22, 0x08, 0x10, 0x01, 0x02, 0x7f, 0x80, 0xff]) for _ in range(ln))
        ops.append("raw %s %s" % (kind, bs.hex() or "-"))
    # seeded structurally valid RDS / CDS / LDS protos, 0..3 byte mutations
    ngen = n // 2
    for _ in range(ngen):
        kind = rng.choice(["rds", "rds", "cds", "lds", "lds"])
        nmut = rng.choice([0, 0, 0, 0, 1, 1, 2, 3])
        ops.append("gen %s %d %d %d" % (kind, rng.randrange(1, 2**40), rng.randrange(1, 4), nmut))
    # CDS: the whole grid of unset / explicit boundary ring sizes of a legacy RING_HASH cluster (harness: ringCluster)
    for i in range(144):
        ops.append("gen cds 1 %d 0" % (100 + i))
    # RDS weighted clusters
    W = [0, 0, 1, 1, 2, 3, 50, 2**31, 2**31 - 1, M32, M32 - 1, M32 - 2]
    ops.append("wc -")
    for _ in range(n // 10):
        ops.append("wc " + ",".join(str(rng.choice(W)) for _ in range(rng.randrange(1, 6))))
    # cds ops travel in one-op cases (historical: the check used to report only the first violation of a case)
    cds = [o for o in ops if o.startswith("gen cds")]
    rest = [o for o in ops if not o.startswith("gen cds")]
    for i, o in enumerate(cds):
        yield Case("xdsparse", [o], "cds-%d" % i)
    chunk = 2000
    for i in range(0, len(rest), chunk):
        yield Case("xdsparse", rest[i:i + chunk], "batch-%d" % (i // chunk))


UNIT = "op"


def nontrivial_op(op, out):
    return out != "err proto"
