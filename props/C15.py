"""C15 Keepalive detects dead peers in bounded time and never kills healthy ones (partial)."""
from vlib.core import Case

ID = "C15"
COMPONENTS = ["s_kaclient", "s_kaserver"]
T4 = ["Keepalive"]
PROOF_MODULES = ["GrpcProofs.Properties.C15"]
THEOREMS = ["GrpcProofs.C15." + t for t in (
    "dead_peer_closed_by_partial", "dead_peer_closed_by", "dead_peer_closed_by_permit", "dead_peer_closed_by_counterexample",
    "dormant_with_streams_has_pending_wake", "every_initStream_wakes", "time_can_pass", "adv_is_valid_run", "closed_only_after_silence", "healthy_never_closed",
    "server_loop_eq", "server_dead_peer_closed_by", "server_healthy_never_closed",
    "no_goaway_if_spaced", "strikes_accumulate", "third_strike_goaway", "strikes_reset_by_server_write")]
DESIGN_REF = "DESIGN.md section 8, C15"
TECHNIQUE = ("Lean 4 timed automata over an explicit virtual clock (Nat ns) for the client and server keepalive loops and the "
             "server ping-strike ledger; inductive invariants over all urgent event sequences; tie T2: the real http2Client / "
             "http2Server run inside a testing/synctest bubble over net.Pipe against a scripted raw-frame peer, virtual time "
             "advanced to exact boundaries, ping / close / GOAWAY instants diffed against the model; T4 for maxPingStrikes "
             "and defaultPingTimeout")
LEVEL_TEXT = ("Machine-checked Lean proofs, for every Time/Timeout/MinTime >= 1 ns, both PermitWithoutStream values and every urgent "
              "timeline of delays, frame reads, stream opens/closes, pings and server writes, about timed automata ported from the "
              "client and server keepalive loops and handlePing: a healthy connection (a frame at least every Time) is never "
              "closed; a silent one is closed no later than max(lastRead+Time, applicable-since)+Timeout whenever no frame is read "
              "while the client loop is dormant (always so for the server and with PermitWithoutStream) and at most min(Time,Timeout) "
              "later otherwise (the literal bound is refuted on a concrete timeline = finding F20); spaced pings never strike; the "
              "third unforgiven too-early ping sends GOAWAY; a server write forgives. The automata are diffed, under virtual time "
              "at exact boundaries, against the real http2Client/http2Server on every run.")
LEVEL_NOTE = ("PARTIAL. The wake-up from dormancy is modelled as its two cooperating sites (regS: NewStream registers the stream in "
              "activeStreams; initS: loopy later runs initStream, which signals a dormant loop); the dead-peer bound is stated for "
              "states in which loopy has caught up (pendingInit = 0) and the invariant proves that a dormant loop with streams always "
              "has an initStream pending, each of which wakes it. Readings: (1) 'applicable' = stream open or PermitWithoutStream; the bound is checked on the virtual clock "
              "at op granularity (the close instant itself is exact). (2) 'healthy' is monitored locally: never closed at an instant "
              "t <= lastRead+Time (the theorem gives the stronger lastRead+Time+Timeout <= t). (3) A too-early ping that follows "
              "server-sent headers/data/trailers is forgiven and restarts the strike run (code: CAS on resetPingStrikes), so after "
              "a write the GOAWAY comes at the third UNforgiven too-early ping; well spaced pings in between do not reset strikes. "
              "(4) The first ping of a connection has no predecessor (zero time.Time) and is never a strike. Trusted: Lean kernel; "
              "the hand model lean/GrpcModel/Model/Keepalive.lean; testing/synctest's virtual clock; x/net/http2 framer of the scripted "
              "peer. The ghost fields appSince/lateWake/pingAt of the model influence no transition.")
GAP = ("lastRead / lastPingAt are wall-clock time.Now() readings: inside the synctest bubble they are the virtual clock, in "
       "production a clock step changes them (time.Time comparisons use the monotonic reading, UnixNano() does not); "
       "TCP_USER_TIMEOUT; goroutine scheduling latency between a timer expiry and the loop body; MaxConnectionIdle/Age timers "
       "(left infinite)")
ASSUMPTIONS = ["Time, Timeout, MinTime >= 1 ns (0 is replaced by defaults before the loops start; negative durations are not modelled)",
               "time.Now() is monotone and the same clock for lastRead, prevNano, lastPingAt and the timers (true inside the bubble)",
               "MaxConnectionIdle / MaxConnectionAge left at infinity; no channelz; StaticWindowSize (no BDP pings)",
               "a timer expiry, the loop body and the reader's lastRead store are atomic w.r.t. each other at one virtual instant (quiescent-step tie T2)"]
RULE = ("client: directed timelines at Time, Time+Timeout, +-1 ns, reads exactly at ping/timeout instants, dormancy with streams "
        "opening before/at/after the expiry, frames read while dormant (late wake), bursts of 1-3 streams registered back to back "
        "while the loopy writer is held busy (from dormancy, just before it, with a ping outstanding) for 6 parameter pairs x "
        "PermitWithoutStream, plus "
        "random timelines (adv biased to boundaries, read ack/ping/settings/window-update, open, burst k, done); server: pings spaced exactly "
        "MinTime / 2h and 1 ns short, strikes interleaved with hdr/data/fin/rst, stream close switching to the 2-hour rule, keepalive "
        "boundaries, plus random timelines. A case is non-trivial if the real transport emitted a keepalive ping, closed, or sent a "
        "GOAWAY; distinct = distinct op sequence.")

S = 10 ** 9
H2 = 7200 * S


def client_params(rng):
    pool = [(10, 3), (3, 10), (7, 7), (1, 1), (5, 12), (12, 5), (2, 1), (1, 2), (10 * S, 20 * S), (10 * S, 3 * S), (30 * S, 30 * S)]
    if rng.random() < 0.7:
        t, to = rng.choice(pool)
    else:
        t, to = rng.randrange(1, 40), rng.randrange(1, 40)
    return t, to, rng.randrange(2)


def deltas(rng, t, to):
    """durations biased to the boundaries of the automaton"""
    base = [t, to, min(t, to), t + to, abs(t - to), 2 * t, 2 * to]
    d = rng.choice(base) + rng.choice([0, 0, 0, -1, 1, 1, -2, 2])
    if rng.random() < 0.2:
        d = rng.randrange(0, 3 * max(t, to) + 2)
    return max(0, d)


def client_random(rng, n):
    t, to, p = client_params(rng)
    ops = ["start %d %d %d" % (t, to, p)]
    ns = 0
    chatty = rng.random() < 0.5      # a peer that mostly keeps talking: long lives, many ping/ack rounds
    for _ in range(n):
        r = rng.random()
        if chatty and r < 0.45:
            d = rng.choice([t, t - 1, t + 1, min(t, to), to, to - 1, 1, t // 2, t + to - 1])
            ops.append("adv %d" % max(0, d))
            if rng.random() < 0.8:
                ops.append("read " + rng.choice(["ack", "ack", "ping", "settings", "wupd"]))
        elif r < 0.45:
            ops.append("adv %d" % deltas(rng, t, to))
        elif r < 0.65:
            ops.append("read " + rng.choice(["ack", "ack", "ping", "settings", "wupd"]))
        elif r < 0.76:
            ops.append("open")
            ns += 1
        elif r < 0.82:
            k = rng.choice([1, 2, 2, 3, 5])
            ops.append("burst %d" % k)
            ns += k
        elif r < 0.97 and ns > 0:
            ops.append("done")
            ns -= 1
        elif r < 0.97:
            ops.append("adv %d" % deltas(rng, t, to))
        elif r < 0.985:
            ops.append("done")      # mostly invalid (bad-op) unless a stream is open
            ns = max(0, ns - 1)
        else:
            ops.append("adv %d" % (rng.randrange(1, 30) * min(t, to)))
    return ops


def client_directed(rng):
    for (t, to) in [(10, 3), (3, 10), (7, 7), (10 * S, 20 * S), (1, 1), (4, 9)]:
        for p in (0, 1):
            st = "start %d %d %d" % (t, to, p)
            pre = [] if p else ["open"]
            # dead peer: exact close instant and +-1 around every boundary
            yield [st] + pre + ["adv %d" % (t - 1), "adv 1", "adv %d" % (to - 1) if to > 1 else "adv 0", "adv 1", "adv 1"]
            yield [st] + pre + ["adv %d" % (t + to - 1), "adv 1", "adv 1"]
            yield [st] + pre + ["adv %d" % (t + to)]
            yield [st] + pre + ["adv %d" % (t + to + 1)]
            # healthy peer: a read exactly every Time (and every Time-1) is never closed
            for gap in (t, max(t - 1, 0)):
                yield [st] + pre + sum([["adv %d" % gap, "read ack"] for _ in range(8)], [])
            # read exactly at the ping instant, at the last instant before the timeout, at the timeout
            yield [st] + pre + ["adv %d" % t, "read ping", "adv %d" % to, "adv %d" % t, "adv %d" % to]
            yield [st] + pre + ["adv %d" % (t + to - 1), "read ack", "adv 1", "adv %d" % (t - 1), "adv 1", "adv %d" % to]
            yield [st] + pre + ["adv %d" % t, "adv %d" % (to - 1) if to > 1 else "adv 0", "read wupd", "adv %d" % (t + to), "adv 1"]
            # reads that make gaps of Time+1 : ping goes out, ack arrives in time
            yield [st] + pre + sum([["adv %d" % (t + 1), "read ack"] for _ in range(5)], []) + ["adv %d" % (t + to)]
        # dormancy (PermitWithoutStream=false)
        st = "start %d %d 0" % (t, to)
        yield [st, "adv %d" % (5 * t), "open", "adv %d" % (to - 1) if to > 1 else "adv 0", "adv 1"]
        yield [st, "adv %d" % (t - 1), "open", "adv 1", "adv %d" % to]
        yield [st, "open", "adv %d" % t, "done", "adv %d" % to, "adv %d" % t, "open", "adv %d" % to]
        yield [st, "open", "adv %d" % t, "done", "adv %d" % (min(t, to)), "open", "adv %d" % (2 * to)]
        yield [st, "open", "adv %d" % t, "read ack", "done", "adv %d" % (3 * t), "open", "done", "open", "adv %d" % (to + t)]
        # a frame read while dormant, stream opened later: the late wake
        for gap in (0, 1, t - 1, t, t + 1, 3 * t):
            yield [st, "adv %d" % (2 * t), "read ping", "adv %d" % max(gap, 0), "open", "adv %d" % to, "adv %d" % min(t, to), "adv %d" % to, "adv %d" % (t + to)]
        yield [st, "adv %d" % (2 * t), "read ping", "adv %d" % (3 * t), "open", "adv %d" % (to - 1) if to > 1 else "adv 0", "read ack", "adv %d" % (t + to), "adv 1"]
        yield [st, "adv %d" % (2 * t), "read ping", "adv %d" % (3 * t), "open", "adv %d" % (to + min(t, to) - 1), "adv 1", "adv %d" % to]
        # bursts: k streams registered back to back while the loopy writer is busy (their initStream callbacks run
        # later, with all k already in activeStreams) - from dormancy, before dormancy, with a ping outstanding
        for k in (1, 2, 3):
            yield [st, "adv %d" % (3 * t), "burst %d" % k, "adv %d" % (t + to - 1), "adv 1", "adv %d" % (t + to)]
            yield [st, "adv %d" % (t - 1), "burst %d" % k, "adv 1", "adv %d" % to, "adv %d" % t]
            yield [st, "open", "adv %d" % t, "done", "adv %d" % (t + to), "burst %d" % k, "adv %d" % (2 * (t + to))]
            yield [st, "adv %d" % (2 * t), "burst %d" % k] + ["done"] * k + ["adv %d" % (t + to), "burst %d" % k, "done", "adv %d" % (2 * (t + to))]
        yield [st, "open", "adv %d" % t, "burst 2", "adv %d" % (to - 1) if to > 1 else "adv 0", "adv 1", "adv %d" % (t + to)]
    yield ["burst 2", "start 5 5 0", "burst 0", "burst 9", "burst x", "burst 02", "adv 20", "burst 2", "adv 9", "adv 1", "adv 1"]
    yield ["adv 5", "open", "start 0 5 1", "start 5 0 1", "start 5 5 2", "start 5 5 1", "start 5 5 1", "read bogus", "done", "adv 4", "adv 1", "adv 5"]


def server_params(rng):
    r = rng.random()
    if r < 0.45:      # small keepalive numbers, strikes under MinTime
        t, to = rng.choice([(10, 3), (3, 10), (7, 7), (50, 20), (1000, 1000)])
        mt = rng.choice([1, 2, 5, 9, 30])
    elif r < 0.8:     # realistic
        t, to = rng.choice([(10 * S, 20 * S), (60 * S, 5 * S), (3 * H2, 20 * S)])
        mt = rng.choice([5 * S, 1 * S, 300 * S])
    else:             # 2-hour rule: keepalive loop slow enough to cross two hours in a few expiries
        t, to = rng.choice([(H2, H2), (3 * H2, 20 * S), (H2 + 1, H2 // 2)])
        mt = rng.choice([5 * S, 300 * S, H2, H2 + 5])
    return t, to, mt, rng.randrange(2)


def server_random(rng, n):
    t, to, mt, p = server_params(rng)
    ops = ["start %d %d %d %d" % (t, to, mt, p)]
    nopen = 0
    unit = min(t, to)
    polite = rng.random() < 0.6      # mostly respects the policy: long lives, strikes spread out
    for _ in range(n):
        r = rng.random()
        if r < 0.30:
            ops.append("ping")
            if polite and rng.random() < 0.85:
                need = mt if (p or nopen) else H2     # (approximate: nopen counts opened, not live streams)
                d = need + rng.choice([0, 0, 1, 5])
                if d > 40 * t:
                    d = mt
                ops.append("adv %d" % d)
                if rng.random() < 0.5:
                    ops.append("read ack")
        elif r < 0.55:
            cands = [mt, mt - 1, mt + 1, 1, 0, mt // 2]
            if H2 <= 40 * t:
                cands += [H2, H2 - 1, H2 + 1, H2 - mt]
            d = max(0, rng.choice(cands))
            if d > 40 * t:
                d = rng.randrange(0, 3 * unit)
            ops.append("adv %d" % d)
        elif r < 0.62:
            ops.append("adv %d" % max(0, deltas(rng, t, to)))
        elif r < 0.70:
            ops.append("open")
            nopen += 1
        elif r < 0.74:
            ops.append("read " + rng.choice(["ack", "settings", "wupd"]))
        elif nopen > 0:
            k = rng.randrange(nopen) if rng.random() < 0.95 else nopen
            ops.append("%s %d" % (rng.choice(["hdr", "data", "data", "fin", "rst"]), k))
        else:
            ops.append("ping")
    return ops


def server_directed(rng):
    big = "start %d %d " % (3 * H2, 20 * S)
    for p in (0, 1):
        for mt in (5 * S, 7):
            st = big + "%d %d" % (mt, p)
            for pre in ([], ["open"]):
                # spaced exactly MinTime (or exactly two hours): never a GOAWAY
                gap = mt if (p or pre) else H2
                yield [st] + pre + sum([["ping", "adv %d" % gap] for _ in range(6)], [])
                # one nanosecond short, three times: GOAWAY at the third strike
                yield [st] + pre + ["ping"] + sum([["adv %d" % (gap - 1), "ping"] for _ in range(4)], [])
                # strikes are not forgiven by well spaced pings in between
                yield [st] + pre + ["ping", "ping", "adv %d" % gap, "ping", "ping", "adv %d" % gap, "ping", "ping", "ping"]
            # server-sent headers / data / trailers forgive
            yield [st, "open", "ping", "ping", "ping", "hdr 0", "ping", "ping", "ping", "data 0", "ping", "ping", "ping", "fin 0", "ping", "ping", "ping", "ping", "ping"]
            yield [st, "open", "ping", "ping", "ping", "hdr 0", "hdr 0", "ping", "ping", "ping", "ping"]
            yield [st, "open", "ping", "ping", "ping", "rst 0", "fin 0", "data 0", "hdr 0", "ping", "ping"]
            # stream closes: MinTime spacing is no longer enough unless permitted
            yield [st, "open", "ping", "adv %d" % mt, "ping", "rst 0", "adv %d" % mt, "ping", "adv %d" % mt, "ping", "adv %d" % mt, "ping", "adv %d" % mt, "ping"]
            yield [st, "ping", "adv %d" % (H2 - 1), "open", "ping", "rst 0", "adv %d" % (H2 - 1), "ping", "adv %d" % H2, "ping", "adv %d" % (H2 - 1), "ping", "ping"]
    # server keepalive loop: same boundaries as the client
    for (t, to) in [(10, 3), (3, 10), (7, 7), (10 * S, 20 * S)]:
        st = "start %d %d 5 0" % (t, to)
        yield [st, "adv %d" % (t - 1), "adv 1", "adv %d" % (to - 1), "adv 1", "adv 1"]
        yield [st, "adv %d" % (t + to)]
        yield [st] + sum([["adv %d" % t, "read ack"] for _ in range(8)], [])
        yield [st] + sum([["adv %d" % t, "ping"] for _ in range(3)], []) + ["adv %d" % (t + to - 1), "open", "adv %d" % (t + to - 1), "rst 0", "adv %d" % (t + to)]
        yield [st, "adv %d" % (t + to - 1), "read wupd", "adv 1", "adv %d" % (t + to - 1), "adv 1"]
    yield ["ping", "start 5 5 0 1", "start 0 5 5 1", "start 5 5 5 1", "start 5 5 5 1", "hdr 0", "rst 0", "open", "hdr 00", "hdr 1", "read ping", "adv 5", "adv 5", "ping"]


def gen(rng, tier):
    n = {"quick": 900, "thorough": 40000, "search": 12000}[tier]
    ln = {"quick": 28, "thorough": 45, "search": 36}[tier]
    for i, ops in enumerate(client_directed(rng)):
        yield Case("s_kaclient", ops, "client-directed-%d" % i)
    for i, ops in enumerate(server_directed(rng)):
        yield Case("s_kaserver", ops, "server-directed-%d" % i)
    for i in range(n):
        yield Case("s_kaclient", client_random(rng, rng.randrange(4, ln)), "client-random-%d" % i)
    for i in range(n):
        yield Case("s_kaserver", server_random(rng, rng.randrange(4, ln)), "server-random-%d" % i)


def nontrivial(case, impl_lines):
    """a case is non-trivial if the real transport emitted a keepalive ping, closed, or sent a GOAWAY"""
    return any(("p@" in l) or ("c@" in l) or ("g@" in l) for l in impl_lines)
