"""C35 Aggregated state and endpoint round robin follow the precedence rule."""
from vlib.core import Case

ID = "C35"
COMPONENTS = ["cse", "s_epshard", "wagg"]
T4 = ["LbConnState"]
PROOF_MODULES = ["GrpcProofs.Properties.C35"]
THEOREMS = ["GrpcProofs.C35." + t for t in (
    "state_order_pinned", "prec_multiset", "cse_counters_track_multiset", "cse_aggregate_precedence",
    "cse_underflow_counterexample",
    "epshard_aggregate_precedence", "epshard_every_push_ok", "epshard_channel_view_current",
    "picker_only_delegates_to_children_in_aggregate_state",
    "rr_fair_partial", "rr_fair_children_partial", "rr_fair_superseded_partial", "rr_wrap_counterexample",
    "wagg_counters_track_children", "wagg_aggregate_precedence")]
DESIGN_REF = "DESIGN.md section 8, C35"
TECHNIQUE = ("Lean 4 theorems (list induction over transition histories, BitVec 64 counter arithmetic, closed-form residue "
             "counting for round robin) + T1/T2 differential correspondence against the real ConnectivityStateEvaluator and the "
             "real endpointsharding balancer (stub children, recording ClientConn, pinned randIntN) and the real weighted_target "
             "aggregator (recording ClientConn and WRR, counters read through a shim) + T4 regenerated state order")
LEVEL_TEXT = ("Machine-checked Lean proofs, for every history of child additions/transitions/removals and every child multiset, that "
              "the evaluator's counters equal the multiset counts (mod 2^64) and its answer is the precedence-rule state; for every "
              "op sequence of the endpointsharding model that every pushed state follows the rule, its picker holds exactly the "
              "children in the aggregate state, every Pick delegates to one of them, and k consecutive picks not crossing the "
              "uint32 index wrap give each child floor(k/n) or ceil(k/n); the wrap counterexample (F8) is proved and replayed; for "
              "every history of weighted_target's aggregator (Add/Remove/UpdateState/UpdateWeight/Pause/Resume) that its evaluator's "
              "counters equal the counts of the children's counted states and every state it reports is their precedence-rule state; "
              "superseded endpointsharding pickers that are still picked on keep their own fair rotation (rr_fair_superseded_partial).")
LEVEL_NOTE = ("Trusted: Lean kernel; hand models lean/GrpcModel/Model/{LbConnState,EpShard}.lean tied by differential runs. "
              "Readings: (1) 'children' of ConnectivityStateEvaluator are what its caller passes: the theorem is for legal histories "
              "(the evaluator is told each child's real previous state); an illegal call underflows a counter "
              "(cse_underflow_counterexample, exercised by raw `rt` ops, outside the statement). (2) Go map iteration order of "
              "es.endpoints is an input of the model (taken from the implementation's answer after checking it is a permutation). "
              "(3) round-robin exactness is stated without index wrap; across the 2^32 wrap it fails when n does not divide 2^32 "
              "(known finding F8). (4) weightedtarget's aggregator deliberately aggregates a sticky state (TF->CONNECTING stays TF) "
              "and is not claimed here; it uses the same evaluator, covered by `cse`.")
GAP = ("goroutine scheduling of `go es.exitIdle()` (joined with synctest.Wait, calls compared as a sorted set); concurrent child "
       "UpdateState during a top-down call (serialised by es.mu; only the synchronous-report interleaving is generated); "
       "balancergroup wiring above the aggregator; clustermanager's own copy of the aggregator")
ASSUMPTIONS = ["fewer than 2^64 children (counter wrap)", "child identities: one stub child per endpoint key, endpoints with one address",
               "randIntN(n) pinned to r % n by the harness"]
RULE = ("cse: random legal histories (add/change/remove over a child list, <= 80 ops) with every answer checked against the "
        "precedence rule, plus raw RecordTransition streams incl. illegal ones (counters compared with the model). s_epshard: "
        "random op sequences (<= 40 ops) of resolver updates (0-6 endpoints out of 7, duplicates, children that report "
        "R/C/I/T/S or nothing during the update, child errors), child state reports (also from removed children), "
        "ResolverError, ExitIdle, Close, runs of Pick (0..3n+2), index-wrap picks (start index near 2^32) and picks on SUPERSEDED "
        "pickers interleaved with picks on the current one (random, plus a directed family: 2-5 children x kind of picker update x "
        "interleaving pattern a:b); every picker generation's own consecutive picks are checked for floor/ceil. wagg: a directed "
        "family over every way a child's counted state can differ from its reported one (TF->C, TF->C->C, R->TF->C, ...) x what "
        "happens to it next (removed, new state, re-weighted) x the state of the other children (T/I/C/none), plus random "
        "histories (<= 40 ops, 2-6 ids) biased to the retry cycle TF->CONNECTING with adds/removes/weights/pause/resume; counters "
        "compared with the model after every op. A case is non-trivial when it pushed a state with >= 2 children or picked.")

STATES = "RCIT"
WRAP = 2 ** 32


def gen_cse(rng, n_cases, maxlen):
    for ci in range(n_cases):
        ops = []
        kids = 0
        legal = rng.random() < 0.8
        bias = rng.choice(["RCIT", "TTTC", "IIIT", "T", "CI", "RCIT"])
        for _ in range(rng.randrange(1, maxlen)):
            x = rng.random()
            if legal:
                if kids == 0 or x < 0.3:
                    ops.append("add %s" % rng.choice(bias)); kids += 1
                elif x < 0.75:
                    ops.append("change %d %s" % (rng.randrange(kids), rng.choice(bias)))
                elif x < 0.95:
                    ops.append("remove %d" % rng.randrange(kids)); kids -= 1
                else:
                    ops.append("cur")
            else:
                if x < 0.2 and kids < 4:
                    ops.append("add %s" % rng.choice(STATES)); kids += 1
                else:
                    ops.append("rt %s %s" % (rng.choice("RCITS"), rng.choice("RCITS")))
        yield Case("cse", ops, "cse-%s-%d" % ("legal" if legal else "raw", ci))


def gen_ep(rng, n_cases, maxlen, wrap_rate):
    for ci in range(n_cases):
        ops = ["new %d" % (1 if rng.random() < 0.3 else 0)]
        serial = 0
        cur = set()
        neps = rng.choice([2, 3, 3, 4, 5, 7])
        never_report = rng.random() < 0.15
        bias = rng.choice(["RCIT", "RRRC", "TTTT", "CCIT", "IIT", "RCITS", "R"])
        live = 0
        for _ in range(rng.randrange(2, maxlen)):
            x = rng.random()
            if serial == 0 or x < 0.22:
                k = rng.choice([0, 1, 1, 2, 3, 3, 4, 5, 6]) if serial else rng.randrange(1, neps + 1)
                es = []
                for _ in range(k):
                    ep = rng.randrange(neps)
                    st = "-" if (never_report and rng.random() < 0.5) else rng.choice(bias)
                    es.append("%d/%s/%d" % (ep, st, 1 if rng.random() < 0.1 else 0))
                new = set(int(e.split("/")[0]) for e in es)
                serial += len(new - cur)
                cur = new
                live = len(cur)
                ops.append("update %d %s" % (rng.randrange(1000), ",".join(es) or "-"))
            elif x < 0.55:
                ops.append("cs %d %s %d %d" % (rng.randrange(1, serial + 1), rng.choice(bias),
                                               0 if rng.random() < 0.03 else 1, rng.randrange(1000)))
            elif x < 0.60:
                ops.append("reserr %d" % rng.randrange(1000))
            elif x < 0.65:
                ops.append("exitidle %d" % rng.randrange(1000))
            elif x < 0.67:
                ops.append("close")
            elif x < 0.72:
                # a superseded picker is still in use while the current one is (RPCs that fetched it before the update)
                ops.append("pickold %d %d" % (rng.choice([0, 0, 0, 1, 2]), rng.choice([1, 1, 2, 3, max(1, live)])))
            elif x < 1 - wrap_rate:
                n = max(1, live)
                ops.append("pick %d" % rng.choice([0, 1, n - 1, n, n + 1, 2 * n, 2 * n + 1, 3 * n + 2, rng.randrange(0, 3 * n + 3)]))
            else:
                n = max(1, live)
                back = rng.randrange(0, 2 * n + 2)
                ops.append("wrappick %d %d" % (WRAP - 1 - back, rng.randrange(back, back + 2 * n + 3)))
        yield Case("s_epshard", ops, "ep-%d" % ci)


def gen_wagg(rng, n_cases, maxlen):
    """weighted_target aggregator: children added/removed/re-weighted, state reports biased to the retry cycle
    TF -> CONNECTING (where the counted state differs from the reported one), pause/resume."""
    for ci in range(n_cases):
        ops = ["start"] if rng.random() < 0.95 else []
        ids = list(range(1, rng.choice([2, 3, 3, 4, 6]) + 1))
        present = []
        last = {}
        bias = rng.choice(["TCIR", "TTCC", "TCTC", "ITC", "RTC", "TCIRS"])
        for _ in range(rng.randrange(3, maxlen)):
            x = rng.random()
            absent = [i for i in ids if i not in present]
            if (not present or x < 0.15) and absent:
                i = rng.choice(absent); present.append(i); last[i] = "C"
                ops.append("add %d %d" % (i, rng.randrange(0, 5)))
            elif x < 0.30 and present:
                i = rng.choice(present); present.remove(i)
                ops.append("remove %d" % i)
            elif x < 0.80 and present:
                i = rng.choice(present)
                # a failing child retries: TF is mostly followed by CONNECTING
                st = "C" if last.get(i) == "T" and rng.random() < 0.6 else rng.choice(bias)
                last[i] = st
                ops.append("upd %d %s" % (i, st))
            elif x < 0.84:
                ops.append("weight %d %d" % (rng.choice(ids), rng.randrange(0, 5)))
            elif x < 0.88:
                ops.append("pause")
            elif x < 0.93:
                ops.append("resume")
            elif x < 0.95:
                ops.append("need")
            elif x < 0.97:
                ops.append("upd %d %s" % (rng.choice(ids), rng.choice("RCIT")))   # also ids that are not present
            elif x < 0.98 and not ops[0:1] == ["start"]:
                ops.append("start")
            elif x < 0.985:
                ops.append("stop"); break
        yield Case("wagg", ops, "wagg-%d" % ci)


def wagg_directed():
    # every way a child's counted state can differ from its reported one when it is removed / changes state, followed
    # by the remaining children being in each non-READY state (and by no children at all)
    k = 0
    for pre in (["upd 1 T", "upd 1 C"], ["upd 1 T", "upd 1 C", "upd 1 C"], ["upd 1 R", "upd 1 T", "upd 1 C"],
                ["upd 1 T"], ["upd 1 C"], ["upd 1 I"], ["upd 1 R"], []):
        for then in (["remove 1"], ["upd 1 I"], ["upd 1 T"], ["upd 1 R", "remove 1"], ["weight 1 3", "remove 1"]):
            for others in ("T", "I", "C", None):
                ops = ["start", "add 1 1"]
                if others:
                    ops += ["add 2 1", "upd 2 %s" % others]
                ops += pre + then
                if others:
                    ops += ["upd 2 %s" % others, "remove 2"]
                ops += ["add 3 2", "upd 3 T", "remove 3"]
                yield Case("wagg", ops, "wagg-directed-%d" % k)
                k += 1


def old_picker_directed():
    """two (or three) picker generations in use at once: every interleaving pattern `a picks on the current picker, b picks on a
    superseded one`, for 2-5 children, after each kind of picker update (child re-report, resolver update, ResolverError)"""
    k = 0
    for n in (2, 3, 4, 5):
        base = ["new 1", "update 0 " + ",".join("%d/R/0" % i for i in range(n))]
        for upd in (["cs 1 R 1 0"], ["update 1 " + ",".join("%d/R/0" % i for i in range(n))], ["reserr 2"], ["cs 1 R 1 1", "cs 2 R 1 2"]):
            for a, b in ((1, 1), (1, 2), (1, n - 1), (1, n), (2, 1), (1, n + 1), (2, n)):
                ops = base + ["pick 1"] + upd
                for _ in range(n + 1):
                    ops += ["pick %d" % a, "pickold 0 %d" % b]
                if len(upd) > 1:
                    ops += ["pickold 1 %d" % n, "pick %d" % n]
                yield Case("s_epshard", ops, "old-picker-%d" % k)
                k += 1


def directed():
    # F8 witness (DESIGN.md section 7): n = 3, index 2^32-3, three picks
    yield Case("s_epshard", ["new 1", "update 0 0/R/0,1/R/0,2/R/0", "wrappick %d 3" % (WRAP - 3)], "f8-witness")
    # same window one period earlier: no wrap, fair
    yield Case("s_epshard", ["new 1", "update 0 0/R/0,1/R/0,2/R/0", "wrappick %d 3" % (WRAP - 7), "pick 2"], "f8-nowrap")
    # n = 4 divides 2^32: the wrap is harmless
    yield Case("s_epshard", ["new 1", "update 1 0/R/0,1/R/0,2/R/0,3/R/0", "wrappick %d 9" % (WRAP - 3)], "wrap-n4")
    # no children at all, resolver error first
    yield Case("s_epshard", ["new 0", "reserr 5", "pick 2", "update 3 -", "pick 1"], "no-children")
    # precedence ladder
    yield Case("s_epshard", ["new 1", "update 2 0/T/0,1/T/0,2/T/0", "pick 4", "cs 1 I 1 0", "pick 3", "cs 2 C 1 0", "pick 3",
                             "cs 3 R 1 0", "pick 3", "cs 3 S 1 0", "cs 2 S 1 0", "cs 1 S 1 0", "pick 2"], "ladder")
    yield Case("cse", ["add T", "add T", "change 0 I", "change 1 C", "change 0 R", "remove 0", "remove 0", "cur"], "cse-ladder")
    yield Case("cse", ["rt R S", "cur", "rt S R", "cur"], "cse-underflow")


def gen(rng, tier):
    n_cse, n_ep, ml = {"quick": (300, 500, 30), "thorough": (5000, 9000, 45), "search": (3000, 6000, 45)}[tier]
    for c in directed():
        yield c
    for c in wagg_directed():
        yield c
    for c in old_picker_directed():
        yield c
    for c in gen_wagg(rng, {"quick": 400, "thorough": 8000, "search": 4000}[tier], 40):
        yield c
    for c in gen_cse(rng, n_cse, 80):
        yield c
    for c in gen_ep(rng, n_ep, ml, 0.06):
        yield c


def nontrivial(case, impl_lines):
    if case.component == "cse":
        return len(case.ops) >= 3
    if case.component == "wagg":
        return sum(1 for l in impl_lines if not l.startswith("-") and l != "bad-op") >= 2
    for l in impl_lines:
        if l.startswith("picks=") and l != "picks=-":
            return True
        if "push=" in l and l.count("@") >= 2:
            return True
    return False
