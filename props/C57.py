"""C57 Expiring cache and one-shot primitives fire exactly once."""
import itertools
from vlib.core import Case

ID = "C57"
COMPONENTS = ["refcounted", "event", "s_timeoutcache"]
T4 = []
PROOF_MODULES = ["GrpcProofs.Properties.C57"]
THEOREMS = ["GrpcProofs.C57." + t for t in (
    "callback_at_most_once", "never_if_removed_first", "exactly_once_if_expired_or_cleared",
    "remove_returns_to_exactly_one_caller", "remove_step", "stale_timer_spares_readded_key", "clear_visits_iff", "add_step",
    "fire_true_for_exactly_one", "fire_progress",
    "cleanup_exactly_once_at_zero", "decrement_to_zero_schedules_cleanup", "no_resurrection",
    "try_increment_fails_when_dead")]
DESIGN_REF = "DESIGN.md section 8, C57"
TECHNIQUE = ("Lean 4 inductive invariants over three interleaving models (RefCounted and Event: one rule per atomic access, "
             "counting abstraction = any number of goroutines; TimeoutCache: one rule per critical section plus the non-atomic "
             "steps of the timer goroutine and of Clear's callback loop, unbounded entries), proved per rule with grind; "
             "ties: T3 (RefCounted, Event stepped one atomic access at a time through yield points regenerated from the current "
             "source) and T2 (real TimeoutCache in a testing/synctest bubble under virtual time, concurrent callers, and the "
             "timer-fired-while-lock-held window)")
LEVEL_TEXT = ("Machine-checked proof, for every reachable state of every interleaving, that a cache entry's callback runs at most "
              "once (runs + pending), never for an entry a Remove returned (even when its timer had already fired), exactly once "
              "after an unaborted expiry or a Clear(true), that an entry is handed out by at most one Remove and never by Remove "
              "and Clear both; that exactly one Fire caller is told true and the channel is closed once; that RefCounted's "
              "cleanup runs exactly once from the moment the count reaches zero and that afterwards no TryIncrement succeeds and "
              "the count stays <= 0. The models are diffed against the real code at the grain of single atomic accesses "
              "(RefCounted, Event) and of whole calls under virtual time (TimeoutCache) on every run, and the property "
              "predicates are evaluated on the implementation's outputs.")
LEVEL_NOTE = ("Trusted: Lean kernel; Go memory model (each typed-atomic access is one step; sync.Mutex critical sections are atomic); "
              "time.Timer semantics as modelled (Stop() returns true iff the func has not been started); tools/instrument; the "
              "thread-to-rule glue in the Lean drivers. RefCounted theorems assume Increment's documented contract (caller holds "
              "a live reference: ghost flag `misuse`) and fewer than 2^31-1 references; surplus Decrement calls ARE covered. "
              "TimeoutCache: the window 'timer fired, goroutine waiting for c.mu' can only be produced by holding c.mu from the "
              "harness (shim VerifLock) while virtual time passes the deadline; inside that window the harness calls the real "
              "removeInternal (ops hremove/hclear; hclear re-enacts Clear's two loops around it). Remove/Clear/Add themselves are "
              "driven as whole calls, sequentially, from concurrent goroutines, and (op hrace) in every order relative to timer "
              "goroutines that are already queued on c.mu, including a re-Add of the removed key before the stale goroutine runs.")
GAP = ("the replayed schedules (T3) interleave only at the yield points tools/instrument can insert: atomic accesses inside "
       "function literals or behind sync.Once/sync.Mutex are not separated, so a rewritten Fire/TryIncrement with such steps is "
       "explored by real-parallel stress rounds (cfire/cref: probabilistic; 800 rounds quick, 16000 thorough) rather than exhaustively; "
       "interleavings INSIDE a critical section of TimeoutCache (they are atomic under c.mu); int32 wrap-around of refCount; real "
       "(non-virtual) timers. The three-party race 'timer fired and queued on c.mu / Remove or Clear / re-Add of the same key' is "
       "driven through the public API by op hrace: on one processor (GOMAXPROCS(1)) a goroutine woken by Unlock cannot run before "
       "the harness goroutine yields, so the order of the three critical sections is chosen by the harness; if the runtime "
       "nevertheless lets a timer goroutine in first, the model follows the implementation's answer (order tra)")
ASSUMPTIONS = ["Increment is only called by a holder of a live reference (documented contract)",
               "fewer than 2^31-1 references",
               "sync/atomic operations are sequentially consistent; a sync.Mutex critical section is atomic",
               "time.Timer.Stop reports whether it prevented the func from being started"]
RULE = ("refcounted: schedules over i1..i3 (TryIncrement), a1..a2 (Increment), d1..d4 (Decrement): directed windows (Load, then a "
        "Decrement to 0, then the stale CAS; racing CASes; surplus Decrements; Increment after death) + random bursts in two phases "
        "(acquire-heavy, then release-heavy); event: every interleaving of up to 4 firers x 2 steps plus HasFired readers, random "
        "orders, and n = 2,3,4,8 REAL goroutines released from a spin barrier firing a fresh Event per round (op cfire; likewise cref "
        "for RefCounted: n TryIncrement(+Decrement) racing the last Decrement) to reach windows between accesses that the source "
        "instrumenter cannot separate (closures, sync.Once/Mutex internals); s_timeoutcache: random op sequences over 3 keys with sleeps landing before/on/after deadlines, lock-held windows "
        "(hremove/hclear) clamped to the next deadline, concurrent Add/Remove/Remove||Clear, and the three-party races hrace: "
        "{Remove, Clear(false), Clear(true)} x re-Add of the same or another key x the queued timer goroutines in the orders R-A-T, "
        "R-T-A, T-R-A, followed by sleeps past the new entry's deadline. A case is non-trivial if (refcounted) "
        "the count reached zero and a TryIncrement step ran, (event) at least two firers, (cache) a callback ran or a lock-held "
        "removal returned an entry; distinct = distinct op sequence")


def steps(t, n):
    return ["step " + t] * n


def burst(rng, threads, n, rate=0.6):
    ops = []
    while len(ops) < n:
        t = rng.choice(threads)
        k = 1 + int(rng.expovariate(rate))
        ops += ["step " + t] * k
    return ops[:n]


def rc_directed(rng):
    # i1: start, Load(1) -> at CAS; d1 to zero; stale CAS fails; Load dead -> false
    yield steps("i1", 2) + steps("d1", 2) + steps("i1", 3)
    # two TryIncrements race on the same loaded value
    yield steps("i1", 2) + steps("i2", 2) + steps("i1", 1) + steps("i2", 3) + steps("d1", 2) + steps("d2", 2) + steps("d3", 2) + steps("i3", 3)
    # Increment then three Decrements: cleanup exactly at the third
    yield steps("a1", 2) + steps("d1", 2) + steps("d2", 2) + steps("d3", 2) + steps("i1", 3) + steps("d4", 2)
    # Decrement parked before its Add while a TryIncrement succeeds
    yield steps("d1", 1) + steps("i1", 3) + steps("d1", 1) + steps("d2", 2) + steps("i2", 3)
    # surplus Decrements after death, TryIncrement after
    yield steps("d1", 2) + steps("d2", 2) + steps("d3", 2) + steps("i1", 3) + steps("i2", 3)
    # Increment after death (contract broken): model/impl still agree, monitor is off
    yield steps("d1", 2) + steps("a1", 2) + steps("a2", 2) + steps("i1", 3) + steps("d2", 2) + steps("d3", 2)
    # stale CAS after death and re-zero
    yield steps("i1", 2) + steps("i2", 2) + steps("i3", 2) + steps("d1", 2) + steps("i1", 2) + steps("i2", 2) + steps("i3", 2)
    for _ in range(6):
        a, b = rng.randrange(0, 4), rng.randrange(0, 3)
        yield steps("i1", a) + steps("d1", b) + burst(rng, ["i1", "i2", "d1", "d2", "a1", "i3"], 30)


def rc_random(rng, ln):
    up = ["i1", "i2", "i3", "a1", "a2", "i1", "i2", "d1"]
    down = ["d1", "d2", "d3", "d4", "i1", "i2", "i3", "d1", "d2"]
    k = rng.randrange(0, ln // 2)
    ops = burst(rng, up, k) + burst(rng, down, ln - k)
    if rng.random() < 0.15:
        ops += burst(rng, ["a1", "a2", "i1", "d1"], 10)
    return ops


def ev_all(nf, nh):
    """every interleaving of nf firers and nh readers, 2 steps each"""
    names = ["f%d" % (i + 1) for i in range(nf)] + ["h%d" % (i + 1) for i in range(nh)]
    seen = set()
    for perm in itertools.permutations([n for n in names for _ in range(2)]):
        if perm in seen:
            continue
        seen.add(perm)
        yield ["step " + n for n in perm]


def tc_case(rng, ln):
    T = rng.choice([100, 1000, 60])
    ops = ["new %d" % T]
    item = [0]
    keys = [1, 2, 3]

    def nxt():
        item[0] += 1
        return item[0]

    sleeps = [T // 4, T // 2, T, T - 1, T + 1, 1, T // 4 * 3, 2 * T]
    while len(ops) < ln:
        r = rng.random()
        k = rng.choice(keys)
        if r < 0.30:
            ops.append("add %d %d" % (k, nxt()))
        elif r < 0.42:
            ops.append("remove %d" % k)
        elif r < 0.60:
            ops.append("sleep %d" % rng.choice(sleeps))
        elif r < 0.74:
            ops.append("hremove %d %d" % (k, rng.choice([T, T // 2, 2 * T, T // 4])))
        elif r < 0.78:
            ops.append("hclear %d %d" % (rng.randrange(2), rng.choice([T, T // 2, 2 * T])))
        elif r < 0.80:
            ops.append("hrace %d %d %d %s %s" % (k, nxt(), rng.choice([T, T // 2, 2 * T, T // 4]),
                                               rng.choice(["rat", "rat", "rta", "tra"]), rng.choice(["r", "r", "c0", "c1"])))
        elif r < 0.85:
            ops.append("clear %d" % rng.randrange(2))
        elif r < 0.90:
            ops.append("cadd %d %d %d" % (k, nxt(), rng.randrange(2, 6)))
        elif r < 0.95:
            ops.append("cremove %d %d" % (k, rng.randrange(2, 6)))
        elif r < 0.98:
            ops.append("rc %d %d" % (k, rng.randrange(2)))
        else:
            ops.append("len")
    ops.append("sleep %d" % (2 * T))
    return ops


def tc_directed():
    T = 1000
    n = ["new 1000"]
    yield n + ["add 1 1", "hremove 1 1000", "sleep 2000", "remove 1"]                       # Remove wins after the timer fired
    yield n + ["add 1 1", "add 2 2", "hremove 1 1000", "sleep 2000"]                        # both fire; 2 runs its callback
    yield n + ["add 1 1", "sleep 500", "add 2 2", "hremove 2 1000", "sleep 2000"]           # window at 1's deadline, remove armed 2
    yield n + ["add 1 1", "hremove 1 1000", "add 1 2", "sleep 1000", "remove 1"]            # key re-added after the race
    yield n + ["add 1 1", "add 2 2", "add 3 3", "hclear 1 1000", "sleep 2000", "len"]       # Clear(true) after all fired
    yield n + ["add 1 1", "add 2 2", "hclear 0 1000", "sleep 2000", "add 1 3", "sleep 1000"]
    yield n + ["add 1 1", "sleep 999", "remove 1", "sleep 1", "sleep 1000"]                 # removed just before expiry
    yield n + ["add 1 1", "sleep 1000", "remove 1", "add 1 2", "clear 1", "clear 1", "sleep 3000"]
    yield n + ["add 1 1", "add 1 2", "cremove 1 5", "cadd 2 3 5", "cremove 2 3", "cadd 3 4 4", "rc 3 1", "sleep 2000"]
    yield n + ["add 1 1", "sleep 400", "add 2 2", "sleep 400", "add 3 3", "hremove 9 250", "hremove 3 500", "hremove 3 500", "sleep 1000"]
    yield n + ["add 1 1", "hremove 1 400", "hremove 2 400", "hremove 1 400", "sleep 1000"]   # lock-held sleeps that stop short of the deadline
    # three-party races: timer queued on c.mu / Remove|Clear / re-Add, in every order, then the new entry's fate
    item = 10
    for how in ("r", "c0", "c1"):
        for order in ("rat", "rta", "tra"):
            for key2 in (1, 2):
                item += 1
                yield n + ["add 1 1", "add 3 3", "hrace %d %d 1000 %s %s" % (key2, item, order, how), "len", "sleep 500",
                           "remove %d" % key2, "sleep 2000", "len"]
                item += 1
                yield n + ["add 1 1", "sleep 300", "add 2 2", "hrace 1 %d 2000 %s %s" % (item, order, how), "sleep 999", "sleep 1",
                           "sleep 2000"]
    yield n + ["add 1 1", "hrace 1 2 1000 rat r", "hrace 1 3 1000 rat r", "hrace 1 4 1000 rat c1", "sleep 1000", "remove 1"]
    yield n + ["add 1 1", "hrace 1 2 400 rat r", "sleep 600", "sleep 400"]                      # window stops short of the deadline: plain Remove + Add


def gen(rng, tier):
    n = {"quick": 250, "thorough": 8000, "search": 12000}[tier]
    ln = {"quick": 50, "thorough": 80, "search": 70}[tier]
    for i, ops in enumerate(rc_directed(rng)):
        yield Case("refcounted", ops, "rc-directed-%d" % i)
    for i in range(n):
        yield Case("refcounted", rc_random(rng, ln), "rc-random-%d" % i)
    # event: exhaustive small, random larger
    k = 0
    for nf, nh in ((1, 0), (2, 0), (3, 0), (2, 1), (1, 2)) + (((4, 0), (3, 1)) if tier != "quick" else ()):
        for ops in ev_all(nf, nh):
            yield Case("event", ops, "ev-all-%d" % k)
            k += 1
    for i in range(n // 2):
        ths = ["f1", "f2", "f3", "f4", "f5", "h1", "h2"][:rng.randrange(2, 8)]
        yield Case("event", burst(rng, ths, rng.randrange(4, 30), 1.2), "ev-random-%d" % i)
    # real parallelism (no replayed schedule): windows the source instrumenter cannot separate
    rounds = {"quick": 50, "thorough": 1000, "search": 300}[tier]
    for i, nf in enumerate((2, 3, 4, 8)):
        yield Case("event", ["cfire %d %d" % (nf, rounds)] * 2, "ev-parallel-%d" % i)
        yield Case("refcounted", ["cref %d %d" % (nf, rounds)], "rc-parallel-%d" % i)
    for i, ops in enumerate(tc_directed()):
        yield Case("s_timeoutcache", ops, "tc-directed-%d" % i)
    for i in range(n):
        yield Case("s_timeoutcache", tc_case(rng, rng.randrange(5, ln // 2 + 6)), "tc-random-%d" % i)


def nontrivial(case, impl):
    if case.ops and case.ops[0].startswith("c"):
        return True
    if case.component == "refcounted":
        return any(" zeros=1 " in l for l in impl) and any(op.startswith("step i") for op in case.ops)
    if case.component == "event":
        return len({op for op in case.ops if op.startswith("step f")}) >= 2
    return any("cbs=" in l and "cbs=-" not in l for l in impl) or any(
        op.startswith("hremove") and not l.startswith("nil") for op, l in zip(case.ops, impl))
