"""C07 grpc-timeout encoding never shortens a deadline and always decodes."""
from vlib.core import Case

ID = "C07"
COMPONENTS = ["timeout"]
T4 = ["Timeout"]
PROOF_MODULES = ["GrpcProofs.Properties.C07"]
THEOREMS = ["GrpcProofs.C07." + t for t in (
    "encode_decode", "encode_wellformed", "decode_encode_bytes", "encode_nonpos",
    "decode_accepts_iff", "decode_no_overflow")]
DESIGN_REF = "DESIGN.md section 8, C07"
TECHNIQUE = "Lean 4 theorems (omega over the unit cascade, list induction for digits) + T1 differential correspondence + T4 regenerated constant"
LEVEL_TEXT = ("Machine-checked Lean proof, for every int64 duration and every byte string, of the round-trip bound "
              "d <= d' < d+unit, of the 1-8 digit + unit shape, of the exact acceptance language and of overflow freedom, "
              "about a model of EncodeDuration/decodeTimeout that is diffed against the real functions on every run.")
LEVEL_NOTE = ("Trusted: Lean kernel; the hand model in lean/GrpcModel/Model/Timeout.lean (tied by differential runs: unit boundaries, "
              "all short strings, random); strconv.FormatInt/ParseUint are modelled (digits only, <= 8 of them reach ParseUint).")
GAP = "none beyond strconv (modelled and exercised)"
ASSUMPTIONS = ["time.Duration is int64 nanoseconds", "strconv.ParseUint(s,10,64) on <= 8 bytes accepts exactly non-empty ASCII digit strings"]
RULE = ("enc: int64 durations at every unit boundary +-2, powers of ten, extremes, random; dec: every string of length <= 3 over a "
        "15-symbol alphabet (exhaustive) + random strings up to 11 bytes biased to digits+unit. One op per case-line; an op is "
        "non-trivial unless it is `enc` of a non-positive value; distinct = distinct op text.")

UNITS = [1, 1000, 10**6, 10**9, 60 * 10**9, 3600 * 10**9]
MAXI = 2**63 - 1
ALPHA = [ord(c) for c in "0159HMSmun"] + [ord(' '), ord('+'), ord('-'), 0xC3, ord('h')]


def hexs(bs):
    return "".join("%02x" % b for b in bs) or "-"


def gen(rng, tier):
    n_rand = {"quick": 20000, "thorough": 400000, "search": 200000}[tier]
    ops = []
    vals = set([0, -1, -5, 1, 2, MAXI, MAXI - 1, -2**63])
    for u in UNITS:
        for k in (1, 99999998, 99999999, 100000000, 100000001, 2562047, 2562048, 153722867):
            for d in (-2, -1, 0, 1, 2):
                v = u * k + d
                if -2**63 <= v <= MAXI:
                    vals.add(v)
    for e in range(0, 19):
        for d in (-1, 0, 1):
            vals.add(10**e + d)
    for _ in range(n_rand // 2):
        vals.add(rng.randrange(1, 2**rng.randrange(1, 64)))
    ops += ["enc %d" % v for v in sorted(vals)]
    strs = set()
    strs.add(())
    for a in ALPHA:
        strs.add((a,))
        for b in ALPHA:
            strs.add((a, b))
            for c in ALPHA:
                strs.add((a, b, c))
    digs = [ord(c) for c in "0123456789"]
    for _ in range(n_rand // 2):
        ln = rng.randrange(0, 11)
        s = [rng.choice(digs) if rng.random() < 0.9 else rng.randrange(256) for _ in range(ln)]
        if rng.random() < 0.85:
            s.append(rng.choice([ord(c) for c in "HMSmun"]))
        strs.add(tuple(s))
    for k in (1, 7, 8, 9, 10):
        for u in "HMSmunx":
            strs.add(tuple([ord('9')] * k + [ord(u)]))
            strs.add(tuple([ord('0')] * k + [ord(u)]))
    ops += ["dec %s" % hexs(s) for s in sorted(strs)]
    # pure component: ops are independent, so a few big cases keep process start-up negligible
    chunk = 5000
    for i in range(0, len(ops), chunk):
        yield Case("timeout", ops[i:i + chunk], "timeout-batch-%d" % (i // chunk))


UNIT = "op"


def nontrivial_op(op, out):
    return not op.startswith("enc -") and op != "enc 0"
