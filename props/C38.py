"""C38 Weighted random choice, drops and circuit breaking are exact."""
import math

from vlib.core import Case

ID = "C38"
COMPONENTS = ["wrrrandom"]
T4 = ["WRRRandom", "WRRStride"]
PROOF_MODULES = ["GrpcProofs.Properties.C38"]
THEOREMS = ["GrpcProofs.C38." + t for t in (
    "search_spec", "random_range", "random_range_positive", "next_counts", "next_counts_equal",
    "zero_weight_never", "next_in_bounds",
    "gcd_is_gcd", "drop_fraction_exact", "requests_per_million_exact", "drop_category_fraction", "droppers_follow_latest_config",
    "drops_only_when_ready", "drop_iff_first_firing_category",
    "admitted_only_below_max", "sequential_inflight_le_max", "inflight_is_admitted_minus_finished",
    "inflight_returns_to_zero",
    "edf_deadline_closed_form", "edf_proportional", "edf_exact_cycle")]
DESIGN_REF = "DESIGN.md section 8, C38"
TECHNIQUE = ("Lean 4 theorems (binary-search correctness + prefix-sum slices counted over the whole random source; gcd/dropper "
             "arithmetic; invariants over pick/done sequences; EDF deadline closed form over exact rationals) + T1 differential "
             "correspondence on the real randomWRR / edfWrr / clusterimpl dropper+picker / ClusterRequestsCounter with the random "
             "source wrr.randInt64n dictated or enumerated by the harness + T4 constant")
LEVEL_TEXT = ("Machine-checked Lean proof that, over the whole range of the random source, randomWRR.Next returns item i for exactly "
              "w_i of the Σw values (1 of n when all weights are equal; a zero-weight item for none), that a clusterimpl dropper "
              "fires for exactly rpm/10^6 of its random source and rpm is exactly min(numerator/denominator, 1)*10^6 for the EDS "
              "denominators, that category drops happen only when the child is READY and by the first firing category, that "
              "circuit breaking admits only below max_requests and the request count equals admitted minus finished, and that "
              "the EDF selector over exact rationals keeps c_i/w_i <= (c_j+1)/w_j and returns item i exactly w_i times per Σw picks.")
LEVEL_NOTE = ("EDS update path: the drop part of handleClusterConfigLocked is ported as handleDrops (droppers_follow_latest_config: after any update sequence the droppers are those of the latest configuration) and the real handleClusterConfigLocked + newPickerLocked are driven through update sequences; the monitor also demands that every consulted dropper draws from the range 10^6/gcd(rate,10^6) of its CURRENT rate. Dictated random values are reduced modulo the range the code asks for (so any sub-sequence replays). `probability` is read as the count over the uniform random source rand.Int64N(range) (range = Σw, or n for equal "
              "weights), which the harness enumerates or dictates. EDF theorems are about exact rational deadlines; the float64 "
              "code is diffed pick by pick against the Float instance of the same definition and its counts are monitored with "
              "|c_i/w_i - c_j/w_j| <= 1/w_i + 1/w_j and exact per-cycle counts. Weights are non-negative (all callers pass uint32); "
              "RequestsPerMillion > 10^6 (never produced by dropRequestsPerMillion) wraps in uint32 and is outside the theorems. "
              "Concurrent picks may exceed max_requests (documented in the code); the statement is about sequential picks.")
GAP = "float rounding in edf.go deadlines (tied bit-for-bit, not reasoned about); concurrent StartRequest races (out of the statement)"
ASSUMPTIONS = ["rand.Int64N(n) is uniform on [0,n)", "weights handed to wrr are >= 0 and their sum fits int64",
               "Done of an admitted RPC is called at most once (gRPC's contract for balancer.PickResult.Done)"]
RULE = ("renum: every weight list over {0,1,2,3} of length <= 4 plus random lists with total <= 10^4 (whole random source "
        "enumerated on the real randomWRR); rw/rnext: lists up to 40 items with weights up to 2^31 and r at every slice boundary; "
        "edf/enext: weights 1..1000 (powers of two, primes, equal), prefixes of several cycles; gcd/rpm: boundary and random "
        "numerators incl. numerator > denominator; denum: droppers for boundary/random requests-per-million, whole random source; "
        "pk/pick/done: random picker configurations (READY or not, 0-3 categories, max_requests 0..5 or none), random values at the "
        "drop thresholds, random completions, final drain. cfgupd: sequences of EDS updates through the real "
        "handleClusterConfigLocked/newPickerLocked (same category with a changed rate, add/remove/reorder, repeats, max_requests) "
        "with picks at the thresholds of the current rates. Non-trivial: the case contains a Next/enumeration/pick.")

MILLION = 10 ** 6


def csv(l):
    return ",".join(str(x) for x in l) if l else "-"


def rand_small_list(rng):
    n = rng.randrange(1, 9)
    kind = rng.randrange(5)
    if kind == 0:
        return [rng.randrange(0, 50) for _ in range(n)]
    if kind == 1:
        w = rng.randrange(0, 30)
        return [w] * n
    if kind == 2:
        return [rng.choice([0, 0, 1, 7, 1000]) for _ in range(n)]
    if kind == 3:
        return [rng.randrange(1, 2000) for _ in range(min(n, 4))]
    ws = [0] * n
    ws[rng.randrange(n)] = rng.randrange(1, 5000)
    return ws


def rand_big_list(rng):
    n = rng.randrange(1, 41)
    kind = rng.randrange(4)
    if kind == 0:
        return [rng.randrange(0, 2 ** 31) for _ in range(n)]
    if kind == 1:
        return [rng.choice([0, 1, 2 ** 31 - 1, 2 ** 16]) for _ in range(n)]
    if kind == 2:
        w = rng.randrange(0, 2 ** 20)
        return [w] * n
    return [rng.randrange(0, 10) for _ in range(n)]


def bound_of(rpm):
    return MILLION // math.gcd(rpm, MILLION)


def picker_case(rng, length):
    ops = []
    rpms = []
    npicks = 0

    def new_pk():
        nonlocal rpms
        k = rng.choice([0, 1, 1, 2, 3])
        rpms = [rng.choice([0, MILLION, 500000, 250000, 333333, 1, 999999, 30000, rng.randrange(0, MILLION + 1)])
                for _ in range(k)]
        mx = rng.choice(["-", "0", "1", "2", "3", "5", "5"])
        ops.append("pk %d %s %s" % (rng.random() < 0.75, mx, csv(rpms)))

    new_pk()
    for _ in range(length):
        r = rng.random()
        if r < 0.08:
            new_pk()
        elif r < 0.70:
            rs = []
            for rpm in rpms:
                b = bound_of(rpm)
                p = rpm // math.gcd(rpm, MILLION)
                cand = [0, b - 1, p, p - 1, p + 1, rng.randrange(b)]
                if rng.random() < 0.7:
                    cand = [b - 1, p, rng.randrange(b)]      # mostly not dropped, so that circuit breaking is reached
                x = rng.choice(cand)
                rs.append(min(max(x, 0), b - 1))
            ops.append("pick %d %s" % (rng.random() < 0.85, csv(rs)))
            npicks += 1
        else:
            ops.append("done %d" % rng.randrange(0, npicks + 1))
    for i in range(npicks + 1):
        ops.append("done %d" % i)
    ops.append("pk 1 3 -")
    ops.append("pick 1 -")
    return ops


def eds_case(rng, length):
    """EDS updates through the REAL handleClusterConfigLocked + newPickerLocked: categories keep their names while their
    rates change, categories are added / removed / reordered, identical updates are repeated; picks in between use random
    values at the drop thresholds of the CURRENT rates."""
    names = ["throttle", "lb", "overload"]
    dens = [100, 10000, MILLION]
    cur = []
    ops = []

    def rate():
        den = rng.choice(dens)
        num = rng.choice([0, 1, den // 2, den // 4, den // 10, den - 1, den, den + 1, rng.randrange(0, den + 1)])
        return num, den

    def emit():
        mx = rng.choice(["-", "-", "3", "5"])
        ops.append("cfgupd %d %s %s" % (rng.random() < 0.85, mx, ",".join("%s:%d:%d" % c for c in cur) or "-"))

    for nm in rng.sample(names, rng.randrange(1, 3)):
        cur.append((nm,) + rate())
    emit()
    npicks = 0
    for _ in range(length):
        r = rng.random()
        if r < 0.30:
            k = rng.random()
            if k < 0.55 and cur:
                i = rng.randrange(len(cur))
                cur[i] = (cur[i][0],) + rate()            # same category, new rate
            elif k < 0.70 and len(cur) < 3:
                nm = rng.choice([x for x in names if x not in [c[0] for c in cur]])
                cur.insert(rng.randrange(len(cur) + 1), (nm,) + rate())
            elif k < 0.80 and cur:
                cur.pop(rng.randrange(len(cur)))
            elif k < 0.90:
                rng.shuffle(cur)
            emit()
        elif r < 0.90:
            rs = []
            for _, num, den in cur:
                rpm = min(num * MILLION // den, MILLION)
                b = bound_of(rpm)
                p = rpm // math.gcd(rpm, MILLION)
                x = rng.choice([0, b - 1, p, p - 1, p + 1, rng.randrange(b), p, p - 1])
                rs.append(min(max(x, 0), b - 1))
            ops.append("pick %d %s" % (rng.random() < 0.9, csv(rs)))
            npicks += 1
        else:
            ops.append("done %d" % rng.randrange(0, npicks + 1))
    return ops


def gen(rng, tier):
    n_enum = {"quick": 250, "thorough": 6000, "search": 3000}[tier]
    n_big = {"quick": 150, "thorough": 4000, "search": 2000}[tier]
    n_edf = {"quick": 120, "thorough": 3000, "search": 1500}[tier]
    n_arith = {"quick": 3000, "thorough": 60000, "search": 30000}[tier]
    n_den = {"quick": 150, "thorough": 2000, "search": 1000}[tier]
    n_den_full = {"quick": 2, "thorough": 20, "search": 10}[tier]
    n_pk = {"quick": 200, "thorough": 5000, "search": 2500}[tier]

    ops = ["renum -"]
    # exhaustive small domain
    vals = [0, 1, 2, 3]
    for n in range(1, 5):
        def rec(prefix):
            if len(prefix) == n:
                ops.append("renum " + csv(prefix))
                return
            for v in vals:
                rec(prefix + [v])
        rec([])
    for _ in range(n_enum):
        ws = rand_small_list(rng)
        if sum(ws) <= 10000:
            ops.append("renum " + csv(ws))
    # arithmetic
    for a, b in [(0, MILLION), (MILLION, MILLION), (1, MILLION), (500000, MILLION), (999999, MILLION), (0, 0), (7, 0)]:
        ops.append("gcd %d %d" % (a, b))
    for _ in range(n_arith // 2):
        ops.append("gcd %d %d" % (rng.randrange(0, 2 ** rng.randrange(1, 33)), rng.choice([MILLION, rng.randrange(0, 2 ** 32)])))
    for den in (100, 10000, MILLION):
        for num in (0, 1, den - 1, den, den + 1, 2 * den, 2 ** 32 - 1, den // 2, den // 3):
            ops.append("rpm %d %d" % (num, den))
    for _ in range(n_arith // 2):
        den = rng.choice([100, 10000, MILLION, MILLION, rng.randrange(1, 2 ** 32)])
        num = rng.choice([rng.randrange(0, den + 1), rng.randrange(0, 2 ** 32), rng.randrange(0, 2 * den + 1) % 2 ** 32])
        ops.append("rpm %d %d" % (num, den))
    # droppers over their whole random source
    for rpm in (0, 1, MILLION, MILLION - 1, 500000, 250000, 750000, 30000, 333333, 200, 64, 15625):
        if bound_of(rpm) <= 20000:
            ops.append("denum %d" % rpm)
    for _ in range(n_den):
        g = rng.choice([10 ** 6, 10 ** 5, 10 ** 4, 5 ** 6, 2 ** 6, 1000, 500, 250, 200, 125, 100, 64, 50])
        rpm = g * rng.randrange(0, MILLION // g + 1)
        if bound_of(rpm) <= 20000:
            ops.append("denum %d" % rpm)
    for _ in range(n_den_full):
        ops.append("denum %d" % rng.randrange(0, MILLION + 1))
    chunk = 3000
    for i in range(0, len(ops), chunk):
        yield Case("wrrrandom", ops[i:i + chunk], "stateless-batch-%d" % (i // chunk))

    # dictated random values on large weights
    for j in range(n_big):
        ws = rand_big_list(rng)
        o = ["rw " + csv(ws)]
        total = sum(ws)
        alleq = all(w == ws[0] for w in ws)
        bound = len(ws) if alleq else total
        cands = set([0, bound - 1])
        acc = 0
        for w in ws:
            acc += w
            cands.update([acc - 1, acc, acc + 1])
        for _ in range(6):
            cands.add(rng.randrange(bound))
        for r in sorted(c for c in cands if 0 <= c < bound)[:120]:
            o.append("rnext %d" % r)
        yield Case("wrrrandom", o, "random-dictated-%d" % j)

    # EDF
    for j in range(n_edf):
        n = rng.randrange(1, 9)
        kind = rng.randrange(5)
        if kind == 0:
            ws = [2 ** rng.randrange(0, 8) for _ in range(n)]
        elif kind == 1:
            ws = [rng.choice([1, 2, 3, 5, 7, 11, 13, 97, 101]) for _ in range(n)]
        elif kind == 2:
            ws = [rng.randrange(1, 1001) for _ in range(n)]
        elif kind == 3:
            ws = [rng.randrange(1, 20)] * n
        else:
            ws = [rng.randrange(1, 12) for _ in range(n)]
        W = sum(ws)
        o = ["edf " + csv(ws)]
        budget = 3 * W if W < 3000 else W + 50
        done = 0
        while done < budget:
            k = rng.choice([1, 2, 3, W, W - 1, rng.randrange(1, W + 2), max(1, W - done % W)])
            k = max(1, min(k, 5000))
            o.append("enext %d" % k)
            done += k
        yield Case("wrrrandom", o, "edf-%d" % j)
    yield Case("wrrrandom", ["edf -", "enext 1", "rw -", "rnext 0"], "empty")

    # EDS update sequences through the real cluster-config path
    for j in range({"quick": 150, "thorough": 4000, "search": 2000}[tier]):
        yield Case("wrrrandom", eds_case(rng, rng.randrange(8, 50)), "eds-%d" % j)
    # pickers
    for j in range(n_pk):
        yield Case("wrrrandom", picker_case(rng, rng.randrange(5, 60)), "picker-%d" % j)


def nontrivial(case, impl_lines):
    return any(op.split(" ")[0] in ("renum", "rnext", "enext", "denum", "pick", "gcd", "rpm") for op in case.ops)
