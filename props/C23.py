"""C23 Every successful pick's Done callback runs exactly once."""
import importlib.util
import os

from vlib.core import Case

ID = "C23"
COMPONENTS = ["s_pickdone"]
T4 = ["Retry"]
PROOF_MODULES = ["GrpcProofs.Properties.C23"]
THEOREMS = ["GrpcProofs.C23." + t for t in (
    "finish_runs_done_at_most_once", "every_attempt_finished_once", "done_exactly_once_at_end", "finish_finishes",
    "cancel_finishes", "abandoned_attempt_finished_before_retry", "failed_creation_finished_once", "pick_loop_done", "cancelled_pick_done",
    "pick_loop_fresh_ids")]
DESIGN_REF = "DESIGN.md section 8, C23"
TECHNIQUE = ("Lean 4 invariant proofs over the retry-loop model of C18 (csAttempt.finish is reached exactly once per attempt on every "
             "path: retryLocked, clientStream.finish, cancellation) + list induction for pickerWrapper.pick + T2 differential run with an "
             "instrumented scripted picker on a real ClientConn")
LEVEL_TEXT = ("Machine-checked Lean proofs, for every server script, retry policy, buffer limit and application op sequence (including "
              "cancellation), that in the model of withRetry/retryLocked/clientStream.finish every attempt that is no longer current has "
              "had csAttempt.finish (hence its pick's Done) run exactly once, no attempt more than once, and after clientStream.finish "
              "every attempt exactly once; and that the pick loop calls Done exactly once, immediately, on every non-ready result it "
              "discards and never on the result it returns or on errors.")
LEVEL_NOTE = ("Domain (DESIGN section 7): pick results whose SubConn was created by this channel. Picker errors are limited to "
              "ErrNoSubConnAvailable and a status error on the very first pick; non-status picker errors are outside the correspondence. "
              "'Fails to create a stream': transport.NewStream failing after a successful pick is modelled (St.failStep/failLoop: the attempt "
              "never becomes cs.attempt and is finished at the top of retryLocked's next turn) and driven through failing per-RPC credentials, "
              "on first and on retried attempts. "
              "A context that ends while Pick runs (stale picker handing out a not-READY SubConn, or none) is modelled as pick kinds "
              "notready! / nosc! and driven by cancelling the RPC from inside the scripted picker. "
              "Cancellation is exercised for streaming RPCs (the goroutine of newClientStream calls cs.finish).")
GAP = "a zero-length retry backoff right after a GOAWAY (the retry races with the channel dropping the draining transport; the generator keeps it positive); foreign SubConn types; non-status picker errors; NewStream failures other than a status error without transparent retry; concurrent picker updates racing with a pick"
ASSUMPTIONS = ["the scripted server writes answers only at quiescent points", "a new picker is published at the next quiescent point after nosc/notready"]
RULE = ("s_pickdone: the C18 generator's policies/server scripts/app op sequences plus `cancel`, combined with a picker script of "
        "ok / oknd / notready / nosc entries (and hang or a status-error drop as the outcome of the first pick) and a script of stream-creation "
        "outcomes (per-RPC credentials failing after a successful pick, on the first or on a retried attempt, with a retryable or fatal code), "
        "and picks during which the RPC's context ends while the picker hands out a not-READY SubConn or none (notready! / nosc!); every pick and every Done "
        "call of the real channel is logged with ids. Non-trivial = at least two picks or a Done with a non-zero code.")


def _c18():
    spec = importlib.util.spec_from_file_location("props_C18_for_C23", os.path.join(os.path.dirname(__file__), "C18.py"))
    m = importlib.util.module_from_spec(spec)
    spec.loader.exec_module(m)
    return m


def picks(rng, ns_fail=False, cancel_ok=True):
    """ns_fail: some stream creations fail, so which pick serves the first attempt is not known here: hang/drop are left out"""
    first = []
    for _ in range(rng.choice([0, 0, 0, 1, 1, 2])):
        first.append(rng.choice(["notready", "nosc"]))
    r = rng.random()
    if ns_fail:
        r = 0.5
    if r < 0.06:
        first.append("hang")
    elif r < 0.12:
        first.append("drop%d" % rng.choice([7, 14, 8, 5]))
    else:
        first.append(rng.choice(["ok", "ok", "ok", "oknd"]))
    rest = [rng.choice(["ok", "ok", "oknd", "notready", "nosc", "ok"]) for _ in range(rng.randrange(0, 8))]
    out = first + rest
    # the RPC's context ends while a Pick runs that hands out a not-READY SubConn / no SubConn (a stale picker and a
    # cancellation racing): anywhere in the script, i.e. on the first attempt or on a retried one
    if cancel_ok and rng.random() < 0.3:
        k = rng.randrange(0, len(out))
        if out[k] not in ("hang",) and not out[k].startswith("drop"):
            out[k] = rng.choice(["notready!", "notready!", "nosc!"])
    return out


def app(rng, kind, c18):
    ops = [o.replace("sendrecv ", "send ") for o in c18.app(rng, kind)]
    ops[0] = "new d"
    if kind != "u" and rng.random() < 0.4:
        k = rng.randrange(1, len(ops) + 1)
        ops = ops[:k] + ["cancel"] + ops[k:][:2]
    return ops


def directed():
    P = "cfg ma=%d codes=14 ib=1000000000 mb=10000000000 mult=2 chan=0 thr=- dis=0 kind=%s script=%s ns=%s picks=%s"
    out = []

    def c(tag, ma, kind, script, pk, ops, ns="-"):
        out.append(Case("s_pickdone", [P % (ma, kind, script, ns, pk)] + ops, "directed-" + tag))
    c("retry-notready-nosc", 4, "u", "TE:14;R;HE:0", "ok,notready,nosc,oknd", ["new d", "send 10", "recv", "recv"])
    c("cancel-live", 4, "b", "N", "ok", ["new d", "send 1", "cancel", "recv"])
    c("cancel-after-failure", 4, "b", "T0:14;T0:14", "-", ["new d", "send 1", "cancel", "recv"])
    c("hang-cancel", 4, "b", "-", "hang", ["new d", "cancel", "send 1"])
    c("notready-hang-cancel", 4, "b", "-", "notready,hang", ["new d", "cancel"])
    c("drop", 4, "b", "-", "notready,drop7", ["new d", "send 1"])
    c("success", 4, "b", "H1:0", "ok", ["new d", "send 1", "recv", "recv", "close"])
    c("exhaust", 3, "u", "TE:14;TE:14;TE:14;TE:14", "ok,ok,ok,ok", ["new d", "send 1", "recv", "recv"])
    c("headers-then-fail", 3, "b", "HE:14", "notready,ok", ["new d", "send 1", "close", "recv", "recv"])
    c("goaway", 3, "b", "G;TE:14;HE:0", "ok,nosc,ok,notready,oknd", ["new d", "send 3", "close", "recv", "recv"])
    c("send-error-finishes", 3, "c", "N", "ok", ["new d", "send 1", "close", "send 2", "recv"])
    # the pick succeeds, creating the stream fails (per-RPC credentials): retried attempt / first attempt, fatal / retryable
    c("ns-retry-fatal", 4, "u", "TE:14;HE:0", "ok,ok", ["new d", "send 1", "recv", "recv"], "-,16")
    c("ns-retry-retryable", 4, "u", "TE:14;HE:0", "ok,notready,ok,oknd,ok", ["new d", "send 1", "recv", "recv"], "-,14,14")
    c("ns-first-fatal", 4, "b", "HE:0", "notready,ok", ["new d", "send 1"], "16")
    c("ns-first-retryable", 4, "b", "HE:0", "ok,ok,ok", ["new d", "send 1", "close", "recv", "recv"], "14,14,-")
    c("ns-send-path", 4, "b", "T0:14;HE:0", "ok,ok,oknd,ok", ["new d", "send 1", "send 2", "close", "recv"], "-,14,14,-")
    c("ns-exhaust", 3, "u", "TE:14;HE:0", "-", ["new d", "send 1", "recv"], "-,14,14,14")
    # the context ends inside Pick while the picker hands out a not-READY SubConn (with Done) or nothing
    c("cancel-in-pick-first", 4, "b", "HE:0", "notready!,ok", ["new d", "send 1"])
    c("cancel-in-pick-first-nosc", 4, "b", "HE:0", "notready,nosc!,ok", ["new d", "send 1"])
    c("cancel-in-pick-retry", 4, "u", "TE:14;HE:0", "ok,notready!,ok", ["new d", "send 1", "recv", "recv"])
    c("cancel-in-pick-retry-b", 4, "b", "T1:14;HE:0", "ok,notready,notready!,ok", ["new d", "send 1", "send 2", "recv"])
    c("cancel-in-pick-after-ns", 4, "u", "TE:14;HE:0", "ok,ok,nosc!,ok", ["new d", "send 1", "recv"], "-,14")
    return out


def gen(rng, tier):
    c18 = _c18()
    for c in directed():
        yield c
    n = {"quick": 500, "thorough": 15000, "search": 5000}[tier]
    for i in range(n):
        line, kind = c18.cfg(rng)
        # CANCELLED must not be a retryable code when the context is cancelled inside a pick (the retry would only
        # meet the cancelled context again)
        codes = line.split(" codes=")[1].split(" ")[0].split(",")
        yield Case("s_pickdone", [line + " picks=" + ",".join(picks(rng, "ns=-" not in line, "1" not in codes))] + app(rng, kind, c18), "rand-%d" % i)


def nontrivial(case, impl_lines):
    txt = " ".join(impl_lines)
    return txt.count("P") >= 2 or any(":%d" % c in txt for c in (1, 14, 8, 4, 13))
