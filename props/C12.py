"""C12 A misbehaving client cannot crash the server or reach a handler illegally."""
from vlib.core import Case

ID = "C12"
COMPONENTS = ["s_admit", "binhdr"]
T4 = ["ServerAdmission", "Errors", "Timeout"]
PROOF_MODULES = ["GrpcProofs.Properties.C12"]
THEOREMS = ["GrpcProofs.C12." + t for t in (
    "handle_implies_legal", "handle_implies_all_content_types_valid_counterexample",
    "handler_runs_only_for_registered_method", "active_le_maxStreams", "excess_gets_refused_stream",
    "illegal_id_never_handled", "maxStreamID_monotone", "framer_reject_never_handled",
    "accepted_id_recorded", "used_id_never_handled_later", "handle_implies_timeout_grammar")]
DESIGN_REF = "DESIGN.md section 8, C12"
TECHNIQUE = ("Lean 4 theorems about a port of operateHeaders (checks in source order) composed with a model of the x/net/http2 "
             "header validation it sits on, plus an inductive invariant over all frame sequences; tie T2: real grpc.Server over "
             "net.Pipe in a synctest bubble against a raw-frame client, whole response line diffed; T1 for the pure helpers "
             "(decodeBinHeader, ContentSubtype); T4 for reserved/whitelisted header tables and status codes")
LEVEL_TEXT = ("Machine-checked proof that, for every server state and every header list, `handle` is decided only for a request with an "
              "odd id above the highest accepted id, exactly one :method = POST, a valid gRPC content-type, only well-formed "
              "grpc-timeouts, at most one :authority and one host, only decodable -bin metadata, no connection header, not truncated, "
              "and fewer than MaxConcurrentStreams active streams; that a handler runs only for a registered /service/method; that "
              "over all op sequences active streams never exceed the limit; and that an otherwise admissible request at the limit gets "
              "RST_STREAM(REFUSED_STREAM). The model is diffed against a real grpc.Server on every run; a monitor re-evaluates the "
              "legality predicate on every handler start the real server performs.")
LEVEL_NOTE = ("Trusted: Lean kernel; the hand model lean/GrpcModel/Model/ServerAdmission.lean, which includes an ENVIRONMENT model of "
              "x/net/http2's readMetaFrame/checkPseudos and of encoding/base64 acceptance (both exercised by the same differential "
              "runs, base64 and ContentSubtype additionally exhaustively on short strings). Readings: 'illegal stream id' = even, or "
              "not above the highest id that was legal when it arrived, whatever the server then did with that request (415, 400, "
              "REFUSED_STREAM, ...): the monitor computes it from the frames the client sent, not from the server's maxStreamID field "
              "(a HEADERS the framer rejected, or a truncated one, does not advance it: HTTP/2 would call the re-use illegal, grpc-go "
              "does not notice); 'invalid content-type' is checked in "
              "the strict sense (every content-type field valid) by the monitor and the unchanged server violates it when a valid "
              "content-type is accompanied by an invalid one (known finding F20); the theorem carries the lenient clause and the "
              "counterexample. 'never panics' is observed, not proved: a panic or crash of the real server on any generated input "
              "(including raw frames and raw bytes) fails the check. After a connection error, a raw frame or raw bytes the model "
              "stops predicting lines and only the monitor judges. HPACK blocks stay within 2x MaxHeaderListSize and strings within "
              "MaxHeaderListSize (beyond that the framer kills the connection). grpc-encoding is never sent (the decompressor "
              "lookup in server.go is outside this property). InTapHandle is nil.")
GAP = "CONTINUATION frames, HPACK dynamic-table attacks, flow control, keepalive enforcement and GOAWAY/drain are outside the model"
ASSUMPTIONS = ["x/net/http2 Framer and HPACK behave as modelled (differentially exercised)",
               "the registered handler returns when its context is cancelled"]
RULE = ("cases = start (MaxConcurrentStreams 0..5, optional small MaxHeaderListSize) + 8-30 ops: HEADERS built from a valid request by "
        "0-3 mutations (method, content-type incl. duplicates, grpc-timeout incl. zero/malformed/duplicates, -bin metadata valid/invalid "
        "base64, :authority/host multiplicities, connection, path variants, pseudo-header order/unknown/response pseudo, upper-case "
        "or illegal names, control bytes in values, filler fields up to truncation, END_STREAM) with ids next-odd / even / repeated / "
        "lower / 0 / jump, re-use of the id of a request that was just turned down (every rejection reason x same/lower id, directed + random), interleaved with handler completion, client RST_STREAM, DATA(END_STREAM) incl. after half-close, virtual "
        "sleep past grpc-timeouts, arbitrary frames and raw bytes; malformed grpc-timeouts = signs, blanks, separators, base prefixes, "
        "floats/exponents, non-ASCII digits, unit and length variants + single-byte damage of well-formed values; binhdr: base64 over every "
        "string of length <= 4 (7 symbols), decodeTimeout over every string of length <= 4 (11 symbols: digits, signs, blank, _ . x, units) + random; a case is non-trivial if a handler ran in it; distinct = distinct op list")


def hx(b):
    if isinstance(b, str):
        b = b.encode("utf-8")
    return b.hex() or "-"


def F(n, v):
    return hx(n) + ":" + hx(v)


def base_fields(i, path="/s/m"):
    return [(":method", "POST"), (":scheme", "http"), (":path", path), (":authority", "a"),
            ("content-type", "application/grpc"), ("te", "trailers"), ("x-id", str(i))]


GOOD_TIMEOUTS = ["100m", "1S", "5H", "99999999n", "250m", "2S", "30m"]
ZERO_TIMEOUTS = ["0n", "0S", "00000000H"]
# everything strconv.ParseUint / ParseInt / Atoi / ParseFloat (and base-0 parsing) disagree on, plus length, unit and
# byte-level variants: the wire grammar is 1*8DIGIT ( H / M / S / m / u / n ), nothing else
BAD_TIMEOUTS = [
    "", "1", "m", "S", "0", "123456789S", "000000000S", "1x", "S1",
    # signs
    "+5S", "-5S", "-1S", "+0n", "-0S", "+0000005S", "-0000005S", "++5S", "+-5S", "5+S", "5-S", "+S", "-S", "+12345678S",
    # blanks
    " 1S", "1S ", "1 S", " 5S ", "\t5S", "5\tS", "5S\t", "1 0S",
    # digit separators / other bases
    "1_0S", "_5S", "5_S", "1,000S", "0x5S", "0X5S", "0x1fS", "0b1S", "0o7S", "0_5S", "1fS",
    # floats / exponents / specials
    "1.5S", ".5S", "5.S", "1e3S", "1E3S", "infS", "NaNS", "1e-1S",
    # non-ASCII digits and bytes
    "１S", "٥S", "5\u00b5", "5\u00b5s", "\u00a05S",
    # units
    "5s", "5h", "5U", "5N", "5ms", "5SS", "5Sx", "5Sn", "5 ", "5d", "5µS",
]


def mutated_timeout(rng):
    """a well-formed timeout damaged by one inserted / replaced byte"""
    v = list(rng.choice(GOOD_TIMEOUTS + ["5S", "12345678S", "0000005S", "7n"]))
    c = rng.choice(list("+- _.,xXeE\t0") + ["\u00a0", "S", "s"])
    k = rng.randrange(0, len(v) + 1)
    if rng.random() < 0.7:
        v.insert(k, c)
    elif v:
        v[min(k, len(v) - 1)] = c
    return "".join(v)


GOOD_B64 = ["", "YQ", "YQ==", "YWI", "YWI=", "YWJj", "YWJjZA", "YWJjZA==", "+/+/", "AAAA"]
BAD_B64 = ["!!!", "a", "ab=c", "a===", "=", "YQ=", "YWJjZ", "YQ==YQ==", "YW Jj", "YWJj=", "====", "Y*Jj"]
CTS_OK = ["application/grpc", "application/grpc+proto", "application/grpc;x", "application/grpc+", "application/grpc;"]
CTS_BAD = ["text/html", "application/grpcx", "application/grp", "", "Application/grpc", " application/grpc", "application/json"]
PATHS = ["/s/zz", "/x/m", "nopath", "/", "//", "/s/m/", "/s//m", "", "/a/b/s/m", "s/m", "/sm", "/s/m?x"]


def set_field(fields, name, value):
    out, done = [], False
    for n, v in fields:
        if n == name and not done:
            out.append((n, value))
            done = True
        else:
            out.append((n, v))
    return out


def drop_field(fields, name):
    return [(n, v) for n, v in fields if n != name]


def mutate(rng, fields, kinds):
    """returns (fields, still_valid_guess)"""
    k = rng.choice(kinds)
    ok = True
    if k == "method":
        v = rng.choice(["GET", "PUT", "", "post", "POSTX", None, "DUP"])
        if v is None:
            fields = drop_field(fields, ":method")
        elif v == "DUP":
            fields = [(":method", rng.choice(["POST", "GET"]))] + fields
        else:
            fields = set_field(fields, ":method", v)
        ok = False
    elif k == "ct":
        m = rng.randrange(6)
        if m in (3, 4) and rng.random() < 0.75:
            m = 5      # keep the known finding F20 rare: it ends the judgement of its case
        if m == 0:
            fields = drop_field(fields, "content-type")
            ok = False
        elif m == 1:
            fields = set_field(fields, "content-type", rng.choice(CTS_BAD))
            ok = False
        elif m == 2:
            fields = set_field(fields, "content-type", rng.choice(CTS_OK))
        elif m == 3:   # valid then invalid (F20)
            fields = fields + [("content-type", rng.choice(CTS_BAD))]
        elif m == 4:   # invalid then valid (F20)
            fields = set_field(fields, "content-type", rng.choice(CTS_BAD)) + [("content-type", rng.choice(CTS_OK))]
        else:
            fields = fields + [("content-type", rng.choice(CTS_OK))]
    elif k == "timeout":
        m = rng.randrange(6)
        if m <= 1:
            fields = fields + [("grpc-timeout", rng.choice(GOOD_TIMEOUTS))]
        elif m == 2:
            fields = fields + [("grpc-timeout", rng.choice(ZERO_TIMEOUTS))]
            ok = False
        elif m == 3:
            fields = fields + [("grpc-timeout", rng.choice(BAD_TIMEOUTS) if rng.random() < 0.6 else mutated_timeout(rng))]
            ok = False
        elif m == 4:
            fields = fields + [("grpc-timeout", rng.choice(BAD_TIMEOUTS)), ("grpc-timeout", rng.choice(GOOD_TIMEOUTS))]
            ok = False
        else:
            fields = fields + [("grpc-timeout", rng.choice(GOOD_TIMEOUTS)), ("grpc-timeout", rng.choice(GOOD_TIMEOUTS + BAD_TIMEOUTS))]
    elif k == "bin":
        name = rng.choice(["a-bin", "-bin", "grpc-status-details-bin", "x-bin", "a-bin-x", "bin", "user-agent", "grpc-message"])
        good = rng.random() < 0.5
        fields = fields + [(name, rng.choice(GOOD_B64 if good else BAD_B64))]
        ok = good or not name.endswith("-bin")
    elif k == "authority":
        m = rng.randrange(6)
        if m == 0:
            fields = drop_field(fields, ":authority")
        elif m == 1:
            fields = fields + [("host", "h1")]
        elif m == 2:
            fields = fields + [("host", "h1"), ("host", "h2")]
            ok = False
        elif m == 3:
            fields = drop_field(fields, ":authority") + [("host", "h1")]
        elif m == 4:
            fields = drop_field(fields, ":authority") + [("host", "h1"), ("host", "h1"), ("host", "h3")]
            ok = False
        else:
            fields = [(":authority", "b")] + fields      # duplicate pseudo: the framer rejects it
            ok = False
    elif k == "connection":
        fields = fields + [("connection", rng.choice(["keep-alive", "", "close"]))]
        ok = False
    elif k == "path":
        v = rng.choice(PATHS + [None])
        fields = drop_field(fields, ":path") if v is None else set_field(fields, ":path", v)
        ok = False
    elif k == "framer":
        m = rng.randrange(8)
        if m == 0:
            fields = fields + [(":scheme", "http")] if rng.random() < 0.5 else fields + [(":path", "/s/m")]   # pseudo after regular
        elif m == 1:
            fields = [(":foo", "x")] + fields
        elif m == 2:
            fields = [(":status", "200")] + fields
        elif m == 3:
            fields = fields + [(rng.choice(["Upper", "X-Id", "a b", "", "a\x00", "é", "a:b", "(x)"]), "v")]
        elif m == 4:
            fields = fields + [("ctl", rng.choice(["a\x01b", "\x7f", "a\nb", "\r"]))]
        elif m == 5:
            fields = fields + [("hi", rng.choice(["\x80\xff", "a\tb", " lead", "é"]))]
            return fields, ok
        elif m == 6:
            fields = [f for f in fields if not f[0].startswith(":")] + [f for f in fields if f[0].startswith(":")]
        else:
            fields = [(":protocol", "websocket")] + fields
            return fields, ok
        ok = False
    elif k == "filler":
        n = rng.choice([1, 3, 6, 10, 16])
        fields = fields + [("f%d" % j, "v" * rng.randrange(0, 12)) for j in range(n)]
    elif k == "reserved":
        fields = fields + [(rng.choice(["grpc-status", "grpc-message", "user-agent", "te", "grpc-message-type", "grpc-accept-encoding",
                                        "grpc-previous-rpc-attempts", "grpc-tags-bin", "grpc-trace-bin"]), rng.choice(["0", "gzip", "x", "YQ"]))]
    return fields, ok


KINDS = ["method", "ct", "ct", "timeout", "timeout", "bin", "bin", "authority", "connection", "path", "framer", "framer",
         "filler", "reserved"]


def hdr_op(i, es, fields):
    return "hdr %d %s %s" % (i, "es" if es else "-", " ".join(F(n, v) for n, v in fields))


def random_case(rng, fuzz):
    maxs = rng.choice([0, 1, 1, 2, 2, 3, 5])
    mhl = rng.choice([None, None, None, 700, 1000])
    ops = ["start %d%s" % (maxs, "" if mhl is None else " mhl=%d" % mhl)]
    next_id = 1
    running = []
    limit = maxs if maxs else 10**9
    for _ in range(rng.randrange(8, 30)):
        r = rng.random()
        if r < 0.62:
            rr = rng.random()
            if rr < 0.80:
                i = next_id
            elif rr < 0.86:
                i = next_id + 1                      # even
            elif rr < 0.92:
                i = max(1, next_id - rng.choice([2, 4]))   # repeated / lower
            elif rr < 0.94:
                i = 0
            else:
                i = next_id + rng.choice([2, 10, 1000])
            fields = base_fields(i)
            ok = True
            nm = rng.choice([0, 0, 0, 1, 1, 1, 2, 3])
            for _ in range(nm):
                fields, o = mutate(rng, fields, KINDS)
                ok = ok and o
            es = rng.random() < 0.3
            ops.append(hdr_op(i, es, fields))
            if nm > 0 and i % 2 == 1 and i >= next_id and rng.random() < 0.25:
                # the id of a (probably) turned-down request, or a lower unused one, re-used by a well-formed request
                j = rng.choice([i, i, max(1, i - 2)])
                ops.append(hdr_op(j, rng.random() < 0.3, base_fields(j)))
            if i % 2 == 1 and i >= next_id:
                if ok and len(running) < limit:
                    running.append(i)
                next_id = i + 2
            if i == 0 or i % 2 == 0 or i < next_id - 2:
                pass
        elif r < 0.74:
            if running and rng.random() < 0.85:
                i = rng.choice(running)
                running.remove(i)
            else:
                i = rng.choice([1, 3, 5, 7, next_id])
            ops.append("finish %d" % i)
        elif r < 0.82:
            if running and rng.random() < 0.8:
                i = rng.choice(running)
                running.remove(i)
            else:
                i = rng.choice([1, 3, 5, 2, next_id, next_id + 2])
            ops.append("rst %d %d" % (i, rng.choice([0, 8, 2])))
        elif r < 0.90:
            i = rng.choice(running) if running and rng.random() < 0.8 else rng.choice([1, 3, 5, next_id])
            ops.append("data %d %s" % (i, rng.choice(["es", "es", "-"])))
        elif r < 0.96:
            ops.append("sleep %d" % rng.choice([10, 40, 120, 300, 1500, 2500]))
        elif fuzz:
            if rng.random() < 0.6:
                t = rng.choice([0, 1, 2, 3, 4, 5, 6, 7, 8, 9, 10, 99])
                payload = bytes(rng.randrange(256) for _ in range(rng.choice([0, 1, 4, 5, 8, 9, 16])))
                ops.append("frame %d %d %d %s" % (t, rng.choice([0, 1, 4, 5, 8, 0x20, 0x2d]), rng.choice([0, 1, 3, next_id, 2]), hx(payload)))
            else:
                ops.append("raw %s" % hx(bytes(rng.randrange(256) for _ in range(rng.randrange(1, 40)))))
    return ops


def directed():
    b = base_fields
    yield ["start 2", hdr_op(1, False, b(1)), hdr_op(3, False, b(3)), hdr_op(5, False, b(5)), "finish 1", hdr_op(7, True, b(7)),
           hdr_op(9, False, b(9)), "rst 3 8", hdr_op(11, False, b(11)), "finish 7", "finish 11"]
    yield ["start 1", hdr_op(1, False, b(1) + [("grpc-timeout", "100m")]), hdr_op(3, False, b(3)), "sleep 150", hdr_op(5, False, b(5)),
           "data 5 es", "data 5 es", hdr_op(7, True, b(7)), "finish 7"]
    yield ["start 0", hdr_op(1, False, b(1)), hdr_op(1, False, b(1)), hdr_op(3, False, b(3))]
    yield ["start 3", hdr_op(2, False, b(2)), hdr_op(3, False, b(3)), "sleep 1500", hdr_op(5, False, b(5))]
    yield ["start 3", hdr_op(0, False, b(0)), hdr_op(1, False, b(1))]
    yield ["start 2 mhl=700", hdr_op(1, False, b(1) + [("f%d" % j, "vvvv") for j in range(12)]), hdr_op(1, False, b(1)),
           hdr_op(3, False, b(3) + [("f%d" % j, "v") for j in range(4)])]
    # a rejected / truncated HEADERS does not advance the highest accepted id
    yield ["start 2", hdr_op(5, False, b(5) + [("Upper", "x")]), hdr_op(3, False, b(3)), hdr_op(5, False, b(5)), hdr_op(5, False, b(5))]
    # an id is used up by ANY request that passes the id check, whatever happens to it afterwards: every way of
    # turning a request down, followed by a well-formed request with the same or a lower (still unaccepted) id
    rejects = [
        set_field(b(5), "content-type", "text/html"), drop_field(b(5), "content-type"),
        b(5) + [("grpc-timeout", "1x")], b(5) + [("grpc-timeout", "0n")], b(5) + [("a-bin", "!!!")],
        set_field(b(5), ":method", "GET"), b(5) + [("connection", "close")], b(5) + [("host", "h1"), ("host", "h2")],
        b(5, "/s/zz"), b(5, "nopath"),
    ]
    for rej in rejects:
        for second in (3, 5):
            for es in (False, True):
                yield ["start 2", hdr_op(1, False, b(1)), hdr_op(5, es, rej), hdr_op(second, False, b(second)), "finish %d" % second,
                       hdr_op(7, False, b(7))]
    # … and the REFUSED_STREAM variant (limit reached, id 9 refused, then 7 / 9 after a slot is free)
    for second in (7, 9):
        yield ["start 1", hdr_op(1, False, b(1)), hdr_op(9, False, b(9)), "finish 1", hdr_op(second, False, b(second)), "finish %d" % second]
        yield ["start 2", hdr_op(1, False, b(1)), hdr_op(3, True, b(3)), hdr_op(9, False, b(9)), "rst 3 8", hdr_op(second, False, b(second))]
    for ct in CTS_OK + CTS_BAD:
        yield ["start 1", hdr_op(1, True, set_field(b(1), "content-type", ct)), "finish 1"]
    for t in GOOD_TIMEOUTS + ZERO_TIMEOUTS + BAD_TIMEOUTS:
        yield ["start 1", hdr_op(1, False, b(1) + [("grpc-timeout", t)]), "sleep 400", "finish 1"]
    for v in GOOD_B64 + BAD_B64:
        yield ["start 1", hdr_op(1, False, b(1) + [("a-bin", v)]), "finish 1"]
    for p in PATHS:
        yield ["start 1", hdr_op(1, False, b(1, p)), hdr_op(3, True, b(3, p)), "finish 1"]


KNOWN_DIRECTED = [
    # F20: a valid content-type accompanied by an invalid one still reaches the handler
    ["start 1", hdr_op(1, False, base_fields(1) + [("content-type", "text/html")]), "finish 1"],
    ["start 1", hdr_op(1, True, set_field(base_fields(1), "content-type", "text/html") + [("content-type", "application/grpc")])],
]


def gen(rng, tier):
    n_rand = {"quick": 500, "thorough": 12000, "search": 5000}[tier]
    for i, ops in enumerate(directed()):
        yield Case("s_admit", ops, "directed-%d" % i)
    for i, ops in enumerate(KNOWN_DIRECTED):
        yield Case("s_admit", ops, "known-directed-%d" % i)
    for i in range(n_rand):
        yield Case("s_admit", random_case(rng, fuzz=(i % 4 == 0)), "random-%d" % i)
    # pure helpers: exhaustive short strings + random
    alpha = [ord(c) for c in "Ya=+/!\n"]
    strs = [()]
    for L in range(1, 5):
        strs += [s + (a,) for s in strs if len(s) == L - 1 for a in alpha]
    ops = ["bin %s" % hx(bytes(s)) for s in strs]
    for _ in range({"quick": 2000, "thorough": 50000, "search": 20000}[tier]):
        n = rng.randrange(0, 14)
        s = bytes(rng.choice(b"ABab01+/=") if rng.random() < 0.93 else rng.randrange(256) for _ in range(n))
        ops.append("bin %s" % hx(s))
    # decodeTimeout acceptance against the wire grammar: every string of length <= 4 over a sign/blank/digit/unit alphabet,
    # the whole malformed family, and damaged well-formed values
    talpha = [ord(c) for c in "05+- _.SxnH"]
    tstrs = [()]
    for L in range(1, 5):
        tstrs += [t + (a,) for t in tstrs if len(t) == L - 1 for a in talpha]
    ops += ["to %s" % hx(bytes(t)) for t in tstrs]
    ops += ["to %s" % hx(t) for t in GOOD_TIMEOUTS + ZERO_TIMEOUTS + BAD_TIMEOUTS]
    for _ in range({"quick": 1500, "thorough": 40000, "search": 15000}[tier]):
        ops.append("to %s" % hx(mutated_timeout(rng)))
    base = b"application/grpc"
    for suffix in [b"", b"+", b";", b"+proto", b";q", b"x", b" ", b"/", b"+;"]:
        ops.append("ct %s" % hx(base + suffix))
    for k in range(len(base)):
        ops.append("ct %s" % hx(base[:k]))
    for v in CTS_OK + CTS_BAD:
        ops.append("ct %s" % hx(v))
    for i in range(0, len(ops), 5000):
        yield Case("binhdr", ops[i:i + 5000], "binhdr-%d" % (i // 5000))


def nontrivial(case, impl_lines):
    if case.component == "binhdr":
        return True
    return any(" started=" in l and " started=- " not in l for l in impl_lines)
