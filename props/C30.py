"""C30 Connectivity state reporting is consistent and never missed (partial)."""
from vlib.core import Case

ID = "C30"
COMPONENTS = ["s_connectivity"]
T4 = ["Connectivity"]
PROOF_MODULES = ["GrpcProofs.Properties.C30"]
THEOREMS = ["GrpcProofs.C30." + t for t in (
    "state_order_matches_source", "nothing_leaves_shutdown", "channel_never_leaves_shutdown",
    "ready_only_from_connecting_partial", "ready_only_from_connecting_counterexample",
    "tf_only_to_idle_or_shutdown_partial", "tf_to_idle_only_after_backoff", "backoff_left_only_by_timer_or_reset",
    "tf_only_to_idle_or_shutdown_counterexample",
    "getState_is_last_published",
    "wait_returns_true_if_differs", "wait_true_only_if_differed", "wait_false_only_if_ctx_done",
    "wrong_order_misses_a_change",
    "lb_sees_updates_in_order_none_after_shutdown", "lb_sees_nothing_after_shutdown")]
DESIGN_REF = "DESIGN.md section 8, C30"
TECHNIQUE = ("Lean 4 theorems over an interleaving model (one atomic action per critical section of ac.mu / csm.mu; connect "
             "goroutines, transports' onClose callbacks, LB-policy calls, timers and WaitForStateChange callers as independent "
             "movers), proved by inductive invariants; tie T2: a real grpc.ClientConn in a testing/synctest bubble with a scripted "
             "dialer, minimal HTTP/2 servers, a recording LB policy, a PubSub subscriber and concurrent WaitForStateChange callers; "
             "T4: connectivity.State order regenerated from source")
LEVEL_TEXT = ("Machine-checked proof, for every interleaving of connection attempts succeeding/failing, transport loss (GOAWAY), "
              "UpdateAddresses, sub-channel shutdown, idle entry/exit, Close, back-off expiry and concurrent WaitForStateChange "
              "callers, that nothing leaves SHUTDOWN (channel and sub-channel), that a sub-channel without legacy health checking "
              "reaches READY only from CONNECTING and leaves TRANSIENT_FAILURE only to IDLE (only through the post-back-off "
              "critical section) or SHUTDOWN, that GetState is the last published state, that WaitForStateChange in the code's order "
              "(get channel, then read state) never blocks once the state has differed and returns true only if it differed (the "
              "opposite order has a proved counterexample), and that each sub-channel's updates reach the LB policy as a prefix of "
              "its change sequence with nothing after SHUTDOWN. With legacy LB-channel health checking the READY/TRANSIENT_FAILURE "
              "clauses are false: proved by counterexample and reported on the real code as a known finding.")
LEVEL_NOTE = ("PARTIAL. Trusted: Lean kernel; the hand model lean/GrpcModel/Model/Connectivity.lean; Go's sync.Mutex (each critical "
              "section atomic); the CallbackSerializer is a FIFO whose pending callbacks still run after cancellation (that is C31); "
              "each transport calls onClose exactly once (http2_client.go guards it with its state). Readings: 'after backoff' = "
              "the transition TF->IDLE happens only in resetTransportAndUnlock's critical section after the back-off select was left "
              "through the timer or through ResetConnectBackoff (an API request to end the back-off early); 'at or after the call' "
              "of WaitForStateChange starts at the call's first action (getNotifyChan) and a caller whose context is also done may "
              "return false (Go's select picks either ready case); 'none arrive after the sub-channel is shut down' = nothing "
              "follows the SHUTDOWN update (the SHUTDOWN update itself is delivered, by design). The Connecting->Idle shortcut of "
              "issue 7862 is modelled as in the code (createTransport finds hctx cancelled) and is allowed by the statement. "
              "The tie cannot interleave inside one settle (e.g. onClose before createTransport re-locks): those interleavings are "
              "covered by the theorems only.")
GAP = ("resolver/picker/channelz/metrics; real TCP; the window between NewHTTP2Client returning and createTransport taking ac.mu is "
       "not reachable by the harness; health/client.go itself (the scripted health function calls the real setConnectivityState closure)")
ASSUMPTIONS = ["a transport invokes its onClose callback at most once", "CallbackSerializer is FIFO (C31)",
               "sub-channels are created with one address in the tie (the model takes any number)"]
RULE = ("directed scenarios (dial ok/fail, back-off expiry at and before 1 s, ResetConnectBackoff, GOAWAY, connection drop, "
        "UpdateAddresses in every state, shutdown in every state, idle/close with parked dials and pending back-off, watchers started "
        "before/after changes incl. A-B-A, deadlines; the same with legacy health checking) + random op sequences from a Python mirror; "
        "a case is non-trivial if some sub-channel update was delivered and the channel state changed; distinct = distinct op sequence")

ST = ["IDLE", "CONNECTING", "READY", "TRANSIENT_FAILURE", "SHUTDOWN"]


class Sim:
    """Untrusted mirror, only used to generate mostly-valid op sequences."""

    def __init__(self):
        self.closed = False
        self.idle = True
        self.lb = False
        self.sc = {}          # k -> state
        self.parked = set()
        self.server = set()
        self.tf_at = {}
        self.clock = 0
        self.ver = {}
        self.cur = {}
        self.health = False
        self.hf = set()
        self.watch = set()

    def apply(self, op):
        f = op.split()
        try:
            self._apply(f)
        except (ValueError, IndexError, KeyError):
            pass

    def _down(self, k):
        self.sc[k] = "SHUTDOWN"
        self.parked.discard(k)

    def _apply(self, f):
        o = f[0]
        if o == "mode":
            self.health = True
        elif o == "connect":
            if self.closed:
                return
            if self.idle:
                self.idle = False
                self.lb = True
                self.sc = {1: "IDLE", 2: "IDLE", 3: "IDLE"}
                self.ver = {1: 0, 2: 0, 3: 0}
                self.cur = {}
        elif o == "scconnect":
            k = int(f[1])
            if self.lb and self.sc.get(k) == "IDLE":
                self.sc[k] = "CONNECTING"
                self.parked.add(k)
        elif o == "scshutdown":
            k = int(f[1])
            if self.lb and k in self.sc:
                self._down(k)
        elif o == "dial":
            k = int(f[1])
            if k in self.parked:
                self.parked.discard(k)
                if f[2] == "ok":
                    self.sc[k] = "CONNECTING" if self.health else "READY"
                    self.server.add(k)
                    self.cur[k] = self.ver.get(k, 0)
                    if self.health:
                        self.hf.add(k)
                else:
                    self.sc[k] = "TRANSIENT_FAILURE"
                    self.tf_at[k] = self.clock
        elif o in ("goaway", "drop"):
            k = int(f[1])
            if self.lb and self.sc.get(k) in ("READY",) or (self.health and self.sc.get(k) in ("CONNECTING", "TRANSIENT_FAILURE") and k not in self.parked and k not in self.tf_at):
                self.sc[k] = "IDLE"
        elif o == "sleep":
            self.clock += int(f[1])
            for k, t in list(self.tf_at.items()):
                if t + 1 <= self.clock:
                    del self.tf_at[k]
                    if self.sc.get(k) == "TRANSIENT_FAILURE":
                        self.sc[k] = "IDLE"
        elif o == "resetbackoff":
            for k in list(self.tf_at):
                del self.tf_at[k]
                if self.sc.get(k) == "TRANSIENT_FAILURE":
                    self.sc[k] = "IDLE"
        elif o == "scaddrs":
            k, v = int(f[1]), int(f[2])
            if not self.lb or k not in self.sc or v == self.ver.get(k):
                return
            self.ver[k] = v
            s = self.sc[k]
            if s in ("SHUTDOWN", "TRANSIENT_FAILURE", "IDLE"):
                return
            if s == "READY" and self.cur.get(k) == v:
                return
            self.sc[k] = "CONNECTING"
            self.parked.add(k)
        elif o == "health":
            k = int(f[1])
            if k in self.hf and self.lb and self.sc.get(k) not in ("IDLE", "SHUTDOWN", None) and k not in self.parked and k not in self.tf_at:
                self.sc[k] = f[2]
        elif o == "wait":
            self.watch.add(int(f[1]))
        elif o == "idle":
            if self.closed or self.idle:
                return
            self.idle, self.lb = True, False
            self.sc, self.parked, self.tf_at = {}, set(), {}
        elif o == "close":
            self.closed, self.lb = True, False
            self.sc, self.parked, self.tf_at = {}, set(), {}


def random_case(rng, n, health):
    sim = Sim()
    ops = []
    if health:
        ops.append("mode health")
        sim.apply(ops[0])
    next_w = 1
    while len(ops) < n:
        r = rng.random()
        k = rng.randrange(1, 4)
        if not sim.lb and not sim.closed and r < 0.5:
            op = "connect"
        elif r < 0.16:
            idle = [x for x, s in sim.sc.items() if s == "IDLE"]
            op = "scconnect %d" % (rng.choice(idle) if idle and rng.random() < 0.85 else k)
        elif r < 0.36:
            if sim.parked and rng.random() < 0.9:
                op = "dial %d %s" % (rng.choice(sorted(sim.parked)), "ok" if rng.random() < 0.6 else "fail")
            else:
                op = "dial %d ok" % k
        elif r < 0.44:
            cand = [x for x, s in sim.sc.items() if s == "READY"] or sorted(sim.server) or [k]
            op = "%s %d" % (rng.choice(["goaway", "drop"]), rng.choice(cand))
        elif r < 0.54:
            op = "sleep %d" % rng.choice([1, 1, 1, 2, 3])
        elif r < 0.57:
            op = "resetbackoff"
        elif r < 0.65:
            op = "lbstate %s" % rng.choice(ST[:4] * 6 + ["SHUTDOWN"])
        elif r < 0.74:
            op = "wait %d %s %d" % (next_w, rng.choice(ST[:4]), rng.choice([0, 0, 2, 4]))
            next_w += 1
        elif r < 0.77 and sim.watch:
            op = "cancel %d" % rng.choice(sorted(sim.watch))
        elif r < 0.82:
            op = "scshutdown %d" % k
        elif r < 0.87:
            op = "scaddrs %d %d" % (k, rng.randrange(0, 3))
        elif r < 0.90:
            op = "idle"
        elif r < 0.93:
            op = "connect"
        elif r < 0.945:
            op = "close"
        elif r < 0.955:
            op = rng.choice(["dial 9 ok", "scconnect 7", "lbstate FOO", "cancel 99", "wait 1 IDLE 0", "health 1 READY", "goaway 3"])
        elif health:
            cand = sorted(sim.hf) or [k]
            op = "health %d %s" % (rng.choice(cand), rng.choice(ST[1:4]))
        else:
            continue
        if sim.closed and rng.random() < 0.7:
            if len(ops) > n - 3:
                break
            continue
        sim.apply(op)
        ops.append(op)
    return ops


def directed():
    up = ["connect"]
    yield "lifecycle", up + ["scconnect 1", "dial 1 fail", "sleep 1", "scconnect 1", "dial 1 ok", "goaway 1", "scconnect 1", "dial 1 ok", "drop 1",
                             "scconnect 1", "dial 1 fail", "resetbackoff", "scconnect 1", "scshutdown 1", "scconnect 1", "sleep 5"]
    yield "backoff-boundary", up + ["scconnect 1", "scconnect 2", "dial 1 fail", "sleep 0", "dial 2 fail", "sleep 1", "sleep 1", "scconnect 2", "dial 2 fail",
                                    "scshutdown 2", "sleep 2"]
    yield "three-subchannels", up + ["scconnect 1", "scconnect 2", "scconnect 3", "dial 2 ok", "dial 3 fail", "dial 1 ok", "goaway 2", "drop 1", "sleep 1",
                                     "scshutdown 3", "scshutdown 1", "scshutdown 2"]
    for st in ("idle", "connecting", "ready", "tf", "shutdown"):
        pre = {"idle": [], "connecting": ["scconnect 1"], "ready": ["scconnect 1", "dial 1 ok"], "tf": ["scconnect 1", "dial 1 fail"],
               "shutdown": ["scshutdown 1"]}[st]
        yield "addrs-in-" + st, up + pre + ["scaddrs 1 1", "scaddrs 1 1", "dial 1 ok", "scaddrs 1 0", "dial 1 ok", "sleep 1", "scconnect 1", "dial 1 ok", "scaddrs 1 0",
                                           "scaddrs 1 2", "dial 1 fail", "sleep 1"]
        yield "shutdown-in-" + st, up + pre + ["scshutdown 1", "dial 1 ok", "sleep 1", "goaway 1", "scconnect 1", "scaddrs 1 1", "resetbackoff"]
        yield "idle-in-" + st, up + pre + ["idle", "dial 1 ok", "sleep 1", "goaway 1", "connect", "scconnect 1", "dial 1 ok", "close", "sleep 1"]
        yield "close-in-" + st, up + pre + ["wait 1 CONNECTING 0", "close", "dial 1 ok", "sleep 1", "drop 1"]
    yield "watchers", ["wait 1 IDLE 0", "wait 2 READY 0", "wait 3 IDLE 3", "connect", "wait 4 CONNECTING 0", "wait 5 CONNECTING 2", "lbstate CONNECTING",
                       "lbstate READY", "wait 6 READY 0", "wait 7 READY 1", "sleep 1", "lbstate IDLE", "lbstate READY", "wait 8 READY 0", "cancel 8", "wait 9 IDLE 0",
                       "idle", "connect", "close", "wait 10 SHUTDOWN 1", "wait 11 READY 0", "sleep 2"]
    yield "watchers-aba", up + ["lbstate READY", "wait 1 READY 0", "wait 2 READY 0", "lbstate TRANSIENT_FAILURE", "lbstate READY", "wait 3 READY 5", "lbstate READY",
                                "sleep 5", "lbstate SHUTDOWN", "lbstate READY", "wait 4 SHUTDOWN 1", "sleep 1", "idle", "connect"]
    yield "many-watchers", up + ["wait %d %s 0" % (i, ST[i % 4]) for i in range(1, 9)] + ["lbstate READY", "lbstate READY", "lbstate IDLE", "lbstate CONNECTING",
                                                                                            "lbstate TRANSIENT_FAILURE"]
    yield "idle-cycles", ["idle", "connect", "idle", "idle", "connect", "connect", "scconnect 2", "idle", "dial 2 ok", "connect", "scconnect 2", "dial 2 ok", "idle",
                          "goaway 2", "connect", "lbstate READY", "idle", "lbstate READY", "close", "close", "connect", "idle"]
    yield "bad-ops", ["scconnect 1", "dial 1 ok", "lbstate READY", "goaway 1", "cancel 1", "mode health", "connect", "dial 1 ok", "scconnect 4", "wait 1 FOO 0",
                      "wait 1 IDLE 0", "wait 1 IDLE 0", "health 1 READY", "close", "scconnect 1", "resetbackoff", "idle", "connect"]
    h = ["mode health", "connect"]
    yield "health-basic", h + ["scconnect 1", "dial 1 ok", "health 1 READY", "health 1 TRANSIENT_FAILURE", "health 1 READY", "health 1 TRANSIENT_FAILURE",
                               "health 1 CONNECTING", "health 1 READY", "goaway 1", "health 1 READY", "scconnect 1", "dial 1 ok", "health 1 READY", "scshutdown 1",
                               "health 1 TRANSIENT_FAILURE"]
    yield "health-addrs", h + ["scconnect 2", "dial 2 ok", "health 2 TRANSIENT_FAILURE", "scaddrs 2 1", "health 2 READY", "drop 2", "scconnect 2", "dial 2 fail",
                               "health 2 READY", "sleep 1", "idle", "health 2 READY"]


def gen(rng, tier):
    n_rand = {"quick": 500, "thorough": 50000, "search": 4000}[tier]
    for tag, ops in directed():
        yield Case("s_connectivity", ops, tag)
    for i in range(n_rand):
        yield Case("s_connectivity", random_case(rng, rng.randrange(8, 50), rng.random() < 0.15), "rand-%d" % i)


def nontrivial(case, impl_lines):
    txt = " ".join(impl_lines)
    return " sc" in " " + txt and "ch:" in txt
