"""C36 Weighted round robin picks in proportion to weights."""
import struct

from vlib.core import Case

ID = "C36"
COMPONENTS = ["wrrstride"]
T4 = ["WRRStride"]
PROOF_MODULES = ["GrpcProofs.Properties.C36"]
THEOREMS = ["GrpcProofs.C36." + t for t in (
    "pick_terminates_within_n_partial", "pick_terminates_within_n_counterexample", "pick_terminates_within_2n",
    "next_is_first_chosen", "calls_are_the_chosen_sequence_numbers",
    "exact_proportion", "exact_proportion_counter_partial", "window_total",
    "no_uint64_overflow", "rr_round_robin",
    "scaled_has_max", "scaled_le_max", "scaled_weight_formula", "zero_weight_gets_mean",
    "rr_fallback_iff", "rr_when_fewer_than_two_nonzero", "rr_when_all_equal",
    "wrr_pick_terminates", "wrr_exact_proportion",
    "weight_formula", "report_ignored_when_empty", "weight_zero_before_first_report",
    "weight_zero_after_expiry", "weight_zero_in_blackout", "weight_is_latest_report_otherwise",
    "blackout_reapplied_after_expiry")]
DESIGN_REF = "DESIGN.md section 8, C36"
TECHNIQUE = ("Lean 4 theorems (telescoping stride argument over all weight vectors / start points; exact-rational "
             "instance of the generic port of newScheduler and OnLoadReport; invariants over load-report histories) + T1 "
             "differential correspondence on the real edfScheduler/rrScheduler/picker.newScheduler/endpointWeight "
             "(integers pick by pick, float64 results bit for bit via the Float instance of the same definitions) + T4 constant")
LEVEL_TEXT = ("Machine-checked Lean proof, for every weight vector and every starting sequence number, that a pick of the "
              "stride scheduler ends within n sequence numbers (no uint32 wrap inside the pick; < 2n in general, with a proved "
              "counterexample to `n` at the wrap), that every window of 65535*n sequence numbers chooses backend i exactly "
              "weights[i] times, that newScheduler over exact rationals yields a 65535 entry, round(65535*w/max) per backend, "
              "the mean for zero weights and round robin exactly in the stated fallback cases, and that endpointWeight.weight "
              "is 0 before the first report / after expiry / in blackout and otherwise the formula of the latest report.")
LEVEL_NOTE = ("Weight monitor: from the op history alone it tracks the latest non-empty report and the start of the current "
              "blackout window (first non-empty report since the start or since the last query that saw the data expired) and demands "
              "0 exactly when there is no report / the data is expired / the blackout is running, and otherwise exactly the latest "
              "report's weight (a 0 there is a violation). Reading: `scaled weight` is the uint16 the code computes; its relation to the input weights is proved for exact "
              "rational arithmetic and monitored on the float code (entries may differ by 1 only when 65535*w/max is within "
              "2^-20 of a rounding boundary). The statement's `at most n sequence numbers` and `any window` are violated by the "
              "unchanged code only across the uint32 wrap of picker.idx (which starts at rand.Uint32()): known finding F8b. "
              "Weights that are negative, NaN or infinite are outside the model (the float code gives garbage scaled weights).")
GAP = ("float rounding of the scaling/weight formula is not reasoned about in Lean (diffed bit-for-bit against the Float "
       "instance and bounded by the monitor); concurrency of Pick against regenerateScheduler (atomic pointer swap) is not modelled")
ASSUMPTIONS = ["sequence counter is a uint32 incremented once per loop iteration (picker.inc)",
               "endpoint weights handed to newScheduler are finite and non-negative",
               "Lean's compiled Float operations are IEEE-754 binary64 like Go's on amd64 (checked by the bit-for-bit diff)"]
RULE = ("win: real edfScheduler over weight vectors (n 1..64; zeros, 1, 32767/32768, 65534, equal runs, with and without a "
        "65535 entry) from random / boundary / wrap-crossing counter values, windows of k*65535*n and short windows; edf/rr+next: "
        "pick-by-pick; scale: picker.newScheduler on float64 weight vectors (zeros, equals, integers, random, ratios up to 1e12, "
        "rounding-boundary ratios, magnitudes 1e-200..1e200); timelines: cfg/eps/adv/report/weight/sched/next histories on real "
        "endpointWeights under a virtual clock; steady-state timelines: the same report (or another report with the bit-identical "
        "weight) repeated with gaps < expiration until the clock is far past blackout and expiration counted from the first of "
        "them, with silence/expiry/resume phases, the weight queried after every report. A case is non-trivial if it contains a pick or a scheduler/weight evaluation.")

M = 65535
W32 = 2 ** 32


def bits(x):
    return struct.unpack("<Q", struct.pack("<d", float(x)))[0]


def csv(l):
    return ",".join(str(x) for x in l) if l else "-"


def rand_u16_vec(rng, n, with_max=True):
    kind = rng.randrange(6)
    pool = [0, 1, 2, 32767, 32768, 65534, 21845, 43690]
    ws = []
    for _ in range(n):
        if kind == 0:
            ws.append(rng.randrange(0, M + 1))
        elif kind == 1:
            ws.append(rng.choice(pool))
        elif kind == 2:
            ws.append(rng.choice([1, M - 1]))
        elif kind == 3:
            ws.append(rng.randrange(1, 50))
        elif kind == 4:
            ws.append(rng.choice([32767, 32768]))
        else:
            ws.append(rng.choice(pool) if rng.random() < 0.5 else rng.randrange(0, M + 1))
    if with_max:
        for _ in range(1 + (rng.random() < 0.2)):
            ws[rng.randrange(n)] = M
    else:
        ws = [min(w, M - 1) for w in ws]
        if not any(ws):
            ws[rng.randrange(n)] = rng.randrange(1, M)
    return ws


def rand_start(rng, L, allow_wrap):
    r = rng.random()
    if r < 0.15:
        return rng.choice([0, 1, W32 - 1 - L, W32 - 2 - L]) % W32
    if allow_wrap and r < 0.30:
        return (W32 - 1 - rng.randrange(0, L + 1)) % W32
    return rng.randrange(0, W32 - L - 1)


def rand_weight_vec(rng, n):
    """float64 endpoint weights as handed to newScheduler."""
    kind = rng.randrange(9)
    scale = 10.0 ** rng.randrange(-200, 200) if rng.random() < 0.15 else 1.0
    ws = []
    base = rng.uniform(0.001, 1e6)
    for i in range(n):
        if kind == 0:
            w = rng.uniform(0.001, 1e4)
        elif kind == 1:
            w = float(rng.randrange(0, 5))
        elif kind == 2:
            w = base
        elif kind == 3:
            w = base if rng.random() < 0.7 else 0.0
        elif kind == 4:
            w = rng.choice([1.0, 1e6, 1e9, 1e12, 65535.0, 131070.0, 131069.0, 131071.0, 0.5])
        elif kind == 5:
            # rounding boundaries: (k + 1/2) / 65535 of the maximum
            w = (rng.randrange(0, M) + 0.5) / M * base if i else base
        elif kind == 6:
            w = 0.0 if rng.random() < 0.5 else rng.uniform(1, 1000)
        elif kind == 7:
            w = float(rng.randrange(1, 70000))
        else:
            w = base * (1 + rng.randrange(-3, 4) * 2.0 ** -rng.randrange(10, 53))
        ws.append(w * scale)
    return ws


def rand_report(rng):
    def val(zero_p):
        r = rng.random()
        if r < zero_p:
            return 0.0
        if r < zero_p + 0.3:
            return float(rng.randrange(1, 2000))
        if r < zero_p + 0.4:
            return rng.randrange(1, 64) / 64.0
        return rng.uniform(0.001, 1000.0)
    app = val(0.4)
    cpu = val(0.15)
    rps = val(0.08)
    eps = val(0.4)
    return [bits(app), bits(cpu), bits(rps), bits(eps)]


def timeline(rng, length):
    sec = 10 ** 9
    blackout = rng.choice([0, 0, 10 * sec, sec, rng.randrange(1, 20 * sec)])
    exp = rng.choice([180 * sec, 5 * sec, rng.randrange(1, 60 * sec)])
    penalty = rng.choice([1.0, 0.0, 0.5, rng.uniform(0, 10)])
    k = rng.randrange(1, 6)
    ops = ["cfg %d %d %d" % (blackout, exp, bits(penalty)), "eps %d" % k]
    have_sched = False
    for _ in range(length):
        r = rng.random()
        if r < 0.25:
            ops.append("adv %d" % rng.choice([0, 1, sec, blackout, max(blackout - 1, 0), exp, max(exp - 1, 0),
                                               rng.randrange(0, 2 * exp + 1), rng.randrange(0, 2 * sec)]))
        elif r < 0.55:
            ops.append("report %d %s" % (rng.randrange(k), " ".join(map(str, rand_report(rng)))))
        elif r < 0.75:
            ops.append("weight %d" % rng.randrange(k))
        elif r < 0.88 or not have_sched:
            ops.append("sched %d" % rng.choice([rng.randrange(W32), W32 - 1, W32 - 5, 0]))
            have_sched = True
        else:
            ops.append("next %d" % rng.randrange(1, 40))
    return ops


def steady_timeline(rng):
    """A backend in steady state: the same load report (or a different report with the same weight) arrives again and
    again while the clock runs past the blackout and the expiration period measured from the FIRST of them; the weight
    is queried after every report. Other endpoints get varying reports, go silent (expire) and come back."""
    sec = 10 ** 9
    blackout = rng.choice([0, sec, 2 * sec, rng.randrange(1, 5 * sec)])
    exp = rng.choice([3 * sec, 5 * sec, 10 * sec, 180 * sec])
    penalty = rng.choice([1.0, 0.0, 0.5, 2.0])
    k = rng.randrange(1, 4)
    ops = ["cfg %d %d %d" % (blackout, exp, bits(penalty)), "eps %d" % k]
    util = rng.choice([0.25, 0.5, 0.7, rng.uniform(0.05, 1.0)])
    rps = rng.choice([100.0, 64.0, 250.0, float(rng.randrange(1, 2000))])
    eps_ = rng.choice([0.0, 0.0, 1.0, rng.uniform(0, 10)])
    use_cpu = rng.random() < 0.3
    def steady(scale=1.0):
        # scaling qps and utilization by a power of two (eps = 0) leaves the weight bit-identical
        u, q, e = util * scale, rps * scale, (eps_ if scale == 1.0 else 0.0)
        return [bits(0.0 if use_cpu else u), bits(u if use_cpu else 0.0), bits(q), bits(e)]
    if rng.random() < 0.3:
        eps_ = 0.0
    gap = rng.choice([exp // 3, exp // 2, exp - 1, sec, max(1, exp // 4)])
    gap = max(1, min(gap, exp - 1))
    n = rng.randrange(4, 16)
    silent_from = rng.randrange(2, n) if rng.random() < 0.3 else n + 1   # endpoint 0 goes silent, expires, then resumes
    for j in range(n):
        if j < silent_from or j >= silent_from + exp // gap + 2:
            sc = 2.0 if (eps_ == 0.0 and rng.random() < 0.3) else 1.0
            ops.append("report 0 %s" % " ".join(map(str, steady(sc))))
        for i in range(1, k):
            if rng.random() < 0.6:
                ops.append("report %d %s" % (i, " ".join(map(str, rand_report(rng)))))
        ops.append("adv %d" % rng.choice([gap // 2, gap // 2, 1, gap - 1 if gap > 1 else 1]))
        ops.append("weight 0")
        if k > 1 and rng.random() < 0.5:
            ops.append("weight %d" % rng.randrange(k))
        if rng.random() < 0.25:
            ops.append("sched %d" % rng.randrange(W32))
            ops.append("next %d" % rng.randrange(1, 20))
        ops.append("adv %d" % (gap - gap // 2))
    ops.append("weight 0")
    return ops


def gen(rng, tier):
    n_full = {"quick": 24, "thorough": 400, "search": 150}[tier]
    n_short = {"quick": 1500, "thorough": 40000, "search": 20000}[tier]
    n_scale = {"quick": 4000, "thorough": 120000, "search": 60000}[tier]
    n_time = {"quick": 150, "thorough": 4000, "search": 2000}[tier]
    n_seq = {"quick": 60, "thorough": 1500, "search": 600}[tier]
    big_n = {"quick": 12, "thorough": 64, "search": 32}[tier]

    ops = []
    # the no-wrap twin of the witness of known finding F8b
    ops.append("win 1,1,65535 10 20")
    # full windows: exact proportion
    for j in range(n_full):
        n = rng.choice([1, 2, 2, 3, 3, 4, 5, 7, 8, rng.randrange(2, big_n + 1)])
        ws = rand_u16_vec(rng, n, with_max=rng.random() < 0.8)
        if not any(w == M for w in ws):
            # without a 65535 entry a pick may take up to 65535*n numbers: keep the weights large enough to finish quickly
            ws[rng.randrange(n)] = rng.randrange(20000, M)
        k = 2 if rng.random() < 0.1 else 1
        L = k * M * n
        ops.append("win %s %d %d" % (csv(ws), rand_start(rng, L, False), L))
    # short windows: termination bound, many start points (incl. the wrap)
    for j in range(n_short):
        n = rng.choice([1, 2, 3, 3, 4, 5, 6, 7, 8, 9, 16, rng.randrange(1, 65)])
        ws = rand_u16_vec(rng, n, with_max=rng.random() < 0.9)
        if not any(w == M for w in ws):
            ws[rng.randrange(n)] = rng.randrange(30000, M)
        L = rng.randrange(1, 6 * n + 2)
        ops.append("win %s %d %d" % (csv(ws), rand_start(rng, L, False), L))
    # newScheduler scaling on float weights
    ops.append("scale -")
    for j in range(n_scale):
        n = rng.choice([1, 2, 2, 3, 3, 4, 5, 8, rng.randrange(2, 65)])
        ops.append("scale %s" % csv([bits(w) for w in rand_weight_vec(rng, n)]))
    chunk = 4000
    for i in range(0, len(ops), chunk):
        yield Case("wrrstride", ops[i:i + chunk], "stateless-batch-%d" % (i // chunk))

    # windows that contain the uint32 wrap of the counter, one case each (the unchanged code is expected to
    # break "at most n" / "exactly w_i" only here: known finding F8b); a batch would hide later violations
    # behind the first one
    yield Case("wrrstride", ["win 1,1,65535 4294967294 20"], "wrap-witness")
    n_wrap_short = {"quick": 60, "thorough": 1500, "search": 600}[tier]
    n_wrap_full = {"quick": 6, "thorough": 60, "search": 30}[tier]
    for j in range(n_wrap_short + n_wrap_full):
        n = rng.choice([1, 2, 3, 3, 4, 5, 6, 7, 8, 9, 16, rng.randrange(1, 33)])
        ws = rand_u16_vec(rng, n, with_max=True)
        L = rng.randrange(1, 6 * n + 2) if j < n_wrap_short else M * n
        v0 = W32 - 1 - rng.randrange(0, min(L, 3 * n) + 1)
        yield Case("wrrstride", ["win %s %d %d" % (csv(ws), v0, L)], "wrap-%d" % j)

    # installed schedulers, pick by pick
    for j in range(n_seq):
        n = rng.randrange(1, 20)
        o = []
        if rng.random() < 0.3:
            o.append("rr %d %d" % (n, rand_start(rng, 200, True)))
        else:
            ws = rand_u16_vec(rng, n, with_max=True)
            o.append("edf %s %d" % (csv(ws), rand_start(rng, 200 * n, True)))
        for _ in range(rng.randrange(1, 5)):
            o.append("next %d" % rng.randrange(1, 120))
        yield Case("wrrstride", o, "sequential-%d" % j)

    # load-report timelines on real endpointWeights
    for j in range(n_time):
        yield Case("wrrstride", timeline(rng, rng.randrange(5, 60)), "timeline-%d" % j)
    # steady-state timelines: identical / equal-weight reports repeated past the blackout and expiration periods
    for j in range({"quick": 120, "thorough": 3000, "search": 1500}[tier]):
        yield Case("wrrstride", steady_timeline(rng), "steady-%d" % j)


def nontrivial(case, impl_lines):
    return any(op.split(" ")[0] in ("win", "next", "scale", "sched", "weight") for op in case.ops)
