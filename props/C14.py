"""C14 GOAWAY and graceful drain never lose or double-run accepted work (client half)."""
from vlib.core import Case
from vlib import clientconn_gen as g

ID = "C14"
COMPONENTS = ["s_goaway"]
T4 = ["ClientConn"]
PROOF_MODULES = ["GrpcProofs.Properties.C14"]
THEOREMS = ["GrpcProofs.C14." + t for t in (
    "no_new_stream_after_goaway", "le_N_not_failed_by_goaway", "gt_N_unprocessed", "goaway_keeps_outcome",
    "second_goaway_larger_is_conn_error", "second_goaway_larger_is_conn_error_partial",
    "second_goaway_larger_is_conn_error_counterexample", "witness_state", "witness_with_fix")]
DESIGN_REF = "DESIGN.md section 8, C14"
TECHNIQUE = ("Lean 4 theorems over a per-connection state machine of http2Client (events = critical sections of reader, loopy, "
             "NewStream, Close; theorems hold for every event sequence) + tie T2: the REAL http2Client inside a testing/synctest "
             "bubble against a scripted raw-frame peer, snapshot diffed after every op + T4 regenerated tables")
LEVEL_TEXT = ("Machine-checked proof, for every state and every continuation (any interleaving of frames, NewStream calls, loopy and "
              "Close), that an accepted GOAWAY(N) leaves `reachable` for good and no stream id is ever allocated afterwards, that it "
              "leaves every stream with id <= N untouched, and that every still-active stream with N < id <= previous GOAWAY id ends "
              "UNAVAILABLE with Unprocessed()=true; the fourth clause (a later GOAWAY with a larger id is a connection error) is "
              "DISPROVED for the code as it is (machine-checked counterexample; reproduced on the real transport; known finding). The "
              "model is diffed against the real transport (state, every stream's outcome/flags, frames written) after every op.")
LEVEL_NOTE = ("CLIENT HALF ONLY: the server-side drain (Drain / handlePing / outgoingGoAwayHandler: GOAWAY(2^31-1)+PING, then "
              "GOAWAY(max accepted id)) is not modelled or tied in this revision. Trusted: Lean kernel; the hand model "
              "lean/GrpcModel/Model/ClientConn.lean (each handler is one atomic event: linearisability of the critical sections "
              "under t.mu / controlBuf.mu is assumed; the tie exercises quiescent event sequences); the framer glue "
              "lean/GrpcModel/Model/H2Wire.lean (x/net framer validity rules; HPACK only for literal fields); x/net/http2 framer. "
              "Reading: 'not failed by the GOAWAY' = the GOAWAY frame itself leaves the stream record untouched; the harness runs the "
              "client with StaticWindowSize (no BDP pings) and keepalive off; stream-level WINDOW_UPDATE frames are not compared.")
GAP = ("goroutine scheduling inside one handler; two NewStream calls woken by the same close(chan) (order decided by the Go runtime; the "
       "generator keeps at most one quota-blocked RPC); server-side drain")
ASSUMPTIONS = ["handlers of the reader goroutine, loopy items and NewStream attempts are atomic w.r.t. each other (they hold t.mu/controlBuf.mu)",
               "x/net/http2 framer and HPACK decoder behave as ported in H2Wire.lean (validated by the differential run)"]
TRUSTED = ["harness/synct/c_clientconn_test.go (peer, snapshot)", "lean/GrpcModel/Model/ClientConnSim.lean (settle = run to quiescence)"]
RULE = ("directed: k in {0,1,2,3,5} open streams x GOAWAY id in {0, first, middle, last, above, 2^31-1, even} x optional second GOAWAY "
        "{smaller, equal, larger, even, 0, max}, new RPCs before/after, streams finishing by trailers/RST/cancel; two-phase graceful "
        "shutdown; GracefulClose then GOAWAY; NewStream blocked on MAX_CONCURRENT_STREAMS released by GOAWAY/stream end/SETTINGS/"
        "deadline/cancel/Close; hold windows (the peer stops reading, loopy stalls, frames reach streams that are done but still in "
        "activeStreams; Close with a stalled loopy: 5 s timer); plus random op sequences (frames of every type incl. malformed, CONTINUATION, app ops, sleeps). "
        "A case is non-trivial if a GOAWAY frame was delivered while at least one stream was open; distinct = distinct op list.")


def gen(rng, tier):
    n = {"quick": 350, "thorough": 30000, "search": 4000}[tier]
    reps = {"quick": 2, "thorough": 20, "search": 8}[tier]
    for _ in range(reps):
        for ops, tag in g.directed_goaway(rng):
            yield Case("s_goaway", ops + ["end"], tag)
    for _ in range(max(1, reps // 2)):
        for ops, tag in g.directed_hold(rng):
            yield Case("s_goaway", ops + ["end"], tag)
    for i in range(n):
        b = g.Builder(rng, mcs=(rng.choice([1, 2, 3]) if rng.random() < 0.2 else None), allow_hold=rng.random() < 0.4)
        for _ in range(rng.randrange(0, 5)):
            b.new()
        b.random_tail(rng.randrange(0, 8))
        b.goaway_op()
        b.random_tail(rng.randrange(2, 25))
        yield Case("s_goaway", b.ops + ["end"], "rand-goaway-%d" % i)
    for i in range(n // 2):
        yield Case("s_goaway", g.random_case(rng, rng.randrange(5, 40)) + ["end"], "rand-%d" % i)


def nontrivial(case, impl_lines):
    seen_open = False
    for op, out in zip(case.ops, impl_lines):
        if op.startswith("f 7 ") and seen_open:
            return True
        seen_open = "rpcs=" in out and any(e[:1] in "AB" for e in out.split("rpcs=")[1].split(" ")[0].split(","))
    return False
