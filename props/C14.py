"""C14 GOAWAY and graceful drain never lose or double-run accepted work (client and server halves)."""
from vlib.core import Case
from vlib import clientconn_gen as g

ID = "C14"
COMPONENTS = ["s_goaway", "s_drain"]
T4 = ["ClientConn"]
PROOF_MODULES = ["GrpcProofs.Properties.C14", "GrpcProofs.Properties.C14Server"]
THEOREMS = ["GrpcProofs.C14." + t for t in (
    "no_new_stream_after_goaway", "le_N_not_failed_by_goaway", "gt_N_unprocessed", "goaway_keeps_outcome",
    "second_goaway_larger_is_conn_error", "second_goaway_larger_is_conn_error_partial",
    "second_goaway_larger_is_conn_error_counterexample", "witness_state", "witness_with_fix")] + [
    "GrpcProofs.C14Server." + t for t in (
    "final_goaway_carries_maxStreamID", "final_goaway_id_is_highest_accepted", "none_accepted_after_final_goaway",
    "no_silent_drop_below_final_goaway", "goaway_waits_for_operateHeaders", "pending_headers_above_final",
    "accepted_served_to_completion_partial", "accepted_served_to_completion_counterexample", "witness_state")]
DESIGN_REF = "DESIGN.md section 8, C14"
TECHNIQUE = ("Lean 4 theorems over a per-connection state machine of http2Client (events = critical sections of reader, loopy, "
             "NewStream, Close; theorems hold for every event sequence) + tie T2: the REAL http2Client inside a testing/synctest "
             "bubble against a scripted raw-frame peer, snapshot diffed after every op + T4 regenerated tables; the same for the server "
             "half with the REAL http2Server (NewServerTransport + HandleStreams) against a scripted raw-frame client")
LEVEL_TEXT = ("Machine-checked proof, for every state and every continuation (any interleaving of frames, NewStream calls, loopy and "
              "Close), that an accepted GOAWAY(N) leaves `reachable` for good and no stream id is ever allocated afterwards, that it "
              "leaves every stream with id <= N untouched, and that every still-active stream with N < id <= previous GOAWAY id ends "
              "UNAVAILABLE with Unprocessed()=true. Server: in every reachable state the final GOAWAY carries maxStreamID, every "
              "stream handed to a handler has id <= that id, and nothing is accepted once the transport left `reachable`. A later GOAWAY with a larger id "
              "makes the reader exit and Close start (second_goaway_larger_is_conn_error; this was false before fix bd29b43 — the "
              "_counterexample/_partial pair describes a tree without the `return` and is kept as the regression witness). One clause "
              "is DISPROVED for the code as it is (machine-checked counterexample, reproduced on the real transport, known finding "
              "F44): a draining server can close the connection under a stream covered by its final GOAWAY. Both models are diffed against the real "
              "transports (state, every stream's outcome/flags, frames written) after every op.")
LEVEL_NOTE = ("Trusted: Lean kernel; the hand models lean/GrpcModel/Model/ClientConn.lean and ServerDrain.lean (each handler is one "
              "atomic event: linearisability of the critical sections under t.mu / maxStreamMu / controlBuf.mu is assumed; the tie "
              "exercises quiescent event sequences plus stalled-loopy windows); the framer glue lean/GrpcModel/Model/H2Wire.lean (x/net "
              "framer validity rules; HPACK only for literal fields); x/net/http2 framer. Readings: 'not failed by the GOAWAY' = the "
              "GOAWAY frame itself leaves the stream record untouched; 'highest stream id it accepted' = t.maxStreamID, the highest "
              "stream id seen in a HEADERS frame that passed the id check (set before the other admission checks); 'no double-run' is "
              "covered on the client by the Unprocessed flag theorems only (the retry decision lives in stream.go). The client model "
              "follows the CURRENT source for whether the reader returns on handleGoAway's error (T4 flag readerReturnsOnGoAwayErr), so "
              "the model follows the code; the MONITOR (a larger/even second GOAWAY must close the connection) is what reports a tree "
              "without the `return` (F43, fixed by bd29b43). Harness: StaticWindowSize "
              "(no BDP pings), keepalive off on the client / default on the server; stream-level WINDOW_UPDATE frames are not compared; "
              "server handlers are driven by ops (WriteStatus), request bodies are not sent. Tie T3 for the server's admission race: "
              "http2_server.go is replaced (overlay only, tools/instr/h2server.json) by a copy regenerated from the current source "
              "whose t.mu / t.maxStreamMu acquisitions announce themselves; the harness parks the reader at operateHeaders' second lock "
              "(after `t.maxStreamID = streamID`, before the t.state check) while loopy, the 5 s timer, handlers and Close run.")
GAP = ("goroutine scheduling inside one handler; two NewStream calls woken by the same close(chan) (order decided by the Go runtime; the "
       "generator keeps at most one quota-blocked RPC); grpc.Server.GracefulStop above the transport (it calls Drain on every transport)")
ASSUMPTIONS = ["handlers of the reader goroutine, loopy items and NewStream attempts are atomic w.r.t. each other (they hold t.mu/controlBuf.mu)",
               "x/net/http2 framer and HPACK decoder behave as ported in H2Wire.lean (validated by the differential run)"]
TRUSTED = ["harness/synct/c_clientconn_test.go (peer, snapshot)", "lean/GrpcModel/Model/ClientConnSim.lean (settle = run to quiescence)"]
RULE = ("directed: k in {0,1,2,3,5} open streams x GOAWAY id in {0, first, middle, last, above, 2^31-1, even} x optional second GOAWAY "
        "{smaller, equal, larger, even, 0, max}, new RPCs before/after, streams finishing by trailers/RST/cancel; two-phase graceful "
        "shutdown; GracefulClose then GOAWAY; NewStream blocked on MAX_CONCURRENT_STREAMS released by GOAWAY/stream end/SETTINGS/"
        "deadline/cancel/Close; hold windows (the peer stops reading, loopy stalls, frames reach streams that are done but still in "
        "activeStreams; Close with a stalled loopy: 5 s timer); plus random op sequences (frames of every type incl. malformed, CONTINUATION, app ops, sleeps). "
        "Server (s_drain): k open streams x streams racing into the heads-up window x {ack, 5 s timer, wrong ack}, a stream after the "
        "final GOAWAY, handlers finishing / client RST in random order; the stalled-loopy window between the ack and the final "
        "GOAWAY; park windows (T3): the HEADERS of a new stream held inside operateHeaders between the id bookkeeping and the "
        "admission decision while Drain / the fallback timer's final GOAWAY / other handlers / Close run, then released; "
        "random op sequences incl. illegal stream ids, duplicate Drain, Close, peer EOF, park windows. "
        "A case is non-trivial if a GOAWAY frame was delivered/written while at least one stream was open; distinct = distinct op list.")


def gen(rng, tier):
    n = {"quick": 350, "thorough": 14000, "search": 4000}[tier]
    reps = {"quick": 2, "thorough": 20, "search": 8}[tier]
    for _ in range(reps):
        for ops, tag in g.directed_goaway(rng):
            yield Case("s_goaway", ops + ["end"], tag)
    for _ in range(max(1, reps // 2)):
        for ops, tag in g.directed_hold(rng):
            yield Case("s_goaway", ops + ["end"], tag)
    for i in range(n):
        b = g.Builder(rng, mcs=(rng.choice([1, 2, 3]) if rng.random() < 0.2 else None), allow_hold=rng.random() < 0.4)
        for _ in range(rng.randrange(0, 5)):
            b.new()
        b.random_tail(rng.randrange(0, 8))
        b.goaway_op()
        b.random_tail(rng.randrange(2, 25))
        yield Case("s_goaway", b.ops + ["end"], "rand-goaway-%d" % i)
    for ops, tag in g.drain_cases(rng, {"quick": 250, "thorough": 6000, "search": 3000}[tier]):
        yield Case("s_drain", ops, tag)
    for i in range(n // 2):
        yield Case("s_goaway", g.random_case(rng, rng.randrange(5, 40)) + ["end"], "rand-%d" % i)


def nontrivial(case, impl_lines):
    if case.component == "s_drain":
        return any("wire=" in o and "G" in o.split("wire=")[1].split(" ")[0] and "streams=-" not in o for o in impl_lines)
    seen_open = False
    for op, out in zip(case.ops, impl_lines):
        if op.startswith("f 7 ") and seen_open:
            return True
        seen_open = "rpcs=" in out and any(e[:1] in "AB" for e in out.split("rpcs=")[1].split(" ")[0].split(","))
    return False
