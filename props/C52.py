"""C52 ALTS records round-trip exactly and tampering is always detected."""
from vlib.core import Case

ID = "C52"
COMPONENTS = ["alts"]
T4 = ["Alts"]
PROOF_MODULES = ["GrpcProofs.Properties.C52"]
THEOREMS = ["GrpcProofs.C52." + t for t in (
    "tamper_detected", "run_clean", "roundtrip_any_segmentation", "write_chunks", "record_le_frame_limit",
    "record_accepted_by_length_check", "counter_inc", "seal_fails_after_wrap")]
DESIGN_REF = "DESIGN.md section 8, C52"
TECHNIQUE = ("Lean 4: invariant over arbitrary feed/read op lists (safety for every adversarial byte stream; progress for every "
             "segmentation of the genuine stream), list lemmas for framing, induction for the byte counter; AES-GCM idealised; "
             "T1 correspondence on real AES-GCM conns over a byte-controlled in-memory wire; T4 constants")
LEVEL_TEXT = ("Machine-checked proof, about a model of conn.Write/ReadOnReady/ParseFramedMsg/Counter.Inc, that for every sequence of "
              "writes, every segmentation and every Read size the peer reads exactly the written bytes; that whatever the network "
              "delivers (changed, dropped, duplicated, reordered bytes) the bytes returned by Read are a prefix of the written bytes; "
              "that every record is at most max(4 KiB, negotiated) long; and that the record counter counts up without repetition and "
              "turns invalid exactly when it would wrap. The model is replayed against the real conns (real AES-128-GCM-rekey) on every run.")
LEVEL_NOTE = ("PARTIAL: AES-GCM is idealised (a block verifies under counter c iff it is byte-for-byte the block the sender sealed for "
              "record c) - cryptographic strength is assumed, not proved. After the first failed Read the real conn is not sticky; the "
              "model is (gRPC closes the transport on a Read error); later Reads are judged by the monitor only. Once a tampered byte "
              "sits in a framing position the model cannot predict the parser (ciphertext values unknown): outputs are then judged by "
              "the monitor only. Trusted: Lean kernel, T4 extractor, the harness's wire.")
GAP = "cryptographic strength of AES-GCM / HKDF rekeying; buffer pooling (C53); real sockets"
ASSUMPTIONS = ["ideal AEAD", "the underlying net.Conn delivers bytes in order (TCP)"]
RULE = ("per case: negotiated frame size in {0,4096,5000,16384,65536,524288}; 1-6 writes of sizes around 0/1/limit/limit+-1/2*limit/"
        "random (a few up to 1.3 MB); deliveries in random segment sizes (1, header-splitting 3/5/7, random, all); reads with buffers "
        "1..70000; in 45% of cases one network action: tamper a byte (length field / type field / ciphertext / tag), drop bytes, swap or "
        "duplicate records; plus counter cases around byte-carry boundaries. Non-trivial: at least one write and one data-returning read; "
        "distinct = distinct op list")


def gen_case(rng, big):
    neg = rng.choice([0, 0, 4096, 5000, 16384, 65536, 524288])
    limit = max(4096, neg) - 24
    ops = ["new %d" % neg]
    total = 0
    nw = rng.randrange(1, 7)
    tamper = rng.random() < 0.45
    tampered = False
    for w in range(nw):
        r = rng.random()
        if r < 0.15:
            n = rng.choice([0, 1, 2, 23, 24, 25])
        elif r < 0.5:
            n = max(0, limit + rng.choice([-1, 0, 1, -24, 24]) * rng.choice([1, 1, 2]))
        elif r < 0.9:
            n = rng.randrange(1, 3 * limit if limit < 20000 else 40000)
        else:
            n = rng.randrange(1, 1300000 if big else 30000)
        ops.append("write %d %d" % (n, rng.randrange(1, 2**31)))
        total += n + 24 * (n // limit + 1)
        if tamper and not tampered and rng.random() < 0.6:
            tampered = True
            k = rng.random()
            off = rng.randrange(0, max(1, min(total, 3 * (limit + 24))))
            if k < 0.15:
                off = rng.choice([0, 1, 2, 3])            # length field
            elif k < 0.25:
                off = rng.choice([4, 5, 6, 7])            # type field
            if k < 0.6:
                ops.append("tamper %d %d" % (off, rng.randrange(1, 256)))
            elif k < 0.75:
                ops.append("dropbytes %d %d" % (off, rng.randrange(1, 40)))
            elif k < 0.9:
                ops.append("swaprec")
            else:
                ops.append("duprec")
        # deliver + read
        for _ in range(rng.randrange(1, 8)):
            seg = rng.choice([1, 3, 5, 7, 8, 23, 24, 25, rng.randrange(1, 2 * limit + 100), 10**7])
            ops.append("deliver %d" % seg)
            for _ in range(rng.randrange(0, 4)):
                ops.append("read %d" % rng.choice([1, 2, 16, 17, 100, 4072, 4096, rng.randrange(1, 70000)]))
    ops.append("deliver 100000000")
    for _ in range(rng.randrange(2, 12)):
        ops.append("read %d" % rng.choice([1, 100, 4096, 70000, 2000000]))
    for _ in range(25):
        ops.append("read 2000000")
    return ops


def gen_ctr(rng, n):
    ops = []
    # directed: every overflow length, counters a few increments below the wrap of the carried part
    for ovf in range(1, 13):
        for below in (0, 1, 2, 255, 256):
            v = (256 ** ovf - 1 - below) if 256 ** ovf - 1 - below >= 0 else 0
            bs = [(v >> (8 * i)) & 255 for i in range(ovf)] + [rng.randrange(256) for _ in range(12 - ovf)]
            for times in (below, below + 1, below + 2, 1):
                if times >= 0:
                    ops.append("ctr %s %d %d" % ("".join("%02x" % b for b in bs), ovf, times))
    for _ in range(n):
        ovf = rng.choice([1, 2, 2, 3, 8])
        v = [rng.choice([0, 1, 254, 255, rng.randrange(256)]) for _ in range(12)]
        times = rng.choice([1, 2, 255, 256, 257, 65535, 65536, rng.randrange(1, 70000)])
        ops.append("ctr %s %d %d" % ("".join("%02x" % b for b in v), ovf, times))
    return ops


def gen(rng, tier):
    n = {"quick": 120, "thorough": 3000, "search": 1500}[tier]
    nbig = {"quick": 2, "thorough": 30, "search": 10}[tier]
    yield Case("alts", gen_ctr(rng, 300 if tier == "quick" else 3000), "counter")
    for i in range(n):
        yield Case("alts", gen_case(rng, i < nbig), "conn-%d" % i)


def nontrivial(case, impl):
    return any(op.startswith("write") for op in case.ops) and any(l.startswith("data") for l in impl)
