"""C26 Requests are dispatched only to the registered method."""
from vlib.core import Case

ID = "C26"
COMPONENTS = ["s_dispatch"]
T4 = []
PROOF_MODULES = ["GrpcProofs.Properties.C26"]
THEOREMS = ["GrpcProofs.C26." + t for t in (
    "parse_spec", "dispatch_spec", "reaches_only_the_registered_handler", "registered_is_dispatched",
    "malformed_reaches_nothing", "else_unimplemented_or_unknown_handler")]
DESIGN_REF = "DESIGN.md section 8, C26"
TECHNIQUE = ("Lean 4 theorems by list induction over byte strings (split on the last slash, map-insert order of the method table) + "
             "T2 e2e correspondence: real grpc.Server over bufconn inside a testing/synctest bubble, driven by a raw HTTP/2 client "
             "(x/net/http2 Framer + hpack) that can send arbitrary :path values")
LEVEL_TEXT = ("Machine-checked proof, for every byte string and every registry, that the model of Server.handleStream runs a registered "
              "handler iff the path is '/'+service+'/'+method with no slash in the method part, the service is registered under exactly "
              "that name and the handler is the table entry for exactly that method name; that a path without a leading slash or "
              "without a second slash reaches no handler (unknown-service handler included); and that every other path yields "
              "UNIMPLEMENTED or the unknown-service handler. The model is diffed end to end against the real server on every run.")
LEVEL_NOTE = ("Reading: 'well-formed' = a leading slash and at least one more slash; the split is on the LAST slash, so service names may "
              "contain slashes and a method registered with a slash in its name is unreachable (the theorem's side condition). Duplicate "
              "service names are excluded (RegisterService log.Fatals); duplicate method names inside one ServiceDesc are modelled (last "
              "Method wins, Methods shadow Streams). Header values with control bytes never reach gRPC: the x/net/http2 framer answers "
              "RST_STREAM(PROTOCOL_ERROR); that filter is an assumption of the model, exercised by the run. Trusted: Lean kernel, the "
              "hand model, x/net/http2 + hpack on both sides, synctest quiescence.")
GAP = "the ServeHTTP (handler_server.go) transport path is not driven; x/net/http2 framing is trusted"
ASSUMPTIONS = ["x/net/http2 rejects header values containing control bytes other than TAB before the transport sees them",
               "RegisterService is not called twice with the same service name"]
RULE = ("random registries of 0-4 services (names with dots, slashes, empty, non-ASCII, differing in case) with 0-3 unary methods and "
        "0-2 streams (duplicates, empty names, names with slashes, method/stream name clashes), with and without an unknown-service "
        "handler; per registry ~30 paths: every registered pair, and mutations (no leading slash, doubled/trailing/missing slashes, "
        "nested names re-split, empty components, case changes, non-ASCII and invalid UTF-8 bytes, control bytes, no :path header). "
        "A case is non-trivial if at least one request ran a handler and one did not.")

SVC_NAMES = [b"a", b"pkg.Svc", b"a/b", b"", b"a.b/c", b"\xc3\xa9", b"A", b"grpc.health.v1.Health", b"a/", b"/a", b"x y", b"\xff\xfe"]
M_NAMES = [b"M", b"m", b"", b"Get", b"a/b", b"b", b"c", b"\xc3\xa9", b"M/", b"Watch", b" "]


def hx(b):
    return b.hex() if b else "-"


def hxl(lst):
    if not lst:
        return "-"
    return ",".join(b.hex() if b else "e" for b in lst)


def mutate(rng, p):
    r = rng.randrange(14)
    if r == 0:
        return p[1:]
    if r == 1:
        return b"/" + p
    if r == 2:
        return p + b"/"
    if r == 3:
        return p.replace(b"/", b"//", 1)
    if r == 4:
        i = p.rfind(b"/")
        return p[:i] + p[i + 1:] if i >= 0 else p
    if r == 5:
        return p.swapcase()
    if r == 6:
        i = rng.randrange(len(p) + 1)
        return p[:i] + bytes([rng.choice([0, 10, 13, 9, 127, 31, 32, 128, 255, 0xc3])]) + p[i:]
    if r == 7:
        return p + b"/" + rng.choice(M_NAMES)
    if r == 8:
        return p[:rng.randrange(len(p) + 1)]
    if r == 9:
        return p.replace(b"/", b".", 1)
    if r == 10:
        i = rng.randrange(len(p) + 1)
        return p[:i] + b"/" + p[i:]
    if r == 11:
        return p[::-1]
    if r == 12:
        return p + rng.choice([b"x", b"\x00", b" "])
    return p


def gen(rng, tier):
    n_cases = {"quick": 40, "thorough": 1500, "search": 600}[tier]
    fixed = [b"", b"/", b"//", b"///", b"/a", b"a", b"a/b", b"/a/", b"//b", b"/a//b", b"/a/b/", b"/a/b/c", b"/\xc3\xa9/\xc3\xa9"]
    for ci in range(n_cases):
        ops = []
        names = rng.sample(SVC_NAMES, rng.randrange(0, 5))
        if ci % 7 == 0 and b"a" not in names:
            names.append(b"a")
        reg = []
        for nm in names:
            ms = [rng.choice(M_NAMES) for _ in range(rng.randrange(0, 4))]
            ss = [rng.choice(M_NAMES) for _ in range(rng.randrange(0, 3))]
            reg.append((nm, ms, ss))
            ops.append("svc %s %s %s" % (hx(nm), hxl(ms), hxl(ss)))
        if rng.random() < 0.1 and names:
            ops.append("svc %s - -" % hx(names[0]))      # duplicate name: refused by the harness (`dup`)
        ops.append("serve %d" % (1 if rng.random() < 0.4 else 0))
        paths = []
        for nm, ms, ss in reg:
            for m in ms + ss:
                paths.append(b"/" + nm + b"/" + m)
        good = list(paths)
        for _ in range(14):
            base = rng.choice(good) if good and rng.random() < 0.8 else b"/" + rng.choice(SVC_NAMES) + b"/" + rng.choice(M_NAMES)
            paths.append(mutate(rng, base))
            if rng.random() < 0.3:
                paths.append(mutate(rng, mutate(rng, base)))
        paths += rng.sample(fixed, 5)
        rng.shuffle(paths)
        for p in paths[:40]:
            ops.append("call %s" % hx(p))
        if rng.random() < 0.5:
            ops.insert(rng.randrange(len(reg) + 2, len(ops) + 1), "callnopath")
        yield Case("s_dispatch", ops, "dispatch-%d" % ci)


def nontrivial(case, impl_lines):
    ran = [l for l in impl_lines if l.startswith("ran=") and not l.startswith("ran=- ")]
    notran = [l for l in impl_lines if l.startswith("ran=- ")]
    return bool(ran) and bool(notran)
