"""C37 Ring hash builds bounded deterministic rings and walks them per A61."""
from fractions import Fraction

from vlib.core import Case

ID = "C37"
COMPONENTS = ["ring"]
T4 = []
PROOF_MODULES = ["GrpcProofs.Properties.C37"]
THEOREMS = ["GrpcProofs.C37." + t for t in (
    "ring_order_independent", "balancer_ring_follows_current_config", "ring_size_bounds", "ring_size_le_max_any_arithmetic", "ring_nonempty", "entries_proportional", "ring_sorted",
    "search_spec", "pick_first_at_least", "pick_wraps_to_first", "next_is_clockwise",
    "walk_skips_transient_failure", "walk_all_failed_returns_first_entry",
    "random_walk_first_ready", "random_walk_at_most_one_connect", "random_walk_no_ready")]
DESIGN_REF = "DESIGN.md section 8, C37"
TECHNIQUE = ("Lean 4 theorems about the exact-rational instance of a generic port of newRing (running-ceiling counts, size "
             "bounds, proportionality, permutation invariance), binary-search correctness of ring.pick, and the two picker walks "
             "+ T1 differential correspondence on the real newRing / ring.pick / ring.next / picker.Pick with real xxhash "
             "(hash values recomputed independently by the generator), the Float instance diffed entry for entry")
LEVEL_TEXT = ("Machine-checked Lean proof, over exact rational arithmetic, that the ring depends only on the endpoint set, has "
              "between min_ring_size and max_ring_size entries, gives endpoint i a count within 1 of scale*nw_i and is sorted by "
              "hash; that ring.pick (literal sort.Search port) returns the first entry with hash >= h and wraps to entry 0; that "
              "a request-hash pick goes to the first non-TRANSIENT_FAILURE entry clockwise (first entry if all failed) and a "
              "random-hash pick to the first READY endpoint with at most one exitIdle, none if an endpoint is CONNECTING.")
LEVEL_NOTE = ("Balancer level: the regeneration decision of ringhash.go (UpdateState/UpdateClientConnState) is ported as balUpdate; balancer_ring_follows_current_config proves the held ring is newRing(current endpoints, current bounds) after any update sequence, and the real balancer (registered builder, endpointsharding child, stub ClientConn) is driven through such sequences. PARTIAL: the real newRing computes in float64; apart from ring_size_le_max_any_arithmetic (|ring| <= max_ring_size "
              "for every arithmetic incl. float64, true since the F14 repair 9cc3b57 put `len(items) < maxRingSize` into the fill "
              "loop) the theorems are about the same definition instantiated with exact rationals; the float instance is diffed "
              "bit-for-bit against the Go code and the property's predicates (exact, no tolerance) are monitored on the real ring. "
              "The monitor's proportionality predicate is `exists scale in (n-1, n] with |count_i - scale*nw_i| < 1 for all i`. "
              "Known finding F14b: when an exact cumulative target is an integer the float64 value can land just above it and "
              "one endpoint gets an entry more, its neighbour one fewer (verdict accepted only when the ring equals what the float "
              "port of the current code predicts). F14 (max_ring_size + 1 entries) is fixed. Domain: distinct hash keys, distinct "
              "entry hashes, weights >= 1 with sum < 2^32, 1 <= min_ring_size <= max_ring_size (what the config parser guarantees).")
GAP = ("float64 rounding inside newRing is not reasoned about beyond the max bound (that is where F14b lives); xxhash is a parameter; "
       "resolver/child-policy plumbing of ringhash.go (state aggregation, ring regeneration) is not modelled")
ASSUMPTIONS = ["hash keys of the endpoints are distinct", "xxhash values of distinct ring entries are distinct",
               "child pickers are never in SHUTDOWN (the code panics on it)"]
RULE = ("ring: endpoint sets of 1..24 endpoints (equal, small, skewed 1..1000, huge up to 2^31 weights; random printable keys) "
        "with bounds (1,1) (4,8) (10,10) (100,100) (64,128) (1024,4096) (min>n) (max<n), each set built twice in different "
        "orders; then pick at every entry hash and hash+-1, 0, 2^64-1 and random hashes, next at every index, walk/rwalk with "
        "random endpoint states (all-TF, single READY/IDLE/CONNECTING, mixed) from several hashes. One ring per case. bal: sequences of "
        "resolver + LB-config updates through the real ringhash balancer (registered builder, endpointsharding child): only min, only "
        "max, both or no bound changed with the endpoints unchanged, interleaved with endpoint add/remove/weight changes; the ring "
        "the balancer holds after every update is judged against the bounds of that update.")

W64 = 1 << 64
M64 = W64 - 1
P1, P2, P3, P4, P5 = (11400714785074694791, 14029467366897019727, 1609587929392839161,
                      9650029242287828579, 2870177450012600261)


def _rotl(x, r):
    return ((x << r) | (x >> (64 - r))) & M64


def _round(acc, inp):
    acc = (acc + inp * P2) & M64
    return (_rotl(acc, 31) * P1) & M64


def _merge(acc, val):
    acc ^= _round(0, val)
    return (acc * P1 + P4) & M64


def xxh64(data):
    """xxHash64 with seed 0 (what xxhash.Sum64String computes), independent of the Go library."""
    n = len(data)
    p = 0
    if n >= 32:
        v1, v2, v3, v4 = (P1 + P2) & M64, P2, 0, (-P1) & M64
        while p + 32 <= n:
            v1 = _round(v1, int.from_bytes(data[p:p + 8], "little"))
            v2 = _round(v2, int.from_bytes(data[p + 8:p + 16], "little"))
            v3 = _round(v3, int.from_bytes(data[p + 16:p + 24], "little"))
            v4 = _round(v4, int.from_bytes(data[p + 24:p + 32], "little"))
            p += 32
        h = (_rotl(v1, 1) + _rotl(v2, 7) + _rotl(v3, 12) + _rotl(v4, 18)) & M64
        for v in (v1, v2, v3, v4):
            h = _merge(h, v)
    else:
        h = P5
    h = (h + n) & M64
    while p + 8 <= n:
        h ^= _round(0, int.from_bytes(data[p:p + 8], "little"))
        h = (_rotl(h, 27) * P1 + P4) & M64
        p += 8
    if p + 4 <= n:
        h ^= (int.from_bytes(data[p:p + 4], "little") * P1) & M64
        h = (_rotl(h, 23) * P2 + P3) & M64
        p += 4
    while p < n:
        h ^= (data[p] * P5) & M64
        h = (_rotl(h, 11) * P1) & M64
        p += 1
    h ^= h >> 33
    h = (h * P2) & M64
    h ^= h >> 29
    h = (h * P3) & M64
    h ^= h >> 32
    return h


assert xxh64(b"abc") == 0x44BC2CF5AD770999 and xxh64(b"Nobody inspects the spammish repetition") == 0xFBCEA83C8A378BF1

KEYCHARS = "abcdefghijklmnopqrstuvwxyzABCDEFGHIJKLMNOPQRSTUVWXYZ0123456789.-[]/"


def rand_keys(rng, n):
    keys = set()
    style = rng.randrange(3)
    while len(keys) < n:
        if style == 0:
            keys.add("10.0.%d.%d-%d" % (rng.randrange(256), rng.randrange(256), rng.choice([80, 443, 8080])))
        elif style == 1:
            keys.add("".join(rng.choice(KEYCHARS) for _ in range(rng.randrange(1, 12))))
        else:
            keys.add("ep%d" % rng.randrange(1000))
    keys = list(keys)
    rng.shuffle(keys)
    return keys


def rand_weights(rng, n):
    kind = rng.randrange(6)
    if kind == 0:
        return [1] * n
    if kind == 1:
        return [rng.randrange(1, 11) for _ in range(n)]
    if kind == 2:
        return [rng.randrange(1, 1001) for _ in range(n)]
    if kind == 3:
        cap = (2 ** 32 - 1) // n
        return [rng.randrange(1, min(2 ** 31, cap) + 1) for _ in range(n)]
    if kind == 4:
        w = [1] * n
        w[rng.randrange(n)] = rng.choice([1000, 10 ** 6, 2 ** 31 // n])
        return w
    return [rng.choice([1, 2, 3, 100]) for _ in range(n)]


def ring_op(rng, keys, ws, mn, mx):
    total = sum(ws)
    order = list(range(len(keys)))
    rng.shuffle(order)
    parts = []
    for i in order:
        k = min(mx + 2, int(Fraction(mx * ws[i], total)) + 3)
        hs = [xxh64(("%s_%d" % (keys[i], j)).encode()) for j in range(k)]
        parts.append("%s:%d:%s" % (keys[i], ws[i], ";".join(map(str, hs))))
    return "ring %d %d %s" % (mn, mx, ",".join(parts))


def states(rng, n):
    kind = rng.randrange(7)
    if kind == 0:
        return "T" * n
    if kind == 1:
        s = ["T"] * n
        s[rng.randrange(n)] = rng.choice("RIC")
        return "".join(s)
    if kind == 2:
        return "".join(rng.choice("IT") for _ in range(n))
    if kind == 3:
        return "".join(rng.choice("ITC") for _ in range(n))
    if kind == 4:
        return "".join(rng.choice("ITR") for _ in range(n))
    if kind == 5:
        return "I" * n
    return "".join(rng.choice("ICRT") for _ in range(n))


def ring_case(rng, keys, ws, mn, mx, n_pick, n_walk):
    """The generator mirrors nothing of newRing: entry hashes for the pick ops are drawn from the tables."""
    ops = [ring_op(rng, keys, ws, mn, mx), ring_op(rng, keys, ws, mn, mx)]
    n = len(keys)
    hs = [xxh64(("%s_%d" % (keys[rng.randrange(n)], rng.randrange(0, 3))).encode()) for _ in range(n_pick)]
    cands = [0, M64, 1, M64 - 1]
    for h in hs:
        cands += [h, (h + 1) & M64, (h - 1) & M64]
    for _ in range(n_pick):
        cands.append(rng.randrange(W64))
    for h in cands:
        ops.append("pick %d" % h)
    for i in range(min(mn, 12)):
        ops.append("next %d" % i)
    for _ in range(n_walk):
        h = rng.choice(cands)
        ops.append("%s %d %s" % (rng.choice(["walk", "rwalk"]), h, states(rng, n)))
    return ops


def bal_case(rng):
    """Resolver + LB-config updates through the REAL ringhash balancer: the same endpoint set with only min_ring_size,
    only max_ring_size, both or neither changed; endpoint additions / removals / weight changes / reorderings in between."""
    n = rng.choice([1, 2, 3, 3, 4, 6])
    keys = rand_keys(rng, n + 2)
    cur = list(zip(keys[:n], rand_weights(rng, n)))
    spare = keys[n:]
    mn = rng.choice([1, 4, 6, 10, 20, 40])
    mx = mn + rng.choice([0, 1, 5, 40, 60])
    ops = []
    sent = set()

    cache = {}

    def tab(k, j):
        if (k, j) not in cache:
            cache[(k, j)] = xxh64(("%s_%d" % (k, j)).encode())
        return cache[(k, j)]

    def emit():
        order = list(cur)
        rng.shuffle(order)
        parts = []
        for k, w in order:
            # the table (independent xxhash) is sent once per key; 200 entries cover every bound used here
            # the independent xxhash table travels with every update (so that any sub-sequence replays): the first
            # one is long enough for every bound used in the case (a ring that is legitimately kept needs it later)
            hs = ";".join(str(tab(k, j)) for j in range((mx_cap + 2) if k not in sent else min(mx + 2, mx_cap + 2)))
            sent.add(k)
            parts.append("%s:%d:%s" % (k, w, hs))
        ops.append("bal %d %d %s" % (mn, mx, ",".join(parts)))

    mx_cap = 200
    emit()
    for _ in range(rng.randrange(4, 12)):
        r = rng.random()
        if r < 0.25:
            mn = rng.randrange(1, mx + 1)                      # only min changes
        elif r < 0.50:
            mx = rng.randrange(mn, min(mn + 80, mx_cap) + 1)   # only max changes
        elif r < 0.60:
            mn = rng.randrange(1, 60); mx = mn + rng.randrange(0, 60)   # both
        elif r < 0.70:
            pass                                              # identical update
        elif r < 0.80 and spare:
            cur.append((spare.pop(), rng.randrange(1, 10)))
        elif r < 0.88 and len(cur) > 1:
            spare.append(cur.pop(rng.randrange(len(cur)))[0])
        else:
            i = rng.randrange(len(cur))
            cur[i] = (cur[i][0], rng.randrange(1, 20))
        emit()
        if rng.random() < 0.3 and False:
            pass
    return ops


BOUNDS = [(1, 1), (4, 8), (10, 10), (100, 100), (64, 128), (3, 7), (16, 16), (1, 4096)]


def gen(rng, tier):
    n_cases = {"quick": 220, "thorough": 5000, "search": 2500}[tier]
    n_big = {"quick": 2, "thorough": 30, "search": 15}[tier]
    # the 3-endpoint example of ring_test.go
    for mn, mx in [(1, 10), (10, 20), (20, 8), (8, 8)]:
        if mn <= mx:
            yield Case("ring", ring_case(rng, ["a", "b", "c"], [3, 3, 4], mn, mx, 4, 6), "example-%d-%d" % (mn, mx))
    for j in range(n_cases):
        n = rng.choice([1, 2, 3, 3, 4, 5, 8, rng.randrange(1, 25)])
        keys = rand_keys(rng, n)
        ws = rand_weights(rng, n)
        mn, mx = rng.choice(BOUNDS)
        if rng.random() < 0.15:
            mn = rng.randrange(1, 40)
            mx = mn + rng.randrange(0, 40)
        yield Case("ring", ring_case(rng, keys, ws, mn, mx, 4, 8), "ring-%d" % j)
    for j in range({"quick": 80, "thorough": 2000, "search": 1000}[tier]):
        yield Case("ring", bal_case(rng), "balancer-%d" % j)
    for j in range(n_big):
        n = rng.randrange(2, 40)
        keys = rand_keys(rng, n)
        ws = rand_weights(rng, n)
        yield Case("ring", ring_case(rng, keys, ws, 1024, 4096, 6, 6), "ring-big-%d" % j)
    # F14 witnesses (max+1 entries before /repo commit 9cc3b57; must now stay within max), each alone in its case
    w1 = [353, 525, 364, 915, 538, 257, 795, 474]
    yield Case("ring", [ring_op(rng, ["e%d" % i for i in range(8)], w1, 4, 8)], "F14-witness-4-8")
    # F14b witness: exact targets 20, 36, .. are integers; float64 gives 20.000000000000004 -> counts 21, 15 instead of 20, 16
    yield Case("ring", [ring_op(rng, ["e%d" % i for i in range(8)], [10, 8, 3, 5, 7, 1, 9, 6], 64, 128)], "F14b-witness-64-128")
    w2 = [795, 966, 256, 665, 54, 923, 161, 116]
    yield Case("ring", [ring_op(rng, ["e%d" % i for i in range(8)], w2, 100, 100)], "F14-witness-100-100")


def nontrivial(case, impl_lines):
    return any(op.startswith("ring ") or op.startswith("bal ") for op in case.ops)
