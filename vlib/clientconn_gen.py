"""Case generator shared by C14 (component s_goaway) and C11 (component s_clienttransport):
op sequences for the real http2Client driven by a scripted raw-frame peer
(harness/synct/c_clientconn_test.go).  All randomness comes from the rng passed in.

The generator keeps a conservative picture of the connection (which RPCs may be blocked in
NewStream, whether a drain was started) only to stay away from the few situations whose outcome the
Go runtime decides at random (two NewStream calls woken by the same close(chan), see RULE)."""

MAXI31 = 2**31 - 1


def hx(bs):
    return "".join("%02x" % b for b in bs) or "-"


def u32(v):
    return [(v >> 24) & 255, (v >> 16) & 255, (v >> 8) & 255, v & 255]


def varint7(n):
    if n < 127:
        return [n]
    out = [127]
    n -= 127
    while n >= 128:
        out.append((n % 128) | 128)
        n //= 128
    out.append(n)
    return out


def lit(name, value, never=False):
    """HPACK literal header field without indexing / never indexed, new name, no Huffman."""
    n = name if isinstance(name, (bytes, bytearray)) else name.encode()
    v = value if isinstance(value, (bytes, bytearray)) else value.encode()
    return [0x10 if never else 0x00] + varint7(len(n)) + list(n) + varint7(len(v)) + list(v)


def block(fields, rng=None):
    out = []
    for n, v in fields:
        out += lit(n, v, never=bool(rng and rng.random() < 0.1))
    return out


def frame(typ, flags, sid, payload):
    return "f %d %d %d %s" % (typ, flags, sid, hx(payload))


# ---- frames ---------------------------------------------------------------------------------

GRPC_HDR = [(":status", "200"), ("content-type", "application/grpc")]


def headers(sid, fields, es=False, eh=True, pad=None, prio=False, rng=None):
    p = block(fields, rng)
    flags = (1 if es else 0) | (4 if eh else 0)
    if prio:
        flags |= 0x20
        p = u32(0) + [7] + p
    if pad is not None:
        flags |= 8
        p = [pad % 256] + p + [0] * min(pad, 40)
    return frame(1, flags, sid, p)


def trailers(sid, code="0", extra=()):
    return headers(sid, [("grpc-status", str(code))] + list(extra), es=True)


def data(sid, n, es=False, pad=None):
    flags = 1 if es else 0
    p = [0x61] * n
    if pad is not None:
        flags |= 8
        p = [pad] + p + [0] * pad
    return frame(0, flags, sid, p)


def rst(sid, code):
    return frame(3, 0, sid, u32(code))


def goaway(last, code=0, debug=b""):
    return frame(7, 0, 0, u32(last) + u32(code) + list(debug))


def settings(pairs, ack=False):
    p = []
    for i, v in pairs:
        p += [(i >> 8) & 255, i & 255] + u32(v)
    return frame(4, 1 if ack else 0, 0, p)


def ping(ack=False, d=b"\x01\x02\x03\x04\x05\x06\x07\x08"):
    return frame(6, 1 if ack else 0, 0, list(d))


def wupdate(sid, inc):
    return frame(8, 0, sid, u32(inc))


# ---- header field menus ----------------------------------------------------------------------

def pick_fields(rng, kind):
    """kind: 'hdr' initial headers, 'trl' trailers, 'any'"""
    r = rng.random()
    good_md = [("x-a", "1"), ("x-b-bin", "YWJj"), ("x-c-bin", "YQ=="), ("x-d-bin", "YQ"), ("user-agent", "srv"), ("grpc-encoding", "gzip"),
               ("grpc-message", "m%20x"), ("te", "trailers"), ("x-long", "v" * 60)]
    bad_md = [("x-e-bin", "a"), ("x-e-bin", "!!!!"), ("x-e-bin", "ab=c"), ("x-e-bin", "a==="), ("x-e-bin", "ab==cd=="), ("x-e-bin", "abcde=")]
    if kind == "hdr":
        menu = [
            (30, GRPC_HDR),
            (5, GRPC_HDR + [rng.choice(good_md)]),
            (4, GRPC_HDR + [rng.choice(bad_md)]),
            (3, [(":status", "200"), ("content-type", "application/grpc+proto")]),
            (3, [(":status", "200"), ("content-type", "application/grpc;x")]),
            (3, [(":status", "200"), ("content-type", "application/grpcx")]),
            (3, [(":status", "200"), ("content-type", "text/html")]),
            (3, [(":status", "200")]),
            (4, [(":status", rng.choice(["404", "503", "401", "403", "429", "502", "504", "400", "500", "302", "999", "0", "-5", "+404"]))]),
            (3, [(":status", rng.choice(["100", "101", "199", "102"]))]),
            (3, [(":status", rng.choice(["abc", "", "2x", "99999999999999999999", "9223372036854775807", "-"]))]),
            (2, [("content-type", "application/grpc")]),
            (2, []),
            (2, [(":status", "404"), ("content-type", "application/grpc")]),
            (2, [(":status", "200"), ("content-type", "text/html"), ("content-type", "application/grpc")]),
            (2, GRPC_HDR + [("grpc-status", rng.choice(["0", "3", "x"]))]),
        ]
    elif kind == "trl":
        menu = [
            (30, [("grpc-status", rng.choice(["0", "0", "0", "1", "2", "5", "13", "14", "16", "17", "99", "2147483647", "-1", "-2147483648", "+7", "007"]))]),
            (6, [("grpc-status", "0"), ("grpc-message", "done")] + [rng.choice(good_md)]),
            (4, [("grpc-status", rng.choice(["", "abc", "2147483648", "-2147483649", "1.0", " 1", "0x1", "1_0", "+", "-"]))]),
            (3, [("grpc-message", "nostatus")]),
            (3, []),
            (3, [("grpc-status", "0"), rng.choice(bad_md)]),
            (3, [("grpc-status", "3"), ("grpc-status", "x")]),
            (3, [("grpc-status", "x"), ("grpc-status", "3")]),
            (3, [("grpc-status", "3"), ("grpc-status", "4")]),
            (3, GRPC_HDR + [("grpc-status", rng.choice(["0", "7", "12"]))]),
            (2, [(":status", "200"), ("grpc-status", "9")]),
            (2, [(":status", "404")]),
        ]
    else:
        return pick_fields(rng, rng.choice(["hdr", "trl"]))
    tot = sum(w for w, _ in menu)
    x = rng.random() * tot
    for w, f in menu:
        x -= w
        if x < 0:
            return list(f)
    return list(menu[0][1])


def weird_fields(rng):
    """header lists the framer itself rejects or truncates"""
    return rng.choice([
        GRPC_HDR + [("X-Upper", "1")],                        # invalid name -> stream error
        GRPC_HDR + [("x-ctl", "a\x01b")],                     # invalid value -> stream error
        GRPC_HDR + [("", "v")],                               # empty name
        [("content-type", "application/grpc"), (":status", "200")],   # pseudo after regular
        [(":foo", "1")] + GRPC_HDR,                           # unknown pseudo
        [(":status", "200"), (":status", "200")],             # duplicate pseudo
        [(":status", "200"), (":path", "/")],                 # mixed request/response
        [(":method", "GET")],                                 # request pseudo only (accepted by checkPseudos)
        GRPC_HDR + [("x-%d" % i, "v" * 30) for i in range(4)],   # > 256 bytes of header list -> Truncated
        [("x-%d" % i, "v" * 20) for i in range(6)],           # truncated without content-type
        GRPC_HDR + [("x-big", "v" * 200)],                    # one field over the remaining budget
        GRPC_HDR + [("x-huge", "v" * 300)],                   # string longer than maxHeaderStringLen -> conn error
        [("x-%d" % i, "") for i in range(9)],                 # many tiny fields: 9*35 > 256
        [("x-%d" % i, "v" * 90) for i in range(6)],           # encoded block > 2*256 -> conn error
    ])


# ---- the case builder --------------------------------------------------------------------------

class Builder:
    def __init__(self, rng, mcs=None, mhl=None, allow_hold=False):
        self.rng = rng
        self.ops = ["start %s %s" % ("-" if mcs is None else mcs, "-" if mhl is None else mhl)]
        self.mcs = mcs
        self.n_rpcs = 0
        self.next_id = 1          # estimate of t.nextID
        self.ids = []             # stream ids that probably exist
        self.live = 0             # upper bound on streams counted against the quota
        self.blocked = False      # an RPC may be blocked on the stream quota
        self.drain = False        # GOAWAY / GracefulClose happened
        self.gclosed = False
        self.dead = False         # connection presumably closed
        self.pending_cont = None  # (sid, remaining header block bytes, es)
        self.held = False
        self.allow_hold = allow_hold
        self.now = 0
        self.instants = set()     # absolute times at which a timer fires (two timers at one instant fire in random order)

    def add(self, op):
        self.ops.append(op)

    # -- application side
    def new(self, mode=None, deadline=None):
        rng = self.rng
        if self.mcs is not None and self.live >= self.mcs:
            if self.blocked or self.gclosed:
                # a second quota-blocked NewStream, or one blocked while the client drains on its own (its wake-up
                # by a freed quota token races with loopy closing the drained connection)
                return False
            self.blocked = True
            if deadline is None:
                deadline = rng.choice([0, 30, 100, 400])
        else:
            self.live += 1      # upper bound on the streams counted against the quota (never decremented)
            if not self.drain and not self.dead:
                self.ids.append(self.next_id)
                self.next_id += 2
        if mode is None:
            mode = rng.choice("rw")
        if deadline is None:
            deadline = rng.choice([0, 0, 0, 50, 200, 1000, 7000])
        if deadline:
            while self.now + deadline in self.instants:
                deadline += 1
            self.instants.add(self.now + deadline)
        self.add("new %s %d" % (mode, deadline))
        self.n_rpcs += 1
        return True

    def some_id(self):
        rng = self.rng
        r = rng.random()
        if self.ids and r < 0.8:
            return rng.choice(self.ids)
        if r < 0.9:
            return self.next_id + rng.choice([0, 2, 4])
        return rng.choice([0, 2, 4, 1, 3, 99, MAXI31])

    def frame_op(self):
        """one random peer frame (or a short burst for CONTINUATION)"""
        rng = self.rng
        if self.pending_cont is not None:
            sid, rest, _ = self.pending_cont
            r = rng.random()
            if r < 0.75:
                k = len(rest) if rng.random() < 0.6 else rng.randrange(0, len(rest) + 1)
                last = k == len(rest)
                self.add(frame(9, 4 if last else 0, sid, rest[:k]))
                self.pending_cont = None if last else (sid, rest[k:], False)
            elif r < 0.85:
                self.add(frame(9, 4, sid + 2, rest))          # wrong stream -> conn error
                self.pending_cont = None
                self.dead = True
            else:
                self.add(ping())                               # anything else -> conn error
                self.pending_cont = None
                self.dead = True
            return
        sid = self.some_id()
        r = rng.random()
        if r < 0.16:
            self.add(headers(sid, pick_fields(rng, "hdr"), es=rng.random() < 0.15, rng=rng,
                             pad=rng.choice([None, None, None, 0, 3]), prio=rng.random() < 0.05))
        elif r < 0.30:
            self.add(headers(sid, pick_fields(rng, "trl"), es=rng.random() < 0.9, rng=rng))
        elif r < 0.36:
            self.add(headers(sid, weird_fields(rng), es=rng.random() < 0.3))
        elif r < 0.40:
            # HEADERS split into CONTINUATION frames
            blk = block(pick_fields(rng, "any"))
            k = rng.randrange(0, len(blk) + 1)
            es = rng.random() < 0.5
            self.add(frame(1, 1 if es else 0, sid if sid else 1, blk[:k]))
            self.pending_cont = (sid if sid else 1, blk[k:], es)
        elif r < 0.56:
            n = rng.choice([0, 1, 5, 5, 100, 1000, 1024, 16384, 16383, 9000])
            pad = rng.choice([None, None, None, None, 0, 7, 255]) if n < 16000 else None
            self.add(data(sid, n, es=rng.random() < 0.25, pad=pad))
        elif r < 0.66:
            self.add(rst(sid, rng.choice(list(range(0, 14)) + [7, 7, 8, 8, 14, 255, 2**32 - 1])))
        elif r < 0.72:
            self.goaway_op()
        elif r < 0.78:
            kind = rng.random()
            if kind < 0.35 and not self.gclosed:
                v = rng.choice([0, 1, 2, 3, 100, 2**32 - 1])
                self.add(settings([(3, v)]))
                self.mcs = v
            elif kind < 0.5:
                self.add(settings([(6, rng.choice([10, 100, 5000, 2**32 - 1]))]))
            elif kind < 0.7:
                self.add(settings([(rng.choice([1, 2, 4, 5, 8, 9, 0xffff]), rng.choice([0, 1, 4096, 16384, 65535, 2**31 - 1]))]))
            elif kind < 0.8:
                self.add(settings([], ack=True))
            elif kind < 0.9:
                self.add(settings([]))
            else:
                self.add(rng.choice([settings([(4, 2**31)]), frame(4, 1, 0, [0] * 6), frame(4, 0, 1, []), frame(4, 0, 0, [0] * 5)]))
                self.dead = True
        elif r < 0.83:
            self.add(ping(ack=rng.random() < 0.3, d=bytes(rng.randrange(256) for _ in range(8))))
        elif r < 0.88:
            self.add(wupdate(rng.choice([0, sid]), rng.choice([1, 1000, MAXI31, 0, 2**31])))
        elif r < 0.92:
            t = rng.choice([2, 5, 9, 10, 16, 0x42, 0xff])
            pl = {2: [0, 0, 0, 1, 9], 5: [0, 0, 0, 2], 16: [0, 0, 0, 1, 0x75]}.get(t, [rng.randrange(256) for _ in range(rng.randrange(0, 9))])
            s = 0 if t == 16 else sid
            if rng.random() < 0.3:
                pl = pl[:rng.randrange(0, len(pl) + 1)]
            self.add(frame(t, rng.choice([0, 0, 1, 4, 8, 0x20, 0xff]) if t != 5 else rng.choice([0, 4]), s, pl))
        else:
            # malformed frames of the known types
            k = rng.randrange(16)
            s1 = sid or 1
            if k == 0:
                op = frame(0, 0, 0, [1, 2, 3])                  # DATA on stream 0
            elif k == 1:
                op = frame(0, 8, s1, [])                        # padded DATA without pad byte
            elif k == 2:
                op = frame(0, 8, s1, [9, 1, 2])                 # pad larger than payload
            elif k == 3:
                op = frame(1, 4, 0, block(GRPC_HDR))            # HEADERS on stream 0
            elif k == 4:
                op = frame(1, 4 | 8, s1, [200] + block(GRPC_HDR)[:5])   # pad too big -> stream error
            elif k == 5:
                op = frame(1, 4 | 0x20, s1, [0, 0])             # priority section short
            elif k == 6:
                op = frame(1, 4, s1, [0x80])                    # HPACK index 0
            elif k == 7:
                op = frame(1, 4, s1, block(GRPC_HDR)[:-2])      # truncated header block
            elif k == 8:
                op = frame(3, 0, s1, [0, 0, 0])                 # RST with 3 bytes
            elif k == 9:
                op = frame(3, 0, 0, u32(8))                     # RST on stream 0
            elif k == 10:
                op = rng.choice([frame(6, 0, 0, [0] * 7), frame(6, 0, 3, [0] * 8)])
            elif k == 11:
                op = rng.choice([frame(7, 0, 0, [0] * 7), frame(7, 0, 5, u32(1) + u32(0))])
            elif k == 12:
                op = frame(8, 0, sid, [0, 0, 0])
            elif k == 13:
                op = frame(0, 0, s1, [0] * 16385)               # larger than http2MaxFrameLen
            elif k == 14:
                op = frame(1, 4 | 8, s1, [])                    # padded HEADERS without pad byte
            else:
                op = frame(5, 4 | 8, s1, [9, 0, 0, 0, 2])       # PUSH_PROMISE pad too big
            self.add(op)

    def goaway_op(self, last=None, code=None):
        rng = self.rng
        if last is None:
            cands = [0, MAXI31, self.next_id, self.next_id - 2, 2, 4] + self.ids + [i + 2 for i in self.ids[:2]]
            last = max(0, rng.choice(cands))
        if code is None:
            code = rng.choice([0, 0, 0, 2, 11])
        dbg = b"too_many_pings" if (code == 11 and rng.random() < 0.7) else rng.choice([b"", b"bye"])
        self.add(goaway(last, code, dbg))
        self.drain = True

    def app_op(self):
        rng = self.rng
        r = rng.random()
        if r < 0.45:
            self.new()
        elif r < 0.6 and self.n_rpcs:
            self.add("half %d" % rng.randrange(self.n_rpcs))
        elif r < 0.75 and self.n_rpcs:
            self.add("cancel %d" % rng.randrange(self.n_rpcs))
        elif r < 0.9:
            ms = rng.choice([1, 10, 60, 250, 1000, 6000])
            self.add("sleep %d" % ms)
            self.now += ms
        elif r < 0.94 and not self.blocked:
            self.add("gclose")
            self.drain = True
            self.gclosed = True
        elif r < 0.97:
            self.add("close")
            self.instants.add(self.now + 5000)
            self.dead = True
        else:
            self.add(rng.choice(["peerclose", "trunc 000005", "trunc 00000401000000", "trunc 004001000000000001"]))
            self.dead = True

    def hold_window(self):
        """The peer stops reading: loopy stalls in its next flush while the reader goroutine keeps handling frames, so
        frames meet streams that are done but not yet removed from activeStreams.  No NewStream inside the window (a queued
        HEADERS item would be orphaned by loopy or closed by Close, whichever runs first)."""
        rng = self.rng
        if self.pending_cont is not None or self.held:
            return
        self.add("hold")
        self.held = True
        # one item for loopy to flush: it blocks right away, before any handler that queues several items (otherwise the
        # point at which it blocks depends on how far the reader goroutine got)
        self.add(ping())
        for _ in range(rng.randrange(1, 9)):
            sid = self.some_id()
            r = rng.random()
            if r < 0.22:
                self.add(trailers(sid, rng.choice(["0", "5", "x"])))
            elif r < 0.34:
                self.add(headers(sid, pick_fields(rng, "hdr"), es=rng.random() < 0.2))
            elif r < 0.48:
                self.add(data(sid, rng.choice([0, 3, 700, 16384]), es=rng.random() < 0.3))
            elif r < 0.62:
                self.add(rst(sid, rng.choice([0, 7, 7, 8, 2])))
            elif r < 0.72:
                self.goaway_op()
            elif r < 0.78:
                self.add(ping(d=bytes(rng.randrange(256) for _ in range(8))))
            elif r < 0.82:
                self.add(settings([(rng.choice([1, 4, 5]), 4096)]))
            elif r < 0.88 and self.n_rpcs:
                self.add("cancel %d" % rng.randrange(self.n_rpcs))
            elif r < 0.93 and self.n_rpcs:
                self.add("half %d" % rng.randrange(self.n_rpcs))
            elif r < 0.97:
                self.add("sleep %d" % rng.choice([1, 20]))
                self.now += 20
            else:
                self.add(rng.choice(["peerclose0", "f 6 0 0 00"]).replace("peerclose0", "f 3 0 0 00000008"))   # a connection error inside the window
                self.dead = True
        self.add("release")
        self.held = False

    def random_tail(self, n):
        rng = self.rng
        for _ in range(n):
            if self.allow_hold and rng.random() < 0.06:
                self.hold_window()
            elif self.pending_cont is not None or rng.random() < 0.62:
                self.frame_op()
            else:
                self.app_op()


def directed_goaway(rng):
    """C14 scenarios: k streams, GOAWAY(N), then a second GOAWAY / new RPCs / the streams finishing."""
    cases = []
    for k in (0, 1, 2, 3, 5):
        for which in ("zero", "first", "mid", "last", "above", "max", "even"):
            b = Builder(rng)
            for _ in range(k):
                b.new(deadline=rng.choice([0, 0, 3000]))
            ids = list(b.ids)
            n = {"zero": 0, "first": ids[0] if ids else 1, "mid": ids[len(ids) // 2] if ids else 3,
                 "last": ids[-1] if ids else 5, "above": (ids[-1] if ids else 1) + 2, "max": MAXI31,
                 "even": (ids[0] if ids else 1) + 1}[which]
            if rng.random() < 0.3 and ids:
                b.add(headers(rng.choice(ids), GRPC_HDR))
            b.goaway_op(last=n, code=rng.choice([0, 0, 11]))
            b.new()
            # second GOAWAY: smaller, equal, larger, even, zero
            second = rng.choice([None, "smaller", "equal", "larger", "even", "zero", "larger", "max"])
            if second is not None:
                m = {"smaller": max(1, n - 2) if n % 2 else 1, "equal": n, "larger": n + 2 if n < MAXI31 else n, "even": n + 1 if n % 2 else n + 2,
                     "zero": 0, "max": MAXI31}[second]
                b.goaway_op(last=m, code=0)
                b.add(ping())
            if rng.random() < 0.5:
                b.new()
            # let the surviving streams finish in some way
            for i in ids:
                r = rng.random()
                if r < 0.4:
                    b.add(trailers(i, rng.choice(["0", "5"])))
                elif r < 0.6:
                    b.add(rst(i, rng.choice([0, 7, 8])))
                elif r < 0.7:
                    b.add("cancel %d" % ids.index(i))
            b.add("sleep 4000")
            b.now += 4000
            b.random_tail(rng.randrange(0, 6))
            cases.append((b.ops, "goaway-%d-%s-%s" % (k, which, second)))
    # two-phase graceful shutdown as a real server does it
    for k in (1, 2, 4):
        b = Builder(rng)
        for _ in range(k):
            b.new()
        b.goaway_op(last=MAXI31, code=0)
        b.add(ping(d=b"\x01\x06\x01\x08\x00\x03\x03\x09"))
        if rng.random() < 0.5:
            b.new()
        b.goaway_op(last=b.ids[rng.randrange(len(b.ids))], code=0)
        for i in b.ids:
            b.add(trailers(i, "0"))
        b.add("sleep 10")
        b.now += 10
        cases.append((b.ops, "graceful-%d" % k))
    # client-side drain (GracefulClose) followed by a server GOAWAY
    for k in (0, 1, 3):
        b = Builder(rng)
        for _ in range(k):
            b.new()
        b.add("gclose")
        b.drain = b.gclosed = True
        b.new()
        b.goaway_op()
        b.new()
        for i in b.ids:
            b.add(trailers(i, "0"))
        b.random_tail(3)
        cases.append((b.ops, "gclose-%d" % k))
    # blocked NewStream (MAX_CONCURRENT_STREAMS) released by GOAWAY / by a stream ending / by SETTINGS
    for how in ("goaway", "end", "settings", "deadline", "cancel", "close"):
        b = Builder(rng, mcs=1)
        b.new(deadline=0)
        b.new(deadline={"deadline": 100}.get(how, 0))
        if how == "goaway":
            b.goaway_op(last=rng.choice([1, MAXI31, 0]))
        elif how == "end":
            b.add(trailers(1, "0"))
        elif how == "settings":
            b.add(settings([(3, 5)]))
        elif how == "deadline":
            b.add("sleep 150")
            b.now += 150
        elif how == "cancel":
            b.add("cancel 1")
        else:
            b.add("close")
        b.add(ping())
        b.random_tail(4)
        cases.append((b.ops, "blocked-" + how))
    return cases


def random_case(rng, n_ops, mcs_p=0.25):
    mcs = rng.choice([0, 1, 1, 2, 3]) if rng.random() < mcs_p else None
    mhl = rng.choice([10, 100, 5000]) if rng.random() < 0.08 else None
    b = Builder(rng, mcs=mcs, mhl=mhl)
    for _ in range(rng.randrange(0, 4)):
        b.new()
    b.random_tail(n_ops)
    return b.ops


def stream_lifecycles(rng):
    """C11 directed: every way a single stream can be ended, on a connection with a bystander stream."""
    cases = []
    enders = []
    for code in list(range(0, 14)) + [14, 255]:
        enders.append(("rst%d" % code, lambda i, code=code: [rst(i, code)]))
    for st in ["0", "1", "16", "17", "2147483647", "-1", "x", ""]:
        enders.append(("trl" + st, lambda i, st=st: [headers(i, GRPC_HDR), data(i, 5), trailers(i, st)]))
        enders.append(("trlonly" + st, lambda i, st=st: [headers(i, GRPC_HDR + [("grpc-status", st)], es=True)]))
    for hs in ["404", "503", "200", "100", "abc", ""]:
        enders.append(("http" + hs, lambda i, hs=hs: [headers(i, [(":status", hs)]), data(i, 600), data(i, 600), data(i, 10, es=True)]))
        enders.append(("httpes" + hs, lambda i, hs=hs: [headers(i, [(":status", hs)], es=True)]))
        enders.append(("httptrl" + hs, lambda i, hs=hs: [headers(i, [(":status", hs)]), data(i, 3), headers(i, [("x", "y")], es=True)]))
    enders.append(("dataes", lambda i: [headers(i, GRPC_HDR), data(i, 7, es=True)]))
    enders.append(("dataes-nohdr", lambda i: [data(i, 0, es=True)]))
    enders.append(("hdr-hdr", lambda i: [headers(i, GRPC_HDR), headers(i, GRPC_HDR)]))
    enders.append(("flow", lambda i: [headers(i, GRPC_HDR)] + [data(i, 16384)] * 5))
    enders.append(("flowpad", lambda i: [headers(i, GRPC_HDR)] + [data(i, 16000, pad=255)] * 5))
    enders.append(("trunc", lambda i: [headers(i, GRPC_HDR + [("x-%d" % j, "v" * 30) for j in range(5)])]))
    enders.append(("badname", lambda i: [headers(i, GRPC_HDR + [("X-Up", "1")])]))
    enders.append(("wu0", lambda i: [wupdate(i, 0)]))
    enders.append(("padbig", lambda i: [frame(1, 4 | 8, i, [200, 0, 1, 97, 1, 98])]))
    enders.append(("cancel", lambda i: ["cancel 1"]))
    enders.append(("deadline", lambda i: ["sleep 2500"]))
    enders.append(("goaway", lambda i: [goaway(1)]))
    enders.append(("close", lambda i: ["close"]))
    enders.append(("peerclose", lambda i: ["peerclose"]))
    enders.append(("connerr", lambda i: [frame(6, 0, 0, [0])]))
    for name, fn in enders:
        for mode in "rw":
            for half in (False, True):
                b = Builder(rng)
                b.new(mode="w", deadline=0)
                b.new(mode=mode, deadline=2000)
                if half:
                    b.add("half 1")
                for op in fn(3):
                    b.add(op)
                # frames after the stream is gone must change nothing
                b.add(trailers(3, "0"))
                b.add(data(3, 4))
                b.add(rst(3, 7))
                b.add(ping())
                b.add("sleep 3000")
                b.now += 3000
                b.add(trailers(1, "0"))
                cases.append((b.ops, "life-%s-%s-%d" % (name, mode, half)))
    return cases


def directed_hold(rng):
    """frames that reach a stream which already has its outcome but is still in activeStreams (loopy stalled)"""
    cases = []
    for first in ("trailers", "rst", "cancel", "dataes", "badhdr"):
        for second in ("goaway0", "rstrefused", "data", "trailers", "hdr", "rst", "goaway-goaway"):
            b = Builder(rng, allow_hold=True)
            b.new(mode=rng.choice("rw"), deadline=0)
            b.new(mode=rng.choice("rw"), deadline=0)
            b.add(headers(3, GRPC_HDR))
            b.add("hold")
            b.add(ping())
            b.add({"trailers": trailers(3, "5"), "rst": rst(3, 2), "cancel": "cancel 1", "dataes": data(3, 4, es=True),
                   "badhdr": headers(3, [("grpc-status", "x")], es=True)}[first])
            for op in {"goaway0": [goaway(1)], "rstrefused": [rst(3, 7)], "data": [data(3, 9), data(3, 0, es=True)],
                       "trailers": [trailers(3, "0")], "hdr": [headers(3, GRPC_HDR)], "rst": [rst(3, 8)],
                       "goaway-goaway": [goaway(MAXI31), goaway(1)]}[second]:
                b.add(op)
            b.add(ping())
            b.add("release")
            b.add(trailers(1, "0"))
            b.add("sleep 10")
            cases.append((b.ops, "hold-%s-%s" % (first, second)))
    for how in ("close", "connerr", "gclose", "peer-goaway-all"):
        b = Builder(rng, allow_hold=True)
        b.new(mode="w", deadline=0)
        b.new(mode="r", deadline=0)
        b.add("hold")
        b.add(ping())
        b.add(trailers(3, "0"))
        b.add({"close": "close", "connerr": frame(6, 0, 0, [0]), "gclose": "gclose", "peer-goaway-all": goaway(0)}[how])
        b.add("sleep 1000")
        b.add("sleep 5000")
        b.add("release")
        b.add("sleep 10")
        cases.append((b.ops, "hold-" + how))
    return cases


# ---- server half of C14: component s_drain (harness/synct/c_serverdrain_test.go) -------------------------------

GOAWAY_PING = "0106010800030309"


class DrainBuilder:
    def __init__(self, rng):
        self.rng = rng
        self.ops = ["start"]
        self.next = 1
        self.ids = []
        self.pings = 0
        self.held = False

    def add(self, op):
        self.ops.append(op)

    def hdr(self, sid=None):
        if sid is None:
            sid = self.next
        self.add("hdr %d" % sid)
        if sid % 2 == 1 and sid >= self.next:
            self.ids.append(sid)
            self.next = sid + 2

    def hold(self):
        """stall loopy: the client stops reading and one PING ack is waiting to be flushed"""
        if self.held or self.pings >= 2:
            return False
        self.add("hold")
        self.add("ping")
        self.pings += 1
        self.held = True
        return True

    def release(self):
        if self.held:
            self.add("release")
            self.held = False

    def park_window(self):
        """T3: the HEADERS of the next stream is read and the reader goroutine is parked inside operateHeaders, after
        `t.maxStreamID = streamID` and before the `t.state` check, while other goroutines (loopy's GOAWAY handlers, the
        5 s fallback timer, handlers finishing, Close) run.  No client frame can be processed inside the window."""
        rng = self.rng
        if self.held:
            return
        sid = self.next
        self.add("hdrpark %d" % sid)
        self.ids.append(sid)
        self.next = sid + 2
        for _ in range(rng.randrange(1, 5)):
            r = rng.random()
            if r < 0.3:
                self.add("drain")
            elif r < 0.65:
                self.add("sleep %d" % rng.choice([10, 1000, 5000, 5000]))
            elif r < 0.9 and self.ids[:-1]:
                self.add("finish %d %d" % (rng.choice(self.ids[:-1]), rng.choice([0, 5])))
            elif r < 0.94:
                self.add("close")
            else:
                self.add("sleep 10")
        self.add("unpark")

    def random_op(self):
        rng = self.rng
        r = rng.random()
        if r < 0.05:
            self.park_window()
        elif r < 0.28:
            self.hdr(self.next + rng.choice([0, 0, 0, 2]))
        elif r < 0.31:
            self.hdr(rng.choice([0, 2, self.next - 2 if self.next > 2 else 1, self.next + 1]))     # illegal id
        elif r < 0.43:
            self.add("drain")
        elif r < 0.53:
            self.add("pingack " + (GOAWAY_PING if rng.random() < 0.8 else "0000000000000000"))
        elif r < 0.72 and self.ids:
            self.add("finish %d %d" % (rng.choice(self.ids), rng.choice([0, 0, 5, 13])))
        elif r < 0.80 and self.ids:
            self.add("rst %d" % rng.choice(self.ids))
        elif r < 0.90:
            self.add("sleep %d" % rng.choice([10, 500, 1000, 5000]))
        elif r < 0.94:
            if not self.hold():
                self.release()
        elif r < 0.97:
            self.release()
        elif r < 0.985:
            self.add("peerclose")
        else:
            self.add("close")


def drain_cases(rng, n_random):
    cases = []
    # the protocol as designed: GOAWAY(2^31-1)+PING, streams racing in, ack (or 5 s), GOAWAY(max), drain, close
    for k in (0, 1, 2, 4):
        for racing in (0, 1, 2):
            for how in ("ack", "timer", "wrongack"):
                b = DrainBuilder(rng)
                for _ in range(k):
                    b.hdr()
                b.add("drain")
                for _ in range(racing):
                    b.hdr()
                b.add({"ack": "pingack " + GOAWAY_PING, "timer": "sleep 5000", "wrongack": "pingack 0000000000000001"}[how])
                if how == "wrongack":
                    b.add("sleep 5000")
                b.hdr()                      # after the final GOAWAY: must not be accepted
                ids = list(b.ids)
                rng.shuffle(ids)
                for i in ids:
                    b.add(rng.choice(["finish %d 0" % i, "finish %d 5" % i, "rst %d" % i]))
                b.add("sleep 2000")
                b.add("end")
                cases.append((b.ops, "drain-%d-%d-%s" % (k, racing, how)))
    # loopy stalled while the ack arrives: a stream accepted between the ack and the final GOAWAY
    for first in ("rst", "finish"):
        for k in (1, 2):
            b = DrainBuilder(rng)
            for _ in range(k):
                b.hdr()
            b.add("drain")
            b.hold()
            b.add("pingack " + GOAWAY_PING)
            for i in list(b.ids):
                b.add("%s %d%s" % (first, i, " 0" if first == "finish" else ""))
            b.hdr()
            b.release()
            b.add("sleep 2000")
            b.add("finish %d 0" % b.ids[-1])
            b.add("end")
            cases.append((b.ops, "drain-stalled-%s-%d" % (first, k)))
    # a new stream racing with the GOAWAYs: its HEADERS is inside operateHeaders (id recorded, admission not yet decided)
    # while the heads-up / final GOAWAY handlers, the fallback timer, other handlers or Close run
    for k in (0, 1, 2):
        for when in ("drain-park-timer", "park-drain-timer", "park-only", "drain-park-close", "drain-park-finish-timer", "park-drain-unpark-ack"):
            b = DrainBuilder(rng)
            for _ in range(k):
                b.hdr()
            sid = b.next
            steps = {
                "drain-park-timer": ["drain", "P", "sleep 5000"],
                "park-drain-timer": ["P", "drain", "sleep 1000", "sleep 5000"],
                "park-only": ["P", "sleep 1000"],
                "drain-park-close": ["drain", "P", "close", "sleep 10"],
                "drain-park-finish-timer": ["drain", "P"] + ["finish %d 0" % i for i in b.ids] + ["sleep 5000"],
                "park-drain-unpark-ack": ["P", "drain", "sleep 10"],
            }[when]
            for st in steps:
                if st == "P":
                    b.add("hdrpark %d" % sid)
                    b.ids.append(sid)
                    b.next = sid + 2
                else:
                    b.add(st)
            b.add("unpark")
            if when == "park-drain-unpark-ack":
                b.add("pingack " + GOAWAY_PING)
            b.add("sleep 10")
            b.hdr()
            ids = list(b.ids)
            rng.shuffle(ids)
            for i in ids:
                b.add("finish %d 0" % i)
            b.add("sleep 6000")
            b.add("end")
            cases.append((b.ops, "drain-park-%d-%s" % (k, when)))
    for i in range(n_random):
        b = DrainBuilder(rng)
        for _ in range(rng.randrange(0, 4)):
            b.hdr()
        for _ in range(rng.randrange(3, 25)):
            b.random_op()
        b.release()
        b.add("end")
        cases.append((b.ops, "drain-rand-%d" % i))
    return cases


# ---- header VALUE grammars: every header the client parses gets values from a small grammar incl. every truncation ------

def _short_strings(alphabet, maxlen):
    out = [""]
    frontier = [""]
    for _ in range(maxlen):
        frontier = [s + a for s in frontier for a in alphabet]
        out += frontier
    return out


PERCENT_ALPHA = ["%", "4", "1", "g", "E"]          # '%', hex digits (both cases), a non-hex byte


def percent_values(rng, n_random):
    """grpc-message values: all strings of length <= 4 over {%,4,1,g,E}, plus longer random ones made of escapes
    (valid, invalid-hex, truncated to one or zero digits) and plain bytes, incl. every proper prefix of each."""
    vals = _short_strings(PERCENT_ALPHA, 4)
    toks = ["%41", "%e4", "%E4", "%20", "%zz", "%4g", "%g4", "%", "%4", "%%", "a", " ", "\xc3\xa9".encode("latin1").decode("latin1"), "~", "+"]
    for _ in range(n_random):
        v = "".join(rng.choice(toks) for _ in range(rng.randrange(1, 7)))
        vals.append(v)
        k = rng.randrange(0, len(v) + 1)
        vals.append(v[:k])
    return vals


def b64_values(rng, n_random):
    vals = _short_strings(["Y", "Q", "=", "!"], 4)
    for _ in range(n_random):
        n = rng.randrange(0, 10)
        v = "".join(rng.choice("YWJjZA09+/") for _ in range(n)) + rng.choice(["", "=", "==", "===", "=a"])
        vals.append(v)
    return vals


def int_values(rng, n_random):
    vals = ["", "0", "-0", "+0", "00", "1", "16", "17", "2147483647", "2147483648", "-2147483648", "-2147483649", "4294967295",
            "9223372036854775807", "9223372036854775808", "-9223372036854775808", "-9223372036854775809", "1e3", "0x10", "1_0",
            " 1", "1 ", "+", "-", "++1", "100", "199", "200", "404", "99", "٣"]
    for _ in range(n_random):
        vals.append(rng.choice(["", "+", "-"]) + "".join(rng.choice("0123456789") for _ in range(rng.randrange(0, 21))) + rng.choice(["", "", "x", " "]))
    return vals


def ctype_values(rng):
    base = "application/grpc"
    vals = [base[:k] for k in range(len(base) + 1)] + [base + x for x in ["+", ";", "+proto", ";x=y", "x", "/", " ", "+" * 3]]
    vals += [base.upper(), "Application/grpc", "text/plain", ""]
    return vals


def header_value_cases(rng, n_random, per_case=10):
    """One RPC per value: the server answers stream k with a response whose parsed header carries the value.  Covers the
    value GRAMMAR of every header operateHeaders interprets (grpc-message percent escapes, grpc-status / :status integers,
    -bin base64, content-type), exhaustively for short values and with random longer ones, each with its truncations."""
    items = []      # (label, list of frames as functions of the stream id)
    for v in percent_values(rng, n_random):
        where = rng.choice(["trl", "trlonly"])
        if where == "trl":
            items.append(("msg", lambda i, v=v: [headers(i, GRPC_HDR), headers(i, [("grpc-status", "3"), ("grpc-message", v.encode("latin1"))], es=True)]))
        else:
            items.append(("msg", lambda i, v=v: [headers(i, GRPC_HDR + [("grpc-status", "3"), ("grpc-message", v.encode("latin1"))], es=True)]))
    for v in b64_values(rng, n_random // 2):
        items.append(("bin", lambda i, v=v: [headers(i, GRPC_HDR + [("x-v-bin", v)], es=rng.random() < 0.5)]))
        items.append(("bin", lambda i, v=v: [headers(i, GRPC_HDR), headers(i, [("grpc-status", "0"), ("x-t-bin", v)], es=True)]))
    for v in int_values(rng, n_random // 2):
        v8 = v.encode("utf-8")
        items.append(("gs", lambda i, v8=v8: [headers(i, GRPC_HDR), headers(i, [("grpc-status", v8)], es=True)]))
        items.append(("hs", lambda i, v8=v8: [headers(i, [(":status", v8)], es=rng.random() < 0.5)]))
    for v in ctype_values(rng):
        items.append(("ct", lambda i, v=v: [headers(i, [(":status", "200"), ("content-type", v)], es=rng.random() < 0.3)]))
    rng.shuffle(items)
    cases = []
    for c in range(0, len(items), per_case):
        chunk = items[c:c + per_case]
        b = Builder(rng)
        for _ in chunk:
            b.new(mode=rng.choice("rw"), deadline=0)
        for k, (_, fn) in enumerate(chunk):
            for op in fn(2 * k + 1):
                b.add(op)
        b.add(ping())
        cases.append((b.ops + ["end"], "values-%d" % (c // per_case)))
    return cases
