"""Check pipeline shared by every property (see DESIGN.md section 5).

A property module props/<ID>.py defines:

  ID, COMPONENTS, T4 (spec names under tools/t4), PROOF_MODULES, THEOREMS (fully
  qualified Lean names), DESIGN_REF, LEVEL_TEXT, LEVEL_NOTE, TECHNIQUE, GAP (what the
  model cannot exhibit), ASSUMPTIONS (list), RULE (how cases are generated / what
  makes one non-trivial), and

  gen(rng, tier)      -> iterable of Case   (tier: quick | thorough | search)
  nontrivial(case, impl_lines) -> bool      (optional)

Everything random comes from the one `random.Random(seed)` passed to gen.
"""
import fcntl
import hashlib
import importlib.util
import json
import os
import random
import re
import subprocess
import sys
import time

ROOT = os.path.dirname(os.path.dirname(os.path.abspath(__file__)))
REPO = os.environ.get("VERIF_REPO", "/repo")
BUILD = os.path.join(ROOT, ".build")
LEAN = os.path.join(ROOT, "lean")
HARNESS = os.path.join(ROOT, "harness")
ALLOWED_AXIOMS = {"propext", "Classical.choice", "Quot.sound"}
FORBIDDEN = re.compile(r"\bsorry\b|\badmit\b|^axiom |native_decide|bv_decide|implemented_by|\bunsafe |maxHeartbeats 0", re.M)

# /repo needs go 1.25.0; the default `go` (1.23.5) would auto-switch to the cached toolchain, which
# fails under GOTOOLCHAIN=local / GOSUMDB=off. Calling the cached 1.25.0 binary directly is robust
# under every environment the checks may be started with.
_TC = "/root/go/pkg/mod/golang.org/toolchain@v0.0.1-go1.25.0.linux-amd64/bin/go"
GO = _TC if os.path.exists(_TC) else "go"
GOENV = dict(os.environ, GOFLAGS="-mod=mod", GOPROXY="off", GOSUMDB="off", GOTOOLCHAIN="local")


class Case:
    __slots__ = ("component", "ops", "tag")

    def __init__(self, component, ops, tag=""):
        self.component = component
        self.ops = list(ops)
        self.tag = tag

    def key(self):
        return hashlib.sha1((self.component + "\n" + "\n".join(self.ops)).encode()).hexdigest()

    def to_json(self):
        return {"component": self.component, "tag": self.tag, "ops": self.ops}


class Broken(Exception):
    """A proof obligation or a tie could not be established (build failure etc.)."""

    def __init__(self, what, detail=""):
        super().__init__(what)
        self.what = what
        self.detail = detail


def log(*a):
    print(*a, file=sys.stderr, flush=True)


def sh(cmd, cwd=None, env=None, timeout=3600, input=None):
    p = subprocess.run(cmd, cwd=cwd, env=env, timeout=timeout, input=input,
                       stdout=subprocess.PIPE, stderr=subprocess.STDOUT, text=True)
    return p.returncode, p.stdout


def load_prop(pid):
    path = os.path.join(ROOT, "props", pid + ".py")
    if not os.path.exists(path):
        raise SystemExit("no such property module: " + path)
    spec = importlib.util.spec_from_file_location("props_" + pid, path)
    m = importlib.util.module_from_spec(spec)
    sys.path.insert(0, ROOT)
    spec.loader.exec_module(m)
    return m


# ----------------------------------------------------------------------------- build

class Lock:
    def __enter__(self):
        os.makedirs(BUILD, exist_ok=True)
        self.f = open(os.path.join(BUILD, "lock"), "w")
        fcntl.flock(self.f, fcntl.LOCK_EX)
        return self

    def __exit__(self, *a):
        fcntl.flock(self.f, fcntl.LOCK_UN)
        self.f.close()


def build_extract():
    out = os.path.join(BUILD, "extract")
    src = os.path.join(ROOT, "tools", "extract")
    if (not os.path.exists(out)) or os.path.getmtime(out) < os.path.getmtime(os.path.join(src, "main.go")):
        rc, o = sh([GO, "build", "-o", out, "."], cwd=src, env=GOENV)
        if rc != 0:
            raise Broken("tools/extract does not build", o)
    return out


def run_t4(names):
    """Tie T4: regenerate Generated/<name>.lean from the current Go source."""
    ex = build_extract()
    os.makedirs(os.path.join(LEAN, "GrpcModel", "Generated"), exist_ok=True)   # untracked: absent in a fresh checkout
    for n in names:
        spec = os.path.join(ROOT, "tools", "t4", n + ".json")
        out = os.path.join(LEAN, "GrpcModel", "Generated", n + ".lean")
        rc, o = sh([ex, "-repo", REPO, "-spec", spec, "-out", out])
        if rc != 0:
            raise Broken("T4 extraction failed for %s (a constant/table the model depends on is gone or no longer a literal)" % n, o)


def gen_main():
    sh([sys.executable, os.path.join(ROOT, "tools", "genmain.py")])


def lake_build(targets):
    rc, o = sh(["lake", "build"] + targets, cwd=LEAN, timeout=3600)
    return rc, o


def strip_comments(src):
    src = re.sub(r"/-.*?-/", "", src, flags=re.S)
    src = re.sub(r"--.*", "", src)
    return src


def local_imports(mod, seen):
    if mod in seen:
        return
    path = os.path.join(LEAN, *mod.split(".")) + ".lean"
    if not os.path.exists(path):
        return
    seen[mod] = path
    for m in re.findall(r"^import\s+(\S+)", open(path).read(), flags=re.M):
        if m.startswith("GrpcModel") or m.startswith("GrpcProofs"):
            local_imports(m, seen)


def audit(prop):
    """Build the proof modules, print the axioms of every property theorem, grep the sources.
    Returns (obligations, discharged, broken list, detail)."""
    broken = []
    detail = []
    rc, o = lake_build(prop.PROOF_MODULES)
    if rc != 0:
        errs = [l for l in o.splitlines() if "error" in l][:20]
        broken.append("proof modules %s do not build" % ",".join(prop.PROOF_MODULES))
        detail.append(o[-4000:])
        return len(prop.THEOREMS), 0, broken + errs, "\n".join(detail)
    af = os.path.join(BUILD, "audit_%s.lean" % prop.ID)
    with open(af, "w") as f:
        for m in prop.PROOF_MODULES:
            f.write("import %s\n" % m)
        for t in prop.THEOREMS:
            f.write("#print axioms %s\n" % t)
    rc, o = sh(["lake", "env", "lean", af], cwd=LEAN)
    ax = {}
    for m in re.finditer(r"'([^']+)' depends on axioms: \[([^\]]*)\]", o.replace("\n", " ")):
        ax[m.group(1)] = {a.strip() for a in m.group(2).split(",") if a.strip()}
    for m in re.finditer(r"'([^']+)' does not depend on any axioms", o):
        ax[m.group(1)] = set()
    discharged = 0
    for t in prop.THEOREMS:
        if t not in ax:
            broken.append("theorem %s not found by #print axioms" % t)
        elif not ax[t] <= ALLOWED_AXIOMS:
            broken.append("theorem %s depends on axioms %s" % (t, sorted(ax[t] - ALLOWED_AXIOMS)))
        else:
            discharged += 1
    seen = {}
    for m in prop.PROOF_MODULES:
        local_imports(m, seen)
    for mod, path in seen.items():
        hit = FORBIDDEN.search(strip_comments(open(path).read()))
        if hit:
            broken.append("forbidden token %r in %s" % (hit.group(0), mod))
    if rc != 0 and not ax:
        broken.append("axiom audit failed to run")
        detail.append(o[-2000:])
    return len(prop.THEOREMS), discharged if not broken else min(discharged, len(prop.THEOREMS) - 1), broken, "\n".join(detail)


def build_model_exe():
    gen_main()
    rc, o = lake_build(["grpcmodel"])
    if rc != 0:
        raise Broken("Lean model driver does not build", o[-4000:])
    return os.path.join(LEAN, ".lake", "build", "bin", "grpcmodel")


def overlay_file():
    """Export shims live in /verif/harness/shims/<pkg path>/<name>.go and are injected into the
    corresponding /repo package as zz_verif_<name>.go with `go build -overlay` (nothing is
    written under /repo)."""
    rep = {}
    base = os.path.join(HARNESS, "shims")
    for d, _, files in os.walk(base):
        for fn in files:
            if fn.endswith(".go"):
                rel = os.path.relpath(d, base)
                rep[os.path.join(REPO, rel, "zz_verif_" + fn)] = os.path.join(d, fn)
    rep.update(instrumented())
    p = os.path.join(BUILD, "overlay.json")
    with open(p, "w") as f:
        json.dump({"Replace": rep}, f, indent=1, sort_keys=True)
    return p


INSTR_FAILED = {}


def instrumented():
    """Tie T3: tools/instr/<name>.json = {"file": rel path, "mutex": "a,b"}; the file is replaced
    (overlay only) by a copy regenerated from the CURRENT source with yield points before every
    atomic access / lock acquisition (tools/instrument). If the instrumenter cannot handle the
    current source the original file is used and the failure is recorded in INSTR_FAILED (the
    properties that rely on it then report a broken tie)."""
    d = os.path.join(ROOT, "tools", "instr")
    rep = {}
    if not os.path.isdir(d):
        return rep
    tool = os.path.join(BUILD, "instrument")
    src = os.path.join(ROOT, "tools", "instrument")
    if (not os.path.exists(tool)) or os.path.getmtime(tool) < os.path.getmtime(os.path.join(src, "main.go")):
        rc, o = sh([GO, "build", "-o", tool, "."], cwd=src, env=GOENV)
        if rc != 0:
            raise Broken("tools/instrument does not build", o)
    os.makedirs(os.path.join(BUILD, "instr"), exist_ok=True)
    for fn in sorted(os.listdir(d)):
        if not fn.endswith(".json"):
            continue
        spec = json.load(open(os.path.join(d, fn)))
        out = os.path.join(BUILD, "instr", fn[:-5] + ".go")
        rc, o = sh([tool, "-in", os.path.join(REPO, spec["file"]), "-out", out, "-mutex", spec.get("mutex", ""), "-fields", spec.get("fields", "")])
        if rc != 0:
            INSTR_FAILED[fn[:-5]] = o.strip()
            continue
        rep[os.path.join(REPO, spec["file"])] = out
    return rep


def modfile():
    """harness/go.mod replaces google.golang.org/grpc by /repo; for another tree (VERIF_REPO) a
    temporary modfile with that path is used."""
    src = os.path.join(HARNESS, "go.mod")
    if REPO == "/repo":
        # keep go.sum in step with /repo's (harness has no deps of its own beyond grpc's)
        return []
    txt = open(src).read().replace("=> /repo", "=> " + REPO)
    p = os.path.join(BUILD, "alt.mod")
    open(p, "w").write(txt)
    sumsrc = os.path.join(HARNESS, "go.sum")
    open(os.path.join(BUILD, "alt.sum"), "w").write(open(sumsrc).read())
    return ["-modfile=" + p]


def build_impl(need_synct=False):
    """cmd/impl (T1 components) and, when a property uses `s_*` components, the synctest test
    binary harness/synct (T2 components). Both are rebuilt from REPO's working tree."""
    ov = overlay_file()
    out = os.path.join(BUILD, "impl")
    rc, o = sh([GO, "build"] + modfile() + ["-tags", "verif", "-overlay", ov, "-o", out, "./cmd/impl"],
               cwd=HARNESS, env=GOENV, timeout=1800)
    if rc != 0:
        raise Broken("Go harness does not build against the current tree (an export shim or a driven API no longer matches the code)", o[-4000:])
    if need_synct:
        rc, o = sh([GO, "test"] + modfile() + ["-c", "-tags", "verif", "-overlay", ov, "-o", os.path.join(BUILD, "synct"), "./synct"],
                   cwd=HARNESS, env=GOENV, timeout=1800)
        if rc != 0:
            raise Broken("Go synctest harness does not build against the current tree", o[-4000:])
    return out


def impl_cmd(impl, component):
    if component.startswith("s_"):
        return [os.path.join(BUILD, "synct"), "-test.run", "^TestImpl$", "-test.timeout", "0", "-comp", component]
    return [impl, component]


# ----------------------------------------------------------------------------- running

FLAKES = []   # batch crashes that did not repeat in isolation (reported in the evidence file)


def run_lines(cmd, text, timeout):
    try:
        p = subprocess.run(cmd, input=text, stdout=subprocess.PIPE, stderr=subprocess.PIPE, text=True,
                           timeout=timeout, env=dict(os.environ, GOMEMLIMIT="8GiB", GOTRACEBACK="single"))
        return p.returncode, p.stdout.split("\n")[:-1] if p.stdout.endswith("\n") else p.stdout.split("\n"), p.stderr
    except subprocess.TimeoutExpired as e:
        out = e.stdout or ""
        if isinstance(out, bytes):
            out = out.decode(errors="replace")
        lines = out.split("\n")
        return -9, lines[:-1], "TIMEOUT"


def run_impl(impl, component, cases, timeout=600):
    """Returns per-case list of output lines. A crash of the process (fatal error, os.Exit,
    hang) is attributed to the case it happened in: that case gets the lines printed so far
    plus `CRASH <reason>`, and the remaining cases are re-run in a fresh process."""
    results = [None] * len(cases)
    todo = list(range(len(cases)))
    while todo:
        text = "".join("reset\n" + "".join(op + "\n" for op in cases[i].ops) for i in todo)
        rc, lines, err = run_lines(impl_cmd(impl, component), text, timeout)
        pos = 0
        done = []
        crashed = False
        for i in todo:
            n = len(cases[i].ops) + 1
            chunk = lines[pos:pos + n]
            if len(chunk) == n and chunk[0] == "reset":
                results[i] = chunk[1:]
                pos += n
                done.append(i)
            else:
                reason = "TIMEOUT" if err == "TIMEOUT" else ("exit %s: %s" % (rc, " ".join(err.split())[-300:]))
                # re-run the crashed case alone once: a process that died or hung for a reason outside the case
                # (machine overload, a neighbour's goroutine) does not repeat; a crash the case causes does.
                text1 = "reset\n" + "".join(op + "\n" for op in cases[i].ops)
                rc1, lines1, err1 = run_lines(impl_cmd(impl, component), text1, min(timeout, 300))
                # (a `go test` binary prints PASS/ok lines after the case's own output)
                if rc1 == 0 and len(lines1) >= n and lines1[0] == "reset" and not any(l.startswith("CRASH") for l in lines1[:n]):
                    log("[flake] %s: case crashed (%s) in a batch but completes alone; using the isolated run" % (component, reason[:80]))
                    FLAKES.append("%s: %s" % (component, reason[:120]))
                    results[i] = lines1[1:n]
                    done.append(i)
                    crashed = True
                    break
                got = chunk[1:] if chunk and chunk[0] == "reset" else []
                got = got + ["CRASH " + reason] + ["-"] * (len(cases[i].ops) - len(got) - 1)
                results[i] = got[:len(cases[i].ops)]
                done.append(i)
                crashed = True
                break
        todo = [i for i in todo if i not in set(done)]
        if not crashed and todo:
            raise Broken("harness output desynchronised", "\n".join(lines[-5:]))
    return results


def run_model(exe, component, cases, impl_out, timeout=600):
    text = "".join("reset\n" + "".join("%s\t%s\n" % (op, o) for op, o in zip(c.ops, outs))
                   for c, outs in zip(cases, impl_out))
    rc, lines, err = run_lines([exe, component], text, timeout)
    res = []
    pos = 0
    for c in cases:
        n = len(c.ops) + 1
        chunk = lines[pos:pos + n]
        if len(chunk) != n:
            raise Broken("Lean model driver died or desynchronised on component %s" % component, (err or "")[-2000:])
        pos += n
        pairs = []
        for l in chunk[1:]:
            a, _, b = l.partition("\t")
            pairs.append((a, b or "-"))
        res.append(pairs)
    return res


class Finding:
    def __init__(self, kind, case, line, op, impl, model, verdict):
        self.kind = kind          # "monitor" (property predicate false on the implementation) | "diverge"
        self.case = case
        self.line = line
        self.op = op
        self.impl = impl
        self.model = model
        self.verdict = verdict

    def summary(self):
        if self.kind == "monitor":
            return "%s: `%s` -> impl `%s`: %s" % (self.case.component, self.op, self.impl, self.verdict)
        return "%s: `%s`: impl `%s` but model `%s`" % (self.case.component, self.op, self.impl, self.model)


def judge(case, impl_lines, model_pairs, limit=25):
    """All monitor violations of the case (so that one that matches a known finding cannot mask a
    different one later in the same case; capped), followed by the first divergence if any."""
    out = []
    div = None
    for k, (op, io, (mo, v)) in enumerate(zip(case.ops, impl_lines, model_pairs)):
        if v.startswith("VIOL"):
            if len(out) < limit:
                out.append(Finding("monitor", case, k, op, io, mo, v))
        elif io.startswith("PANIC") or io.startswith("CRASH"):
            if len(out) < limit:
                out.append(Finding("monitor", case, k, op, io, mo, "VIOL implementation " + io[:200]))
        if div is None and mo != "*" and mo != io:
            div = Finding("diverge", case, k, op, io, mo, v)
    if div is not None:
        out.append(div)
    return out


def evaluate(impl, exe, cases):
    """Run all cases through implementation and model. Returns (findings, impl_outputs)."""
    by = {}
    for idx, c in enumerate(cases):
        by.setdefault(c.component, []).append(idx)
    findings = []
    impl_all = [None] * len(cases)
    for comp, idxs in by.items():
        cs = [cases[i] for i in idxs]
        io = run_impl(impl, comp, cs)
        mo = run_model(exe, comp, cs, io)
        for i, c, a, b in zip(idxs, cs, io, mo):
            impl_all[i] = a
            findings.extend(judge(c, a, b))
    return findings, impl_all


def shrink(impl, exe, f, budget=40, pid=None, known=()):
    """Delta-debugging on the op list of the failing case: cut after the failing op, try the
    failing op alone, then remove chunks of halving size (all candidates of a round run in
    one batch through implementation and model)."""
    comp, tag = f.case.component, f.case.tag

    def same(x):
        # same kind of finding, and (for monitor violations) not one of the listed known findings
        if x.kind != f.kind:
            return False
        return not (pid and x.kind == "monitor" and match_known(pid, x, known))

    def first_fail(cands):
        fs, _ = evaluate(impl, exe, cands)
        fs = [x for x in fs if same(x)]
        if not fs:
            return None
        nb = min(fs, key=lambda x: len(x.case.ops[:x.line + 1]))
        nb.case = Case(comp, nb.case.ops[:nb.line + 1], tag)
        nb.line = len(nb.case.ops) - 1
        return nb

    try:
        best = first_fail([Case(comp, f.case.ops[:f.line + 1], tag)])
        if best is None:
            return f
        alone = first_fail([Case(comp, [best.op], tag)])
        if alone is not None:
            return alone
        chunk = max(1, (len(best.case.ops) - 1) // 2)
        rounds = 0
        while rounds < budget:
            rounds += 1
            ops = best.case.ops
            n = len(ops) - 1          # the last op is the failing one and is kept
            if n <= 0:
                break
            chunk = min(chunk, n)
            cands = [Case(comp, ops[:s] + ops[s + chunk:], tag) for s in range(0, n, chunk)][:300]
            nb = first_fail(cands)
            if nb is not None and len(nb.case.ops) < len(ops):
                best = nb
                continue
            if chunk == 1:
                break
            chunk = max(1, chunk // 2)
        return best
    except Broken:
        return f


# ----------------------------------------------------------------------------- known findings

def load_known():
    """known_findings/<ID>.jsonl (committed, never written at run time), one JSON object per line:
    {"property","id","kind":"known"|"fixed","component","op_re","verdict_re","impl_re"?,"what", ...}"""
    d = os.path.join(ROOT, "known_findings")
    out = []
    if os.path.isdir(d):
        for fn in sorted(os.listdir(d)):
            if fn.endswith(".jsonl"):
                for l in open(os.path.join(d, fn)):
                    l = l.strip()
                    if l and not l.startswith("#"):
                        out.append(json.loads(l))
    return out


def match_known(pid, f, known):
    """A finding is a listed known finding only if property, component, the failing op and the
    verdict all match the entry's patterns (entries of kind `fixed` suppress nothing)."""
    for k in known:
        if k.get("kind", "known") != "known" or k["property"] != pid:
            continue
        if k.get("component") and k["component"] != f.case.component:
            continue
        if not re.search(k["op_re"], f.op):
            continue
        if k.get("verdict_re") and not re.search(k["verdict_re"], f.verdict):
            continue
        if k.get("impl_re") and not re.search(k["impl_re"], f.impl):
            continue
        if f.kind != k.get("finding_kind", "monitor"):
            continue
        return k
    return None


# ----------------------------------------------------------------------------- main entry

def write_replay(pid, payload):
    d = os.path.join(ROOT, "replay", pid)
    os.makedirs(d, exist_ok=True)
    n = 0
    while os.path.exists(os.path.join(d, "%d.json" % n)):
        n += 1
    p = os.path.join(d, "%d.json" % n)
    with open(p, "w") as f:
        json.dump(payload, f, indent=1)
    return p


def replay(pid, path):
    prop = load_prop(pid)
    data = json.load(open(path))
    with Lock():
        run_t4(prop.T4)
        exe = build_model_exe()
        impl = build_impl(data["component"].startswith("s_"))
    case = Case(data["component"], data["ops"], data.get("tag", ""))
    io = run_impl(impl, case.component, [case])[0]
    mo = run_model(exe, case.component, [case], [io])[0]
    for op, a, (m, v) in zip(case.ops, io, mo):
        print("%-50s impl=%s | model=%s | %s" % (op, a, m, v))
    fs = judge(case, io, mo)
    known = load_known()
    fs = [f for f in fs if not (f.kind == "monitor" and match_known(pid, f, known))]
    if fs:
        f = fs[0]
        print("VIOLATION property=%s replay=%s%s" % (pid, path, "" if f.kind == "monitor" else " no-failing-input-found"))
        return 1
    print("replay: property holds on this case")
    return 0


def check(pid, tier, seed):
    t0 = time.time()
    prop = load_prop(pid)
    known = load_known()
    rng = random.Random(seed * 1000003 + int(hashlib.sha1(pid.encode()).hexdigest()[:8], 16))
    broken = []          # proof obligations / ties that no longer check
    detail = []
    obligations = len(prop.THEOREMS) + 1   # + the correspondence itself
    discharged = 0
    exe = impl = None
    with Lock():
        try:
            run_t4(prop.T4)
        except Broken as b:
            broken.append(b.what); detail.append(b.detail)
        try:
            exe = build_model_exe()
        except Broken as b:
            broken.append(b.what); detail.append(b.detail)
        n, d, br, det = audit(prop)
        discharged += d
        broken += br
        if det:
            detail.append(det)
        if tier == "thorough" and not br:
            for m in prop.PROOF_MODULES:
                rc, o = sh(["lake", "env", "leanchecker", m], cwd=LEAN, timeout=3600)
                if rc != 0:
                    broken.append("leanchecker rejects " + m); detail.append(o[-2000:])
        try:
            impl = build_impl(any(c.startswith("s_") for c in prop.COMPONENTS))
        except Broken as b:
            broken.append(b.what); detail.append(b.detail)

    findings = []
    cases = []
    impl_out = []
    searched = 0
    if exe and impl:
        cases = list(prop.gen(rng, tier))
        try:
            findings, impl_out = evaluate(impl, exe, cases)
        except Broken as b:
            broken.append(b.what); detail.append(b.detail)
        mon = [f for f in findings if f.kind == "monitor"]
        div = [f for f in findings if f.kind == "diverge"]
        if (broken or div) and not [f for f in mon if not match_known(pid, f, known)]:
            # something no longer checks: search wider for a concrete failing input
            log("[%s] obligation/tie broken (%d) or divergence (%d): searching for a failing input" % (pid, len(broken), len(div)))
            extra = list(prop.gen(random.Random(seed + 7919), "search"))
            searched = len(extra)
            try:
                f2, _ = evaluate(impl, exe, extra)
                findings += f2
            except Broken as b:
                broken.append(b.what); detail.append(b.detail)

    mon = [f for f in findings if f.kind == "monitor"]
    div = [f for f in findings if f.kind == "diverge"]
    if not div and exe and impl and not [b for b in broken if "desynchron" in b or "died" in b]:
        discharged += 1   # the correspondence obligation
    known_hits = {}
    new_mon = []
    fired = {}     # id(case) -> known entries that already fired in that case
    for f in mon:  # findings of one case arrive in op order
        k = match_known(pid, f, known)
        if not k:
            # a persistent-state consequence of a known finding that fired EARLIER IN THE SAME CASE:
            # same verdict text pattern, later op (a different verdict is still reported as new)
            for kk in fired.get(id(f.case), []):
                if (kk.get("verdict_re") and re.search(kk["verdict_re"], f.verdict)) or \
                        (kk.get("consequence_verdict_re") and re.search(kk["consequence_verdict_re"], f.verdict)):
                    k = kk
                    break
        if k:
            known_hits.setdefault(k["id"], (k, f))
            fired.setdefault(id(f.case), []).append(k)
        else:
            new_mon.append(f)

    rc = 0
    lines = []
    for kid, (k, f) in sorted(known_hits.items()):
        lines.append("KNOWN-FINDING: property=%s %s: %s [e.g. %s]" % (pid, kid, k["what"], f.summary()))
    violations = 0
    if new_mon:
        f = shrink(impl, exe, new_mon[0], pid=pid, known=known)
        p = write_replay(pid, {"property": pid, "kind": "failing-input", "component": f.case.component,
                               "ops": f.case.ops, "failing_op": f.op, "impl": f.impl, "model": f.model,
                               "verdict": f.verdict, "seed": seed, "tier": tier,
                               "broken_obligations": broken, "other_violations": len(new_mon) - 1})
        lines.append("VIOLATION property=%s replay=%s" % (pid, os.path.relpath(p, ROOT)))
        violations = len(new_mon)
        rc = 1
    elif div or broken:
        payload = {"property": pid, "kind": "no-failing-input-found", "seed": seed, "tier": tier,
                   "broken_obligations": broken, "detail": [x[-3000:] for x in detail],
                   "searched_cases": searched + len(cases)}
        if div:
            f = shrink(impl, exe, div[0])
            payload.update({"correspondence": "model and implementation differ", "component": f.case.component,
                            "ops": f.case.ops, "failing_op": f.op, "impl": f.impl, "model": f.model})
        else:
            payload.update({"component": "", "ops": []})
        p = write_replay(pid, payload)
        lines.append("VIOLATION property=%s replay=%s no-failing-input-found" % (pid, os.path.relpath(p, ROOT)))
        violations = max(1, len(div))
        rc = 1

    # ---- evidence
    nontriv = getattr(prop, "nontrivial", None)
    keys = set()
    hist_ops = {}
    hist_out = {}
    for c, io in zip(cases, impl_out or [[] for _ in cases]):
        for op, o in zip(c.ops, io or []):
            k = c.component + ":" + op.split(" ")[0]
            hist_ops[k] = hist_ops.get(k, 0) + 1
            ok = (o.split(" ") or [""])[0][:24]
            hist_out[ok] = hist_out.get(ok, 0) + 1
        if nontriv:
            try:
                if not nontriv(c, io or []):
                    continue
            except Exception:
                continue
        elif not c.ops:
            continue
        keys.add(c.key())
    if getattr(prop, "UNIT", "case") == "op":
        # stateless component: the unit of exploration is the single op, not the batch it travelled in
        nt_op = getattr(prop, "nontrivial_op", lambda op, out: True)
        keys = set()
        for c, io in zip(cases, impl_out or [[] for _ in cases]):
            for op, o in zip(c.ops, io or []):
                if nt_op(op, o):
                    keys.add(c.component + " " + op)
    samples = [c.to_json() for c in cases[:2]]
    for s, c in zip(samples, cases[:2]):
        s["ops"] = s["ops"][:12]
        idx = cases.index(c)
        if impl_out and impl_out[idx]:
            s["impl_outputs"] = impl_out[idx][:12]
    top = dict(sorted(hist_out.items(), key=lambda kv: -kv[1])[:25])
    ev = {
        "property_id": pid, "tier": "thorough" if tier == "thorough" else "quick", "seed": seed, "level": "proof",
        "coverage": {
            "obligations": obligations, "discharged": discharged,
            "checker_cmd": "cd lean && lake build %s && lake env lean .build/audit_%s.lean  (#print axioms of every property theorem)%s" % (
                " ".join(prop.PROOF_MODULES), pid, " && lake env leanchecker <module>" if tier == "thorough" else ""),
            "trusted_base": ["Lean 4.33.0 kernel", "axioms: propext, Classical.choice, Quot.sound (audited per theorem on this run)",
                             "hand-written Lean model tied to the Go code by the differential correspondence run below",
                             "tools/extract (T4 constants/tables)", "vlib/core.py (diff, shrink)"] + list(getattr(prop, "TRUSTED", [])),
            "theorems": prop.THEOREMS,
            "broken_obligations": broken,
            "evaluations": sum(len(c.ops) for c in cases),
            "cases": len(cases),
            "distinct_nontrivial": len(keys),
            "traces_validated_against_impl": len(cases) if not div else len(cases) - len(div),
            "rule": getattr(prop, "RULE", "every generated case is run through the real Go code and the Lean model; outputs diffed line by line and the property monitor evaluated on the implementation's outputs"),
            "op_histogram": hist_ops, "impl_output_histogram": top,
            "search_cases": searched,
            "samples": samples or [{"note": "no cases ran", "broken": broken}],
            "known_findings_hit": sorted(known_hits),
            "gap": getattr(prop, "GAP", ""),
            "batch_crashes_not_repeated_in_isolation": list(FLAKES),
        },
        "assumptions": list(getattr(prop, "ASSUMPTIONS", [])),
        "wall_s": round(time.time() - t0, 2),
        "violations": violations,
    }
    # runs against another tree (tools/run_seeded.py sets VERIF_EVIDENCE_DIR) must not overwrite the evidence of /repo
    evdir = os.environ.get("VERIF_EVIDENCE_DIR") or os.path.join(ROOT, "evidence")
    os.makedirs(evdir, exist_ok=True)
    with open(os.path.join(evdir, pid + ".json"), "w") as f:
        json.dump(ev, f, indent=1)
    for l in lines:
        print(l)
    print("[%s] tier=%s seed=%d cases=%d ops=%d theorems=%d/%d divergences=%d monitor_violations=%d known=%d wall=%.1fs -> %s" % (
        pid, tier, seed, len(cases), ev["coverage"]["evaluations"], discharged, obligations, len(div), len(new_mon),
        len(known_hits), time.time() - t0, "OK" if rc == 0 else "VIOLATION"))
    return rc
