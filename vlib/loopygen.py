"""Case generator shared by C01, C02, C03 (components loopy / loopyord / loopylive: the real loopy writer driven
one control item / one processData() call per op; op syntax in harness/cmd/impl/c_loopy.go).

Histories are built by a seeded random walk over the control items of controlbuf.go with a light-weight picture of
which streams exist, so that most ops hit live streams; a share of every case is deliberately "undisciplined"
(items for unknown / finished streams, data after END_STREAM, double cleanup, ...) when `wild` is set.
Stream ids are always fresh (a registration of a currently established id is outside the model, see Model/Loopy.lean).
"""
from vlib.core import Case

MSG = [0, 1, 5, 100, 1000, 16379, 16380, 16384, 16385, 32768, 65530, 65535, 65536, 70000]
INC = [0, 1, 5, 100, 16384, 65535, 1 << 20, 2**31 - 1, 2**32 - 1]
IWS = [0, 1, 5, 100, 16383, 16384, 16385, 65535, 65536, 1 << 20, 2**31 - 1, 2**32 - 1]
# header field specs `k.n`: k=0 :status, k=1 content-type, other k: "x-h<k>" with an n-byte value (Huffman-coded by HPACK)
BIGHDR = [16000, 20000, 22000, 26000, 40000, 70000]


class Walk:
    def __init__(self, rng, server, profile, wild, run=False):
        self.run_mode = run     # T2 component s_loopyrun: no tick/unk ops, header fields restricted to `:status: 200`
        self.r = rng
        self.server = server
        self.p = profile
        self.wild = wild
        self.ops = ["side " + ("s" if server else "c")]
        self.next_id = 1
        self.live = []      # ids we believe are established (may be stale)
        self.ended = set()  # client: END_STREAM data item written; server: trailers queued
        self.dead = []      # ids cleaned up / finished

    def fields(self, big_ok=True):
        r = self.r
        if self.run_mode:
            return ",".join(["0.0"] * r.choice([0, 1, 1, 2, 3])) or "-"
        n = r.choice([0, 1, 2, 2, 3, 5])
        fs = []
        if self.server and r.random() < 0.7:
            fs.append("0.0")
        if r.random() < 0.5:
            fs.append("1.0")
        for _ in range(n):
            k = r.randrange(2, 12)
            v = r.choice([0, 1, 3, 10, 40, 200])
            fs.append("%d.%d" % (k, v))
        if big_ok and r.random() < self.p.get("bighdr", 0.04):
            if r.random() < 0.5:
                # "x-h3" with n 'd's: the HPACK block is 16384 / 32768 bytes long for n around 21834 / 43682 (calibrated)
                fs = ["3.%d" % (r.choice([21828, 43676]) + r.randrange(0, 14))]
            else:
                fs.append("%d.%d" % (r.randrange(2, 30), r.choice(BIGHDR) + r.randrange(0, 3)))
        return ",".join(fs) or "-"

    def new_stream(self):
        i = self.next_id
        self.next_id += 2
        if self.server:
            self.ops.append("reg %d" % i)
            if self.r.random() < 0.6:
                self.ops.append("sh %d 0 %s 0 0" % (i, self.fields()))
        else:
            self.ops.append("ch %d %s 0" % (i, self.fields()))
        self.live.append(i)
        return i

    def some_id(self):
        r = self.r
        if self.wild and r.random() < 0.08:
            pool = self.dead + [self.next_id, self.next_id + 2]
            return r.choice(pool)
        if self.live:
            return r.choice(self.live)
        return self.new_stream()

    def msg(self):
        r = self.r
        x = r.random()
        if x < self.p.get("huge", 0.01):
            return 1 << 20
        if x < 0.5:
            return r.choice(MSG)
        if x < 0.8:
            return r.randrange(0, 300)
        return r.randrange(0, 40000)

    def data(self, i=None, last=False):
        r = self.r
        i = self.some_id() if i is None else i
        if (not self.wild) and i in self.ended:
            return
        if (not self.server) and (last or r.random() < 0.25):
            # client half close: usually an empty frame with END_STREAM, sometimes a last message carrying it
            if r.random() < 0.6:
                self.ops.append("data %d 0 0 1 0" % i)
            else:
                d = self.msg()
                self.ops.append("data %d 5 %d 1 %d" % (i, d, r.choice([1, 1, 2, 3]) if d else r.choice([0, 1])))
            self.ended.add(i)
            return
        d = self.msg()
        h = 5 if r.random() < 0.9 else r.choice([0, 1, 5, 9])
        nch = r.choice([1, 1, 1, 2, 3, 5]) if d else r.choice([0, 0, 1, 2])
        self.ops.append("data %d %d %d 0 %d" % (i, h, d, nch))

    def ticks(self, n=None):
        if self.run_mode:
            return
        n = self.r.choice([1, 1, 2, 3, 5, 8]) if n is None else n
        self.ops += ["tick"] * n

    def wu(self):
        r = self.r
        if r.random() < 0.4:
            i = 0
        else:
            i = self.some_id()
        x = r.random()
        if x < self.p.get("hugeinc", 0.1):
            inc = r.choice(INC)
        elif x < 0.6:
            inc = r.randrange(0, 200)
        else:
            inc = r.randrange(0, 70000)
        self.ops.append("wu %d %d" % (i, inc))

    def settings(self):
        r = self.r
        ents = []
        for _ in range(r.choice([1, 1, 1, 2, 3])):
            x = r.random()
            if x < 0.75:
                v = r.choice(IWS) if r.random() < 0.5 else r.randrange(0, self.p.get("iwsmax", 70000))
                ents.append("4=%d" % v)
            elif x < 0.9 and not self.run_mode:
                ents.append("1=%d" % r.choice([0, 100, 4096, 65536]))
            else:
                ents.append("%d=%d" % (r.choice([2, 3, 5, 6]), r.randrange(0, 100000)))
        self.ops.append("set " + ",".join(ents))

    def trailers(self):
        i = self.some_id()
        if (not self.wild) and i in self.ended:
            return
        self.ops.append("sh %d 1 %s %d %d" % (i, self.fields(), self.r.choice([0, 1]), self.r.choice([0, 8])))
        self.ended.add(i)
        if self.r.random() < 0.5 and i in self.live:
            # we do not know when it completes; keep it around sometimes to hit it with more ops
            self.live.remove(i)
            self.dead.append(i)

    def headers(self):
        """serverHeaders without endStream (response headers) for any stream some_id() yields: live ones, and in wild
        histories finished / cleaned-up / never registered ones (the writer must drop those)."""
        i = self.some_id()
        if self.wild and self.dead and self.r.random() < 0.3:
            i = self.r.choice(self.dead)
        self.ops.append("sh %d 0 %s 0 0" % (i, self.fields(big_ok=False)))

    def cleanup(self):
        i = self.some_id()
        self.ops.append("cl %d %d %d" % (i, self.r.choice([0, 1]), self.r.choice([0, 2, 8])))
        if i in self.live:
            self.live.remove(i)
            self.dead.append(i)

    def misc(self):
        r = self.r
        x = r.random()
        if x < 0.2:
            self.ops.append("ping %d %s" % (r.choice([0, 1]), r.choice(["0102030405060708", "0204101009 0e0707".replace(" ", "")])))
        elif x < 0.35:
            self.ops.append("owu %d %d" % (r.choice([0] + self.live), r.randrange(1, 100000)))
        elif x < 0.45:
            self.ops.append("oset 4=%d" % r.randrange(0, 100000))
        elif x < 0.55:
            self.ops.append("ofc")
        elif x < 0.7 and self.server:
            i = self.next_id
            self.next_id += 2
            self.ops.append("ea %d %d %s" % (i, r.choice([0, 1]), self.fields()))
        elif x < 0.76:
            if self.live or r.random() < 0.1:
                self.ops.append("iga")
        elif x < 0.9:
            self.ops.append("ga %d %d %d %d %d" % (r.choice([0, 1]), r.choice([0, 2]), r.choice([0, 1]), r.choice([0, 0, 1]),
                                                      1 if r.random() < 0.05 else 0))
        elif self.wild and len(self.ops) > 0.7 * self.n:
            self.ops.append(r.choice(["close", "close" if self.run_mode else "unk", "ea %d 1 -" % self.next_id]))

    def run(self, n):
        r = self.r
        self.n = n
        w = self.p["w"]
        kinds = list(w.keys())
        weights = [w[k] for k in kinds]
        for _ in range(r.randrange(1, self.p.get("streams0", 3) + 1)):
            self.new_stream()
        guard = 0
        while len(self.ops) < n and guard < 50 * n:
            guard += 1
            k = r.choices(kinds, weights)[0]
            if k == "new":
                if len(self.live) < self.p.get("maxlive", 6):
                    self.new_stream()
            elif k == "data":
                self.data()
            elif k == "tick":
                self.ticks()
            elif k == "wu":
                self.wu()
            elif k == "set":
                self.settings()
            elif k == "trailers":
                if self.server or self.wild:
                    self.trailers()
            elif k == "cl":
                self.cleanup()
            elif k == "hdr":
                self.headers()
            elif k == "misc":
                self.misc()
        # drain phase: open the windows and let the writer run
        if r.random() < 0.8:
            self.ops.append("wu 0 %d" % r.choice([65535, 1 << 20, 1 << 24]))
            for i in list(self.live)[:4]:
                self.ops.append("wu %d %d" % (i, r.choice([100, 65535, 1 << 22])))
            if r.random() < 0.5:
                self.ops.append("set 4=%d" % r.choice([65535, 1 << 20]))
            self.ticks(r.choice([5, 20, 60]))
        return self.ops


PROFILES = {
    "mixed": {"w": {"new": 6, "data": 22, "tick": 30, "wu": 14, "set": 6, "trailers": 5, "cl": 4, "misc": 4}},
    "starved": {"w": {"new": 5, "data": 25, "tick": 35, "wu": 22, "set": 8, "trailers": 3, "cl": 2, "misc": 1},
                "iwsmax": 40, "streams0": 4, "hugeinc": 0.02},
    "settings": {"w": {"new": 4, "data": 20, "tick": 25, "wu": 10, "set": 30, "trailers": 3, "cl": 2, "misc": 1},
                 "streams0": 5},
    "trailers": {"w": {"new": 12, "data": 25, "tick": 25, "wu": 12, "set": 4, "trailers": 14, "cl": 6, "misc": 2},
                 "iwsmax": 2000, "bighdr": 0.12},
    "big": {"w": {"new": 4, "data": 25, "tick": 45, "wu": 15, "set": 3, "trailers": 3, "cl": 2, "misc": 1}, "huge": 0.15},
    "control": {"w": {"new": 8, "data": 12, "tick": 15, "wu": 8, "set": 8, "trailers": 6, "cl": 10, "misc": 30}},
}


for _p in PROFILES.values():
    _p["w"].setdefault("hdr", 3)


def after_close_cases(component):
    """Directed family: every kind of item addressed to a stream AFTER every way that stream can have ended in the writer
    (cleanupStream with / without RST_STREAM, trailers written at once, trailers written after queued data, client END_STREAM then
    cleanup), each followed by processData calls. Whatever arrives for a finished stream must not produce a frame for it."""
    late = ["sh %d 0 0.0,1.0 0 0", "sh %d 0 - 0 0", "sh %d 1 0.0 0 0", "sh %d 1 5.5 1 8", "data %d 5 100 0 1", "data %d 0 0 1 0", "wu %d 1000",
            "cl %d 0 0"]
    ends_s = [("cl-rst", ["cl %d 1 8"]), ("cl-norst", ["cl %d 0 0"]), ("trailers-now", ["sh %d 1 0.0 1 0"]), ("trailers-norst", ["sh %d 1 - 0 0"]),
              ("trailers-queued", ["data %d 5 50 0 1", "sh %d 1 0.0 1 0", "tick", "tick"]),
              ("trailers-starved-then-reset", ["set 4=3", "data %d 5 50 0 1", "tick", "sh %d 1 0.0 0 0", "cl %d 1 2", "set 4=65535"])]
    ends_c = [("cl-rst", ["cl %d 1 8"]), ("cl-norst", ["cl %d 0 0"]), ("endstream-cl", ["data %d 5 10 1 1", "tick", "cl %d 0 0"]),
              ("pending-data-cl", ["data %d 5 70000 0 2", "tick", "cl %d 1 8"])]
    out = []
    for side, opener, ends in (("s", "reg %d", ends_s), ("c", "ch %d 1.0 0", ends_c)):
        for tag, end in ends:
            ops = ["side " + side]
            i = 1
            for l in late:
                # a bystander stream with pending data shows that the writer keeps working for the others
                ops += [opener % i, opener % (i + 2), "data %d 5 20 0 1" % (i + 2)]
                if side == "s":
                    ops.append("sh %d 0 0.0 0 0" % i)
                ops += [(e % i) if "%d" in e else e for e in end]
                ops += [l % i, "tick", "tick", "wu %d 10" % i, "tick"]
                i += 4
            out.append(Case(component, ops, "after-close-%s-%s" % (side, tag)))
    return out


def fixed_cases(component):
    """Hand-written corner cases (boundaries of the frame split, window exactly exhausted, wrap-around of sendQuota,
    settings lowering the window below what is in flight, trailers behind starved data, GOAWAY draining)."""
    cs = []
    cs.append(("frame-boundaries", ["side s", "reg 1", "wu 0 1000000", "set 4=1000000"] +
               sum([["data 1 5 %d 0 2" % d, "tick", "tick", "tick"] for d in (16378, 16379, 16380, 32763, 32764, 0)], []) +
               ["data 1 0 16384 0 1", "tick", "tick", "data 1 0 0 0 0", "tick", "data 1 9 1 0 1", "tick"]))
    cs.append(("conn-window-exact", ["side c", "ch 1 1.0,5.10 0", "ch 3 - 0", "data 1 5 65530 0 3", "data 3 5 10 0 1"] + ["tick"] * 8 +
               ["wu 0 1", "tick", "tick", "wu 0 14", "tick", "tick", "data 1 0 0 1 0", "tick", "tick"]))
    cs.append(("sendquota-wrap", ["side c", "ch 1 - 0", "wu 0 4294967295", "data 1 5 100 0 1", "tick", "tick", "wu 0 4294901762",
                                  "tick", "wu 0 1", "tick", "wu 0 2", "tick", "tick", "ofc"]))
    cs.append(("settings-shrink-in-flight", ["side s", "reg 1", "reg 3", "data 1 5 30000 0 2", "data 3 5 30000 0 1", "tick", "set 4=100",
                                             "tick", "tick", "tick", "wu 1 16384", "tick", "wu 1 1", "tick", "tick", "set 4=16490", "tick",
                                             "tick", "tick", "set 4=0,4=70000", "tick", "tick", "tick", "tick"]))
    cs.append(("trailers-behind-starved-data", ["side s", "reg 1", "sh 1 0 0.0,1.0 0 0", "set 4=10", "data 1 5 20 0 1", "tick", "sh 1 1 5.5 1 0",
                                                "tick", "data 1 5 5 0 1", "wu 1 5", "tick", "tick", "wu 1 100", "tick", "tick", "tick",
                                                "data 1 5 5 0 1", "wu 1 10", "sh 1 1 - 0 0", "cl 1 1 8", "tick"]))
    cs.append(("goaway-drain", ["side c", "ch 1 - 0", "ch 3 - 0", "data 1 5 10 0 1", "iga", "ch 5 - 0", "tick", "cl 1 0 0", "tick", "cl 3 1 8", "tick"]))
    cs.append(("goaway-idle", ["side c", "iga", "tick"]))
    cs.append(("server-goaway", ["side s", "reg 1", "ga 1 0 0 0 0", "ga 0 0 0 1 0", "data 1 5 5 0 1", "tick", "sh 1 1 0.0 0 0", "tick"]))
    cs.append(("early-abort", ["side s", "ea 1 1 0.0,1.0", "ea 3 0 -", "reg 5", "data 5 5 5 0 1", "tick", "side c", "ea 1 0 -", "tick"]))
    cs.append(("init-error", ["side c", "ch 1 - 1", "tick", "data 1 5 5 0 1"]))
    cs.append(("unknown-and-close", ["side s", "reg 1", "unk", "reg 3", "side s", "reg 1", "close", "reg 3"]))
    cs.append(("big-headers", ["side s", "reg 1"] + ["sh 1 0 3.%d 0 0" % n for n in (16000, 18000, 18700, 18720, 18725, 18730, 40000, 0)] +
               ["set 1=0", "sh 1 0 3.5,3.5 0 0", "set 1=4096", "sh 1 0 3.5,3.5 0 0", "sh 1 1 4.70000 1 8"]))
    sweep = list(range(21830, 21840)) + list(range(43678, 43688))
    cs.append(("header-boundary-sweep-server", ["side s", "reg 1"] + ["sh 1 0 3.%d 0 0" % n for n in sweep] +
               sum([["reg %d" % (3 + 2 * k), "sh %d 1 3.%d 1 0" % (3 + 2 * k, n)] for k, n in enumerate(sweep)], []) +
               ["ea %d 1 3.%d" % (201 + 2 * k, n) for k, n in enumerate(sweep)]))
    cs.append(("header-boundary-sweep-client", ["side c"] + ["ch %d 3.%d 0" % (1 + 2 * k, n) for k, n in enumerate(sweep)]))
    cs.append(("header-boundary-trailers-queued", ["side s", "set 4=3"] +
               sum([["reg %d" % (1 + 2 * k), "data %d 5 0 0 0" % (1 + 2 * k), "tick", "sh %d 1 3.%d 0 0" % (1 + 2 * k, n),
                     "wu %d 10" % (1 + 2 * k), "tick", "tick"] for k, n in enumerate(sweep)], [])))
    cs.append(("zero-window-empty-endstream", ["side c", "ch 1 - 0", "set 4=0", "data 1 0 0 1 0", "tick", "tick", "ch 3 - 0", "data 3 5 0 0 0",
                                               "data 3 0 0 1 0", "tick", "tick", "set 4=5", "tick", "tick", "tick"]))
    cs.append(("round-robin", ["side s", "wu 0 1000000"] + ["reg %d" % i for i in (1, 3, 5, 7)] +
               ["data %d 5 40000 0 2" % i for i in (1, 3, 5, 7)] + ["tick"] * 14 + ["wu 3 100000", "wu 7 5"] + ["tick"] * 8))
    cs.append(("window-update-before-waiting", ["side s", "reg 1", "reg 3", "set 4=4", "data 1 5 5 0 1", "data 3 5 5 0 1", "tick", "wu 3 100",
                                                "tick", "tick", "wu 1 100", "tick", "tick", "data 1 5 200 0 2", "wu 1 1", "tick", "set 4=3", "wu 1 50",
                                                "tick", "set 4=60", "tick", "tick", "set 4=0", "data 3 5 5 0 1", "wu 3 1000", "tick", "tick"]))
    cs.append(("exhausted-exactly-then-credit", ["side c", "ch 1 - 0", "set 4=15", "data 1 5 10 0 1", "data 1 5 10 0 1", "tick", "tick", "wu 1 1", "tick",
                                                 "wu 1 14", "tick", "tick", "set 4=14", "data 1 0 0 1 0", "tick", "set 4=15", "tick", "tick"]))
    return [Case(component, ops, "fixed-" + tag) for tag, ops in cs]


def gen_cases(rng, tier, component, wild_share=0.35):
    n_cases = {"quick": 300, "thorough": 9000, "search": 4000}[tier]
    for c in fixed_cases(component):
        yield c
    for c in after_close_cases(component):
        yield c
    names = list(PROFILES)
    for k in range(n_cases):
        prof = names[k % len(names)]
        server = rng.random() < 0.55 if prof != "trailers" else rng.random() < 0.85
        wild = rng.random() < wild_share
        n = rng.choice([30, 60, 120, 250])
        if prof == "big":
            n = rng.choice([40, 80])
        ops = Walk(rng, server, PROFILES[prof], wild).run(n)
        yield Case(component, ops, "%s-%s-%s-%d" % (prof, "s" if server else "c", "wild" if wild else "disc", k))


def nontrivial(case, impl_lines):
    """A case counts when the real writer put at least one DATA frame on the wire and had to wait for a window at least once."""
    data = any(" F=D:" in l or ",D:" in l for l in impl_lines)
    if case.component == "s_srvord":
        # T2 server component: no state dump; non-trivial = the real server wrote DATA and trailers
        return data and any(":1:1:" in l.split(" WOK=")[0] and "H:" in l for l in impl_lines)
    waited = False
    for l in impl_lines:
        if " S=" in l:
            for st in l.split(" S=")[1].split(" ")[0].split(","):
                f = st.split(":")
                if len(f) > 1 and f[1] == "2":
                    waited = True
    return data and waited


def gen_run_cases(rng, tier, component="s_loopyrun"):
    """Cases for the T2 component: the real loopyWriter.run() goroutine consumes the items (no tick ops)."""
    n_cases = {"quick": 120, "thorough": 3000, "search": 1500}[tier]
    fixed = [
        ("run-basic", ["side s", "reg 1", "reg 3", "sh 1 0 0.0 0 0", "data 1 5 70000 0 3", "data 3 5 100 0 1", "wu 0 100000", "wu 1 100000",
                       "sh 1 1 0.0,0.0 1 0", "ofc", "data 3 5 40000 0 2", "set 4=10", "wu 3 5", "set 4=100000", "sh 3 1 - 0 0"]),
        ("run-client", ["side c", "ch 1 0.0 0", "ch 3 - 0", "data 1 5 65530 0 3", "data 3 5 10 0 1", "wu 0 1", "wu 0 14", "data 1 0 0 1 0",
                        "set 4=0", "data 3 5 5 0 1", "wu 3 3", "set 4=2", "set 4=1,4=70000", "iga", "ch 5 - 0", "cl 1 0 0", "cl 3 1 8"]),
        ("run-many", ["side s", "wu 0 1000000"] + ["reg %d" % i for i in (1, 3, 5, 7)] + ["set 4=7"] +
         ["data %d 5 40 0 2" % i for i in (1, 3, 5, 7)] + ["wu 3 100", "set 4=9", "set 4=1000", "sh 5 1 0.0 1 0", "cl 7 1 8", "set 4=0,4=5"]),
    ]
    for tag, ops in fixed:
        yield Case(component, ops, "fixed-" + tag)
    names = [n for n in PROFILES if n != "big"]
    for k in range(n_cases):
        prof = names[k % len(names)]
        server = rng.random() < 0.55
        wild = rng.random() < 0.3
        n = rng.choice([15, 30, 60])
        ops = Walk(rng, server, PROFILES[prof], wild, run=True).run(n)
        yield Case(component, ops, "run-%s-%s-%s-%d" % (prof, "s" if server else "c", "wild" if wild else "disc", k))


def gen_srv_cases(rng, tier, component="s_srvord"):
    """Cases for the T2 component s_srvord: a real http2Server over net.Pipe; ops are peer frames and handler calls."""
    n_cases = {"quick": 60, "thorough": 1500, "search": 600}[tier]
    fixed = [
        ("srv-basic", ["open 1 0 h", "write 1 100", "write 1 70000", "write 1 70000", "status 1 0", "pwu 1 100000", "pwu 0 200000", "pwu 1 100000",
                       "open 3 0 h", "status 3 5", "open 5 0 h", "pdata 5 0 1", "write 5 10", "status 5 0"]),
        ("srv-starved-trailers", ["pset 10", "open 1 0 h", "write 1 100", "status 1 0", "pwu 1 50", "pwu 1 50", "open 3 0 h", "write 3 100",
                                  "status 3 0", "prst 3 8", "pwu 3 1000", "pset 65535", "open 5 0 h", "write 5 20", "pset 0", "write 5 20",
                                  "status 5 0", "pset 100"]),
        # handlers that answer DeadlineExceeded when their context expires, racing with the transport's own deadline timer
        ("srv-deadline", ["open %d 100 d" % i for i in (1, 3, 5, 7, 9, 11)] + ["write 1 10", "write 3 10", "sleep 100", "sleep 1"]),
        ("srv-deadline-blocked", ["pset 5", "open 1 50 d", "write 1 100", "open 3 50 h", "write 3 100", "sleep 50", "sleep 1", "status 3 4", "pwu 3 1000"]),
    ]
    for tag, ops in fixed:
        yield Case(component, ops, "fixed-" + tag)
    for k in range(n_cases):
        r = rng
        ops = []
        nxt = 1
        live = []
        if r.random() < 0.5:
            ops.append("pset %d" % r.choice([0, 5, 100, 1000, 16384, 65535, 1 << 20]))
        for _ in range(r.choice([10, 20, 40])):
            x = r.random()
            if x < 0.15 or not live:
                to = r.choice([0, 0, 0, 20, 50])
                mode = "d" if (to and r.random() < 0.6) else "h"
                ops.append("open %d %d %s" % (nxt, to, mode))
                live.append(nxt)
                nxt += 2
            elif x < 0.45:
                ops.append("write %d %d" % (r.choice(live), r.choice([0, 1, 10, 100, 1000, 16379, 16384, 40000, 70000])))
            elif x < 0.55:
                i = r.choice(live)
                ops.append("status %d %d" % (i, r.choice([0, 2, 5])))
                if r.random() < 0.7:
                    live.remove(i)
            elif x < 0.75:
                ops.append("pwu %d %d" % (r.choice([0] + live), r.choice([1, 5, 100, 16384, 65535, 1 << 20])))
            elif x < 0.83:
                ops.append("pset %d" % r.choice([0, 5, 100, 1000, 65535, 1 << 20]))
            elif x < 0.88:
                i = r.choice(live)
                ops.append("prst %d 8" % i)
                live.remove(i)
            elif x < 0.93:
                ops.append("pdata %d %d %d" % (r.choice(live), r.choice([0, 10, 1000]), r.choice([0, 1])))
            else:
                ops.append("sleep %d" % r.choice([1, 20, 30, 50]))
        ops += ["pwu 0 %d" % (1 << 24), "pset %d" % (1 << 22), "sleep 60", "sleep 1"]
        yield Case(component, ops, "srv-%d" % k)
