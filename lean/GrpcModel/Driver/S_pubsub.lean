import GrpcModel.Driver.Loop
import GrpcModel.Model.PubSub
/-! component `s_pubsub` (C31, tie T2 on the real `grpcsync.PubSub`, op language in
`harness/synct/c_pubsub_test.go`).

Each op is a big step to quiescence. The implementation reports the linearization order `ord` of
the op's API calls (exact, see the harness) and the per-subscriber deliveries; the driver replays
`ord` on the small-step model `PubSub.step`. The one race it cannot see directly — how many queued
deliveries to `s` ran before a concurrent `unsub s` took `ps.mu` — is read off the implementation's
delivery count for `s`: the model's run goroutine is driven until it has made that many deliveries
to `s` (or cannot), then `unsubscribe s` is applied. What the model then observed is printed in the
same format; any difference is a divergence.

`block`/`unblock` park the PubSub's serializer behind a gate callback `(0, k)` scheduled directly
on `ps.cs` (subscriber ids start at 1, so the model treats it as a callback for nobody).

Verdict: the trace monitor `PubSub.Mon` (theorem `pubsub_subscriber_sees_latest_then_publish_order`)
fed with the IMPLEMENTATION's events in an order consistent with what really happened (API calls in
`ord` order; the op's deliveries to `s` before its `unsub s`, all others at the end of the op), then
`Mon.quiescent` (theorem `pubsub_all_owed_delivered_when_idle`) unless the serializer is parked.
-/
namespace GrpcModel.Driver.S_pubsub
open GrpcModel GrpcModel.Driver GrpcModel.PubSub

structure DSt where
  st       : St
  gates    : Nat               -- number of gate callbacks scheduled so far
  open_    : List Nat          -- gate ids already released
  blocked  : Bool              -- harness view: a gate is currently in place
  parked   : Bool              -- … and it was scheduled before the PubSub was stopped (so it holds the queue)
  mon      : Mon
  everSub  : List Nat          -- subscribers the IMPLEMENTATION reported a Subscribe for
  resub    : List Nat          -- … more than once
  dels     : List (Nat × Nat)  -- model deliveries of this op, reversed

def dinit : DSt :=
  { st := (PubSub.step PubSub.init .run).1, gates := 0, open_ := [], blocked := false, parked := false, mon := Mon.init, everSub := [], resub := [], dels := [] }

def act (d : DSt) (a : Act) : DSt :=
  let r := PubSub.step d.st a
  match r.2 with
  | .delivered s v => { d with st := r.1, dels := (s, v) :: d.dels }
  | _ => { d with st := r.1 }

def countFor (s : Nat) (l : List (Nat × Nat)) : Nat := (l.filter (·.1 = s)).length

def reached (goal : Option (Nat × Nat)) (d : DSt) : Bool :=
  match goal with
  | some (s, n) => decide (countFor s d.dels ≥ n)
  | none => false

/-- Drive the serializer's run goroutine until parked; with `goal = some (s, n)` stop as soon as
    `n` deliveries to `s` were made in this op. -/
def drive (goal : Option (Nat × Nat)) : Nat → DSt → DSt
  | 0, d => d
  | k + 1, d =>
    if reached goal d then d else
    match d.st.ser.pc with
    | .running (0, g) => if d.open_.contains g then drive goal k (act d .ret) else d
    | .running _ => drive goal k (act d .ret)
    | .exited => d
    | _ =>
      let r := PubSub.step d.st .run
      if r.1.ser = d.st.ser then d else drive goal k (act d .run)

def fuel (d : DSt) : Nat := 8 * (Serializer.work d.st.ser + 4) + 64

inductive Api
  | sub (s : Nat)
  | unsub (s : Nat)
  | pub (v : Nat)
deriving Repr, DecidableEq

def parseApiTok (s : String) : Option Api :=
  match s.toList with
  | 's' :: r => (String.ofList r).toNat?.map .sub
  | 'u' :: r => (String.ofList r).toNat?.map .unsub
  | 'p' :: r => (String.ofList r).toNat?.map .pub
  | _ => none

def parseItem (s : String) : Option Api :=
  match s.splitOn ":" with
  | ["sub", n] => n.toNat?.map .sub
  | ["unsub", n] => n.toNat?.map .unsub
  | ["pub", n] => n.toNat?.map .pub
  | _ => none

def showApi : Api → String
  | .sub s => s!"s{s}"
  | .unsub s => s!"u{s}"
  | .pub v => s!"p{v}"

structure ImplOut where
  ord  : List Api
  dels : List (Nat × List Nat)
  done : Bool

def parseDel (s : String) : Option (Nat × List Nat) :=
  match s.splitOn ":" with
  | [a, vs] => do
    let x ← a.toNat?
    let l ← (vs.splitOn ".").mapM String.toNat?
    pure (x, l)
  | _ => none

def parseList {β : Type} (f : String → Option β) (s : String) : Option (List β) :=
  if s = "-" then some [] else (s.splitOn ",").mapM f

def parseImpl (s : String) : Option ImplOut :=
  match s.splitOn " " with
  | [o, dl, dn] =>
    if o.startsWith "ord=" && dl.startsWith "d=" && dn.startsWith "done=" then do
      let ord ← parseList parseApiTok (o.drop 4).toString
      let dels ← parseList parseDel (dl.drop 2).toString
      pure { ord, dels, done := (dn.drop 5).toString = "1" }
    else none
  | _ => none

def implCount (io : ImplOut) (s : Nat) : Nat := ((io.dels.lookup s).getD []).length

/-- Replay the API calls in the implementation's linearization order. -/
def replay (io : ImplOut) : List Api → DSt → DSt
  | [], d => d
  | .sub s :: t, d => replay io t (act d (.subscribe s))
  | .pub v :: t, d => replay io t (act d (.publish v))
  | .unsub s :: t, d =>
    let d := drive (some (s, implCount io s)) (fuel d) d
    replay io t (act d (.unsubscribe s))

def removeOne (a : Api) : List Api → Option (List Api)
  | [] => none
  | x :: t => if x = a then some t else (removeOne a t).map (x :: ·)

/-- `ord` must be a permutation of the op's items; otherwise the op's own order is used (→ divergence). -/
def legalOrd : List Api → List Api → Bool
  | [], items => items.isEmpty
  | a :: t, items => match removeOne a items with
    | some rest => legalOrd t rest
    | none => false

def insertDel (s v : Nat) : List (Nat × List Nat) → List (Nat × List Nat)
  | [] => [(s, [v])]
  | (x, l) :: t => if x = s then (x, l ++ [v]) :: t else if s < x then (s, [v]) :: (x, l) :: t else (x, l) :: insertDel s v t

def showDels (l : List (Nat × List Nat)) : String :=
  if l.isEmpty then "-" else
  ",".intercalate (l.map fun (s, vs) => s!"{s}:" ++ ".".intercalate (vs.map toString))

def finish (d : DSt) (ord : List Api) : DSt × String :=
  let d := drive none (fuel d) d
  let per := d.dels.reverse.foldl (fun acc (s, v) => insertDel s v acc) []
  let out := s!"ord={if ord.isEmpty then "-" else ",".intercalate (ord.map showApi)} d={showDels per} done={if d.st.ser.done then 1 else 0}"
  ({ d with dels := [] }, out)

/-- The implementation's events of this op, ordered as described in the header. -/
def implEvents (io : ImplOut) (closedNow : Bool) : List Ev :=
  let rec go : List Api → List (Nat × List Nat) → List Ev
    | [], rem => rem.flatMap fun (s, vs) => vs.map (Ev.delivered s ·)
    | .sub s :: t, rem => Ev.subscribed s :: go t rem
    | .pub v :: t, rem => Ev.published v :: go t rem
    | .unsub s :: t, rem =>
      ((rem.lookup s).getD []).map (Ev.delivered s ·) ++ Ev.unsubscribed s :: go t (rem.filter (·.1 ≠ s))
  (if closedNow then [Ev.closed] else []) ++ go io.ord io.dels

def monitorOp (m : Mon) (io : ImplOut) (closedNow parked : Bool) (resub : List Nat) : Mon × String :=
  let evs := implEvents io closedNow
  let r := Mon.run m evs
  let firstViol := (evs.zip r.2).findSome? fun (e, v) => match v with | .viol c => some (e, c) | _ => none
  let v := match firstViol with
    | some (e, c) =>
      let tag := match e with
        | .delivered s _ => if resub.contains s then s!" [subscriber {s} re-subscribed after unsubscribing]" else ""
        | _ => ""
      "VIOL " ++ violText c ++ tag
    | none =>
      if parked then "ok" else
      match r.1.quiescent with
      | .viol c => "VIOL " ++ violText c
      | _ => "ok"
  (r.1, v)

def noteSubs (d : DSt) : List Api → DSt
  | [] => d
  | .sub s :: t =>
    noteSubs (if d.everSub.contains s then { d with resub := s :: d.resub } else { d with everSub := s :: d.everSub }) t
  | _ :: t => noteSubs d t

def step : Step DSt := fun d fs impl =>
  let io? := parseImpl impl
  let io := io?.getD { ord := [], dels := [], done := false }
  let go (d : DSt) (items : List Api) (closedNow : Bool) : DSt × String × String :=
    let ord := if legalOrd io.ord items then io.ord else items
    let d := replay io ord d
    let (d, out) := finish d ord
    let d := noteSubs d io.ord
    let (m, v) := monitorOp d.mon io closedNow d.parked d.resub
    let v := if io?.isNone then "VIOL unparsable implementation output" else v
    ({ d with mon := m }, out, v)
  match fs with
  | ["sub", n] => match n.toNat? with
    | some s => go d [.sub s] false
    | none => (d, "bad-op", "-")
  | ["unsub", n] => match n.toNat? with
    | some s => go d [.unsub s] false
    | none => (d, "bad-op", "-")
  | ["pub", n] => match n.toNat? with
    | some v => go d [.pub v] false
    | none => (d, "bad-op", "-")
  | "conc" :: items =>
    match items.mapM parseItem with
    | some l => go d l false
    | none => (d, "bad-op", "-")
  | ["block"] =>
    if d.blocked then go d [] false else
    let g := d.gates + 1
    let st := { d.st with ser := (Serializer.step d.st.ser (.sched (0, g))).1 }
    go { d with st := st, gates := g, blocked := true, parked := !d.mon.stopped } [] false
  | ["unblock"] =>
    if d.blocked then go { d with open_ := d.gates :: d.open_, blocked := false, parked := false } [] false else go d [] false
  | ["cancel"] =>
    let d := act d .cancel
    let wasFired := d.st.ser.fired
    let d := act d .fire
    go d [] (!wasFired)
  | _ => (d, "bad-op", "-")

def run : IO Unit := Driver.run dinit step

end GrpcModel.Driver.S_pubsub
