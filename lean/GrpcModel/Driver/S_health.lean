import GrpcModel.Driver.Loop
import GrpcModel.Model.Health
/-!
component `s_health` (C54, tie T2).  Ops: see harness/synct/c_health_test.go.  Every op is expanded
into rules of `GrpcModel.Health.apply`; after each op the bubble is quiescent, i.e. every live
stream that is not inside Send has emptied its channel (`drain` = rule recv wherever enabled).
-/
namespace GrpcModel.Driver.S_health
open GrpcModel.Driver GrpcModel.Health

def applyD (s : St) (r : Rule) : St := (apply s r).getD s

/-- quiescence: every stream outside Send takes what waits in its channel -/
def drain (s : St) : St := (List.range s.nw).foldl (fun s i => applyD s (.recv i)) s

def showDots (l : List Int) : String := if l.isEmpty then "-" else ".".intercalate (l.map toString)

def dump (s : St) : String :=
  " |" ++ String.join ((List.range s.nw).map fun i =>
    let x := s.w i
    s!" {i}:{x.svc}:{if x.alive then "A" else "D"}:{showDots x.log}:{match x.sending with | some v => toString v | none => "-"}")

def showCheck (s : St) (svc : Nat) : String :=
  match check s svc with
  | some v => toString v
  | none => "NOTFOUND"

def someIdle (s : St) : Bool := (List.range s.nw).any fun i => (s.w i).alive && (s.w i).sending.isNone

def intList (t : String) : Option (List Int) := (t.splitOn ",").mapM String.toInt?

/-! ### monitor: C54 on the implementation's answers.  The reference is the statement's own notion of
"the service's current status": NewServer registers "" as SERVING; SetServingStatus registers/sets unless
shut down; Shutdown/Resume set every registered service to NOT_SERVING/SERVING. -/

structure MW where
  svc : Nat
  alive : Bool
  log : List Int
  pend : Option Int

structure Mon where
  reg : List (Nat × Int) := [(0, 1)]
  down : Bool := false
  ws : List MW := []

def mcur (m : Mon) (svc : Nat) : Int := ((m.reg.find? (·.1 = svc)).map (·.2)).getD 3

def mset (m : Mon) (svc : Nat) (v : Int) : Mon :=
  if m.down then m
  else if m.reg.any (·.1 = svc) then { m with reg := m.reg.map fun p => if p.1 = svc then (svc, v) else p }
  else { m with reg := m.reg ++ [(svc, v)] }

def mall (m : Mon) (v : Int) (down : Bool) : Mon := { m with reg := m.reg.map fun p => (p.1, v), down := down }

def parseDots (t : String) : Option (List Int) := if t = "-" then some [] else (t.splitOn ".").mapM String.toInt?

def parseW (w : String) : Option MW :=
  match w.splitOn ":" with
  | [_, svc, a, lg, pd] =>
    match svc.toNat?, parseDots lg, (if pd = "-" then some none else pd.toInt?.map some) with
    | some svc, some lg, some pd => some { svc := svc, alive := a = "A", log := lg, pend := pd }
    | _, _, _ => none
  | _ => none

def parseDump (impl : String) : Option (List MW) :=
  match impl.splitOn " |" with
  | [_, d] => ((d.splitOn " ").filter (· ≠ "")).mapM parseW
  | _ => none

def adjDup : List Int → Bool
  | a :: b :: t => a == b || adjDup (b :: t)
  | _ => false

def firstSome : List (Option String) → Option String
  | [] => none
  | some v :: _ => some v
  | none :: t => firstSome t

/-- `allowed`: the statuses the stream's service had during this op (old current, new current, and for
    concurrent sets every value set) -/
def checkW (old : Option MW) (w : MW) (cur : Int) (allowed : List Int) (multi : Bool) : Option String :=
  let outNew := w.log ++ w.pend.toList
  let outOld := match old with | some o => o.log ++ o.pend.toList | none => []
  -- the stream went through its select during this op: it was idle, or its Send completed
  let looped : Bool := match old with | some o => o.pend.isNone || o.log.length < w.log.length | none => true
  if adjDup outNew then some "VIOL stream was sent the same status twice in a row"
  else if (if w.alive then outNew.take outOld.length ≠ outOld else outOld.take w.log.length ≠ w.log ∨ w.pend.isSome) then
    some "VIOL stream history changed retroactively"
  else if (outNew.drop outOld.length).any (fun v => ¬ allowed.contains v) then
    some "VIOL stream picked up a status its service did not have at that time"
  else if old.isNone ∧ outNew.head? ≠ some cur then some "VIOL first message is not the service's current status"
  else if w.alive ∧ outNew.getLast? ≠ some cur ∧ w.pend.isNone then
    some "VIOL idle stream has not been sent the latest status"
  else if w.alive ∧ looped ∧ ¬ multi ∧ outNew.getLast? ≠ some cur then
    some "VIOL stream that was ready to send did not pick up the latest status"
  else none

def monitor (m : Mon) (fs : List String) (impl : String) : Mon × String :=
  if impl.startsWith "PANIC" ∨ impl.startsWith "CRASH" then (m, "-") else
  let res := ((impl.splitOn " ").head?).getD ""
  match parseDump impl with
  | none => (m, "VIOL unparsable: " ++ impl)
  | some ws =>
    -- reference status map after the op, and which statuses each service had during it
    let (m', extra, e0) : Mon × List (Nat × Int) × Option String :=
      match fs with
      | ["set", svc, v] =>
        match svc.toNat?, v.toInt? with
        | some svc, some v => (mset m svc v, [], none)
        | _, _ => (m, [], none)
      | ["shutdown"] => (mall m 2 true, [], none)
      | ["resume"] => (mall m 1 false, [], none)
      | ["check", svc] =>
        let want := match svc.toNat? with
          | some svc => if m.reg.any (·.1 = svc) then toString (mcur m svc) else "NOTFOUND"
          | none => "?"
        (m, [], if res = want then none
                else if m.down then some "VIOL Check during shutdown does not report NOT_SERVING / the frozen state"
                else some "VIOL Check does not return the latest status")
      | [c, svc, vs] =>
        if c = "cset" ∨ c = "cshut" then
          match svc.toNat?, intList vs, field impl with
          | some svc, some vs, fin =>
            -- any order of the critical sections is legal; the reported final status picks it
            let final := fin
            let cands : List Mon :=
              if c = "cset" then vs.map fun last => mset (vs.foldl (fun m v => mset m svc v) m) svc last
              else [mall (vs.foldl (fun m v => mset m svc v) m) 2 true, vs.foldl (fun m v => mset m svc v) (mall m 2 true)]
            let showC (x : Mon) := if x.reg.any (·.1 = svc) then toString (mcur x svc) else "NOTFOUND"
            match cands.find? (fun x => showC x = final) with
            | some x => (x, (vs.map fun v => (svc, v)) ++ (if c = "cshut" then m.reg.map (fun p => (p.1, 2)) else []), none)
            | none => (m, [], some "VIOL final status after concurrent calls is not the result of any order")
          | _, _, _ => (m, [], none)
        else (m, [], none)
      | _ => (m, [], none)
    let perW := (List.range ws.length).map fun i =>
      match ws[i]? with
      | none => none
      | some w =>
        let old := m.ws[i]?
        let allowed := [mcur m w.svc, mcur m' w.svc] ++ (extra.filter (·.1 = w.svc)).map (·.2)
        checkW old w (mcur m' w.svc) allowed (fs.head? = some "cset" || fs.head? = some "cshut")
    let m'' := { m' with ws := ws }
    match firstSome (e0 :: perW) with
    | some v => (m'', v)
    | none => (m'', "ok")
where
  field (impl : String) : String :=
    ((impl.splitOn " ").findSome? fun w => match w.splitOn "=" with
      | ["final", v] => some v
      | _ => none).getD ""

/-! ### model side -/

structure DSt where
  s : St := GrpcModel.Health.init
  mon : Mon := {}

def setsThen (s : St) (svc : Nat) (vs : List Int) : St := vs.foldl (fun s v => applyD s (.set svc v)) s

def model (s : St) (fs : List String) (impl : String) : St × String :=
  match fs with
  | ["set", svc, v] =>
    match svc.toNat?, v.toInt? with
    | some svc, some v => let t := drain (applyD s (.set svc v)); (t, "ok" ++ dump t)
    | _, _ => (s, "bad-op")
  | ["shutdown"] => let t := drain (applyD s .shutdown); (t, "ok" ++ dump t)
  | ["resume"] => let t := drain (applyD s .resume); (t, "ok" ++ dump t)
  | ["check", svc] =>
    match svc.toNat? with
    | some svc => (s, showCheck s svc ++ dump s)
    | none => (s, "bad-op")
  | ["watch", svc] =>
    match svc.toNat? with
    | some svc => let t := drain (applyD s (.watch svc)); (t, "ok" ++ dump t)
    | none => (s, "bad-op")
  | ["cwatch", svc, n] =>
    match svc.toNat?, n.toNat? with
    | some svc, some n => let t := drain ((List.range n).foldl (fun s _ => applyD s (.watch svc)) s); (t, "ok" ++ dump t)
    | _, _ => (s, "bad-op")
  | ["ack", i] =>
    match i.toNat? with
    | some i =>
      if i ≥ s.nw then (s, "bad-op")
      else if (s.w i).alive ∧ (s.w i).sending.isSome then let t := drain (applyD s (.sendOk i)); (t, "ok" ++ dump t)
      else (s, "noop" ++ dump s)
    | none => (s, "bad-op")
  | ["fail", i] =>
    match i.toNat? with
    | some i =>
      if i ≥ s.nw then (s, "bad-op")
      else if (s.w i).alive ∧ (s.w i).sending.isSome then let t := applyD s (.leave i); (t, "ok" ++ dump t)
      else (s, "noop" ++ dump s)
    | none => (s, "bad-op")
  | ["cancel", i] =>
    match i.toNat? with
    | some i =>
      if i ≥ s.nw then (s, "bad-op")
      else if (s.w i).alive then let t := applyD s (.leave i); (t, "ok" ++ dump t)
      else (s, "noop" ++ dump s)
    | none => (s, "bad-op")
  | [c, svc, vs] =>
    if c = "cset" ∨ c = "cshut" then
      match svc.toNat?, intList vs with
      | some svc, some vs =>
        let shut := c = "cshut"
        if someIdle s then
          -- the harness ran the calls one after the other, in the order given
          let t := vs.foldl (fun s v => drain (applyD s (.set svc v))) s
          let t := if shut then drain (applyD t .shutdown) else t
          (t, s!"final={showCheck t svc} mode=seq" ++ dump t)
        else
          -- every stream is inside Send: only the order's last writer is observable; follow the implementation
          let final := (((impl.splitOn " ").findSome? fun w => match w.splitOn "=" with
            | ["final", v] => some v | _ => none).getD "")
          let cands : List St :=
            if shut then [applyD (setsThen s svc vs) .shutdown, setsThen (applyD s .shutdown) svc vs]
            else vs.map fun last => applyD (setsThen s svc vs) (.set svc last)
          let t := ((cands.find? fun t => showCheck t svc = final).orElse fun _ => cands.head?).getD s
          let t := drain t
          (t, s!"final={showCheck t svc} mode=par" ++ dump t)
      | _, _ => (s, "bad-op")
    else (s, "bad-op")
  | _ => (s, "bad-op")

def step : Step DSt := fun d fs impl =>
  let (s', out) := model d.s fs impl
  if out = "bad-op" then (d, out, "-") else
  let (m', v) := monitor d.mon fs impl
  ({ s := s', mon := m' }, out, v)

def run : IO Unit := Driver.run ({} : DSt) step

end GrpcModel.Driver.S_health
