import GrpcModel.Driver.Loop
import GrpcModel.Model.Dispatch
/-! component `s_dispatch` (C26): real grpc.Server + raw HTTP/2 client.

  `svc <name hex> <methods hex,..|-> <streams hex,..|->` | `serve <0|1>` | `call <path hex>` | `callnopath`

Answer of call: `ran=<handler ids|-> res=<st:<code>:<kind>|rst:<code>|none>`. -/
namespace GrpcModel.Driver.S_dispatch
open GrpcModel.Driver GrpcModel.Dispatch

structure St where
  reg : List Service := []
  serving : Bool := false
  unk : Bool := false

def hexList (s : String) : Option (List Bytes) :=
  if s = "-" then some [] else (s.splitOn ",").mapM fun p => if p = "e" then some [] else unhex p

def showEntry (i : Nat) : Entry → String
  | .method j => s!"{i}.m{j}"
  | .stream j => s!"{i}.s{j}"

def showOutcome (path : Bytes) : Outcome → String
  | .malformed => "ran=- res=st:12:mal"
  | .run i e => s!"ran={showEntry i e} res=st:10:h"
  | .unknownHandler => s!"ran=U:{hex path} res=st:10:h"
  | .unimplService => "ran=- res=st:12:usvc"
  | .unimplMethod => "ran=- res=st:12:umeth"

def modelCall (st : St) (path : Bytes) : String :=
  if !validFieldValue path then "ran=- res=rst:1"
  else showOutcome path (dispatch st.reg st.unk path)

/-! ### the property's predicate on one implementation answer (independent of `dispatch`) -/

/-- Decidable form of `wellFormed`: a leading slash and one more slash. -/
def isWellFormed (p : Bytes) : Bool :=
  match p with
  | b :: rest => b == slash && rest.contains slash
  | [] => false

/-- Is `path = "/" ++ s ++ "/" ++ m` with no slash in `m`? -/
def isPathOf (path s m : Bytes) : Bool := path == slash :: (s ++ slash :: m) && !m.contains slash

/-- Some registered service/method pair matches the path. -/
def registered (reg : List Service) (path : Bytes) : Bool :=
  reg.any fun svc => (svc.methods ++ svc.streams).any fun m => isPathOf path svc.name m

def parseId (s : String) : Option (Nat × Bool × Nat) :=
  match s.splitOn "." with
  | [a, b] =>
    match a.toNat?, b.toList with
    | some i, 'm' :: r => (String.ofList r).toNat?.map fun j => (i, true, j)
    | some i, 's' :: r => (String.ofList r).toNat?.map fun j => (i, false, j)
    | _, _ => none
  | _ => none

def monitor (st : St) (path : Bytes) (impl : String) : String :=
  match impl.splitOn " " with
  | [ran, res] =>
    let ran := (ran.drop 4).toString
    let res := (res.drop 4).toString
    let isUnimpl := res.startsWith "st:12:" && !res.endsWith ":open"
    if ran.contains '+' then "VIOL more than one handler ran for one request"
    else if !isWellFormed path then
      (if ran ≠ "-" then "VIOL a malformed path reached a handler"
       else if isUnimpl || res.startsWith "rst:" then "ok" else "VIOL malformed path not answered with UNIMPLEMENTED")
    else if ran = "-" then
      (if registered st.reg path && validFieldValue path then "VIOL a registered method was not dispatched to its handler"
       else if st.unk && validFieldValue path then "VIOL unknown-service handler installed but not run for an unregistered well-formed path"
       else if isUnimpl || (res.startsWith "rst:" && !validFieldValue path) then "ok"
       else "VIOL well-formed unregistered path not answered with UNIMPLEMENTED")
    else if ran.startsWith "U:" then
      (if !st.unk then "VIOL unknown-service handler ran but none is installed"
       else if registered st.reg path then "VIOL unknown-service handler ran for a registered method"
       else if ran ≠ "U:" ++ hex path then "VIOL unknown-service handler saw a different method string"
       else "ok")
    else match parseId ran with
      | some (i, isM, j) =>
        match st.reg[i]? with
        | some svc =>
          match (if isM then svc.methods[j]? else svc.streams[j]?) with
          | some m => if isPathOf path svc.name m then "ok" else "VIOL request reached a handler registered under a different service/method name"
          | none => "VIOL unknown handler id " ++ ran
        | none => "VIOL unknown handler id " ++ ran
      | none => "VIOL unparsable answer " ++ impl
  | _ => if impl.startsWith "err" then "VIOL " ++ impl else "VIOL unparsable answer " ++ impl

def step : Step St := fun st fs impl =>
  match fs with
  | ["svc", n, ms, ss] =>
    if st.serving then (st, "already-serving", "-") else
    match (if n = "e" then some [] else unhex n), hexList ms, hexList ss with
    | some name, some methods, some streams =>
      if st.reg.any (·.name = name) then (st, "dup", "-")
      else ({ st with reg := st.reg ++ [{ name := name, methods := methods, streams := streams }] }, "ok", "-")
    | _, _, _ => (st, "bad-op", "-")
  | ["serve", u] =>
    if st.serving then (st, "already-serving", "-") else ({ st with serving := true, unk := u = "1" }, "ok", "-")
  | ["call", p] =>
    if !st.serving then (st, "not-serving", "-") else
    match unhex p with
    | some path => (st, modelCall st path, monitor st path impl)
    | none => (st, "bad-op", "-")
  | ["callnopath"] =>
    if !st.serving then (st, "not-serving", "-") else (st, modelCall st [], monitor st [] impl)
  | _ => (st, "bad-op", "-")

def run : IO Unit := Driver.run {} step

end GrpcModel.Driver.S_dispatch
