import GrpcModel.Driver.Loop
import GrpcModel.Driver.Msgsize
import GrpcModel.Model.MsgSize
/-! component `s_msgsize` (C21, e2e): real ClientConn + Server over bufconn.

  `cfg <scReq|-> <scResp|-> <dialSend|-> <dialRecv|-> <srvRecv|-> <srvSend|->`
  `call <callSend|-> <callRecv|-> <none|pad|rle> <req> <resp> [unary|stream|prep]` → `code=<n> srv=<len|-> cli=<len|-> why=<-|send|recvwire|recvplain>` -/
namespace GrpcModel.Driver.S_msgsize
open GrpcModel.Driver GrpcModel.MsgSize GrpcModel.Driver.Msgsize

structure St where
  cfg : Option (ClientCfg × ServerCfg) := none

def compOf (s : String) : Option Comp :=
  if s = "pad" then some ⟨fun n => n + 16⟩
  else if s = "rle" then some ⟨fun _ => 9⟩
  else none

def showNat? : Option Nat → String
  | none => "-"
  | some n => toString n

def showWhy : Why → String
  | .none => "-" | .send => "send" | .recvWire => "recvwire" | .recvPlain => "recvplain"

def showResult (r : Result) : String :=
  s!"code={if r.code = .ok then 0 else 8} srv={showNat? r.serverGot} cli={showNat? r.clientGot} why={showWhy r.why}"

/-- The property on one implementation answer, from the limits alone (the smaller of the
    configured limits, or the default) — independent of `rpc`. -/
def monitor (c : ClientCfg) (s : ServerCfg) (comp : Option Comp) (req resp : Nat) (impl : String) : String :=
  let eff (sc : Option Int) (dial call : Option Int) (dv : Int) : Int :=
    let opt := match call with | some v => some v | none => dial
    match sc, opt with
    | none, none => dv
    | some x, none => x
    | none, some y => y
    | some x, some y => if x ≤ y then x else y
  let cSend := eff c.scReq c.dialSend c.callSend 2147483647
  let cRecv := eff c.scResp c.dialRecv c.callRecv 4194304
  let sRecv := s.recv.getD 4194304
  let sSend := s.send.getD 2147483647
  let wReq := wireLen comp req
  let wResp := wireLen comp resp
  match impl.splitOn " " with
  | [code, srv, cli, _] =>
    let code := (code.drop 5).toString
    let srv := (srv.drop 4).toString
    let cli := (cli.drop 4).toString
    if srv.endsWith "corrupt" || cli.endsWith "corrupt" then "VIOL a delivered message was altered"
    else if (wReq : Int) > cSend then
      (if srv ≠ "-" then "VIOL a request larger than the client send limit was transmitted"
       else if code ≠ "8" then "VIOL oversized request did not fail with RESOURCE_EXHAUSTED" else "ok")
    else if (wReq : Int) > sRecv || (isCompressed comp req && (req : Int) > sRecv) then
      (if srv ≠ "-" then "VIOL a request larger than the server receive limit was delivered to the handler"
       else if code ≠ "8" then "VIOL over-limit request did not fail with RESOURCE_EXHAUSTED" else "ok")
    else if (wResp : Int) > sSend then
      (if cli ≠ "-" then "VIOL a reply larger than the server send limit was delivered"
       else if code ≠ "8" then "VIOL oversized reply did not fail with RESOURCE_EXHAUSTED" else "ok")
    else if (wResp : Int) > cRecv || (isCompressed comp resp && (resp : Int) > cRecv) then
      (if cli ≠ "-" then "VIOL a reply larger than the client receive limit was delivered"
       else if code ≠ "8" then "VIOL over-limit reply did not fail with RESOURCE_EXHAUSTED" else "ok")
    else if code ≠ "0" then s!"VIOL RPC within all limits failed with code {code}"
    else if srv ≠ toString req || cli ≠ toString resp then "VIOL message within the limits not delivered intact"
    else "ok"
  | _ => "VIOL unparsable answer " ++ impl

def step : Step St := fun st fs impl =>
  match fs with
  | ["cfg", a, b, c, d, e, f] =>
    match optInt a, optInt b, optInt c, optInt d, optInt e, optInt f with
    | some scReq, some scResp, some dialSend, some dialRecv, some srvRecv, some srvSend =>
      ({ cfg := some ({ scReq := scReq, scResp := scResp, dialSend := dialSend, dialRecv := dialRecv },
                      { recv := srvRecv, send := srvSend }) }, "ok", "-")
    | _, _, _, _, _, _ => (st, "bad-op", "-")
  | "call" :: cs :: cr :: comp :: req :: resp :: mode =>
    -- mode: (none)/unary = Invoke; stream = NewStream/SendMsg/RecvMsg; prep = the same with both messages
    -- sent as *grpc.PreparedMsg. The size checks are the same in all three (theorem prepared_msg_is_checked).
    if mode ≠ [] ∧ mode ≠ ["unary"] ∧ mode ≠ ["stream"] ∧ mode ≠ ["prep"] then (st, "bad-op", "-") else
    match st.cfg with
    | none => (st, "nocfg", "-")
    | some (c, s) =>
      match optInt cs, optInt cr, req.toNat?, resp.toNat? with
      | some callSend, some callRecv, some rq, some rp =>
        let c' := { c with callSend := callSend, callRecv := callRecv }
        let cp := compOf comp
        (st, showResult (rpc c' s cp rq rp), monitor c' s cp rq rp impl)
      | _, _, _, _ => (st, "bad-op", "-")
  | _ => (st, "bad-op", "-")

def run : IO Unit := Driver.run {} step

end GrpcModel.Driver.S_msgsize
