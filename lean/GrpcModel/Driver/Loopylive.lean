import GrpcModel.Model.LoopyIO
/-! component `loopylive` (C03): the real loopy writer, op by op; monitor = `Loopy.C03.mstep` (no lost wake-up as a state
predicate, progress + round robin per `processData` call, order preservation for every other item) evaluated on the
implementation's state dump (sendQuota, activeStreams order, per-stream state / bytesOutStanding / queue head) and frames. -/
namespace GrpcModel.Driver.Loopylive
open GrpcModel.Driver GrpcModel.Loopy GrpcModel.Loopy.IO

def stateOfNum (n : Nat) : Option SState :=
  if n = stateNum .active then some .active
  else if n = stateNum .empty then some .empty
  else if n = stateNum .waiting then some .waiting
  else none

def viewOf (impl : Impl) : Option C03.View := do
  let ss ← impl.streams.mapM fun st => do
    let state ← stateOfNum st.state
    pure ({ id := st.id, state := state, quota := (impl.w : Int) - st.bytesOut, nitems := st.nitems,
            headData := st.headKind == 1, headLen := if st.headKind == 1 then st.headH + st.headD else 0 } : C03.SV)
  pure { closed := false, sendQuota := impl.q, active := impl.active, streams := ss }

def monitor (prev : C03.View) (_ : St) (op : Op) (impl : Impl) : C03.View × String :=
  if op.outside then (prev, "-") else
  match viewOf impl with
  | none => (prev, "VIOL unknown stream state in the writer's state dump")
  | some a =>
    -- a step that returned an error ends run(): only the state predicate is judged on it
    let a := { a with closed := impl.ret.startsWith "e:" }
    match toOuts (fun _ _ _ => some 0) impl.frames with
    | (_, some e) => (a, "VIOL " ++ e)
    | (outs, none) =>
      match C03.mstep prev op outs a with
      | some e => (a, "VIOL " ++ e)
      | none => (a, "ok")

def view0 : C03.View := C03.view (init .client)

def run : IO Unit :=
  Driver.run ({ st := init .client, mon := view0 } : DState C03.View) (mkStep view0 monitor)

end GrpcModel.Driver.Loopylive
