import GrpcModel.Driver.Loop
import GrpcModel.Model.Backoff
/-! component `backoff` (C20):
  `bo <base ns> <mult f64 bits> <jitter f64 bits> <max ns> <retries> <k>` → `<min> <max>` of k calls of
  the real `Exponential.Backoff(retries)` (one value twice when retries = 0). -/
namespace GrpcModel.Driver.Backoff
open GrpcModel.Driver GrpcModel.Backoff

/-- The exact rational denoted by the IEEE-754 binary64 bit pattern (`none` for ±Inf/NaN). -/
def f64OfBits (bits : Nat) : Option Rat :=
  let sign : Nat := bits / 2 ^ 63 % 2
  let e : Nat := bits / 2 ^ 52 % 2048
  let m : Nat := bits % 2 ^ 52
  if e = 2047 then none else
  let num : Nat := if e = 0 then m else 2 ^ 52 + m
  let mag : Rat :=
    if e = 0 then (Int.ofNat num : Rat) / (Int.ofNat (2 ^ 1074) : Rat)
    else if e ≥ 1075 then (Int.ofNat (num * 2 ^ (e - 1075)) : Rat)
    else (Int.ofNat num : Rat) / (Int.ofNat (2 ^ (1075 - e)) : Rat)
  some (if sign = 1 then -mag else mag)

def parseCfg (b m j x : String) : Option Config := do
  let base ← b.toInt?
  let mb ← m.toNat?
  let jb ← j.toNat?
  let mx ← x.toInt?
  let mult ← f64OfBits mb
  let jit ← f64OfBits jb
  pure { base := base, mult := mult, jitter := jit, maxDelay := mx }

def monitor (fs : List String) (impl : String) : String :=
  match fs with
  | ["bo", b, m, j, x, r, _] =>
    match parseCfg b m j x, r.toInt? with
    | some c, some retries =>
      match (impl.splitOn " ").map String.toInt? with
      | [some lo, some hi] =>
        if retries = 0 then
          (if lo = c.base ∧ hi = c.base then "ok" else s!"VIOL Backoff(0) is not the base delay {c.base}")
        else
          let v := judge c retries lo
          if v ≠ "ok" then v else judge c retries hi
      | _ => "VIOL unparsable answer " ++ impl
    | _, _ => "-"
  | _ => "-"

def model (fs : List String) : String :=
  match fs with
  | ["bo", b, m, j, x, r, _] =>
    match parseCfg b m j x, r.toInt? with
    | some c, some retries =>
      if retries = 0 then s!"{c.base} {c.base}"
      else if exactCase c && decide (0 < retries) then
        let v := backoffSat c retries 0
        s!"{v} {v}"
      else "*"
    | _, _ => "bad-op"
  | _ => "bad-op"

def run : IO Unit := Driver.run () (pureStepMon model monitor)

end GrpcModel.Driver.Backoff
