import GrpcModel.Driver.Loop
import GrpcModel.Model.WriteQuota
/-! component `s_writequota` (C17, tie T2 on the real `transport.writeQuota`; op language in
`harness/synct/c_writequota_test.go`).

Op-level: the op's external events are applied to the small-step model (`repl` immediately followed
by its `sig`), then the getter runs until it returns or is blocked — as the bubble runs to
quiescence. What is observable at quiescence (getter state/result, quota) does not depend on how the
atomic steps of concurrent replenishers and the getter interleave inside the op, so the model is
deterministic here; those interleavings themselves are covered only by the theorems
(`writequota_no_lost_wakeup` …).

Verdict: `WriteQuota.Mon` (theorem `writequota_monitor_ok`) on the IMPLEMENTATION's observations:
grants only with positive ledger quota, errStreamDone only after done, getter not left blocked while
the ledger quota is positive or done is closed, reported quota = initial − granted + replenished. -/
namespace GrpcModel.Driver.S_writequota
open GrpcModel GrpcModel.Driver GrpcModel.WriteQuota

structure DSt where
  s    : St
  m    : Mon
  gOut : Bool          -- a getter goroutine is outstanding (model)
  gSz  : Nat           -- its size (for the monitor: what the implementation's getter asked for)
  mOut : Bool          -- … (implementation view, from the ops alone)
  mSz  : Nat

def dinit : DSt := { s := init 16, m := Mon.init 16, gOut := false, gSz := 0, mOut := false, mSz := 0 }

/-- run the getter until it returns or blocks -/
def settle : Nat → St → St × Option Out
  | 0, s => (s, none)
  | n + 1, s =>
    match s.gpc with
    | .idle => (s, none)
    | _ =>
      let r := step s .gstep
      match r.2 with
      | .granted sz => (r.1, some (.granted sz))
      | .failed => (r.1, some .failed)
      | .blocked => (r.1, none)
      | _ => settle n r.1

def applyRepl (s : St) (n : Nat) : St := (step (step s (.repl n)).1 .sig).1

inductive Item | repl (n : Nat) | get (sz : Nat)

def parseItem (s : String) : Option Item :=
  match s.splitOn ":" with
  | ["repl", n] => n.toNat?.map .repl
  | ["get", n] => n.toNat?.map .get
  | _ => none

structure ImplOut where
  busy : Bool
  g    : String
  q    : Int

def parseImpl (s : String) : Option ImplOut :=
  let fs := s.splitOn " "
  let (busy, fs) := match fs with | "busy" :: t => (true, t) | t => (false, t)
  match fs with
  | [g, q] =>
    if g.startsWith "g=" && q.startsWith "q=" then (q.drop 2).toString.toInt?.map fun qi => { busy, g := (g.drop 2).toString, q := qi }
    else none
  | _ => none

def showV : Verdict → Option String
  | .viol c => some ("VIOL " ++ violText c)
  | _ => none

def step' : Step DSt := fun d fs impl =>
  let io? := parseImpl impl
  let io := io?.getD { busy := false, g := "-", q := 0 }
  -- `items`: external events of this op; returns new state, model line, verdict
  let go (d : DSt) (repls : List Nat) (get? : Option Nat) (closeDone : Bool) (busyTxt : Bool) : DSt × String × String :=
    -- model
    let startGet := get?.isSome && !d.gOut
    let s0 := match get? with
      | some sz => if startGet then (step d.s (.get sz)).1 else d.s
      | none => d.s
    -- after `done`, a get racing with replenishers may see the quota before or after them: the
    -- implementation's answer (errStreamDone = before) decides which schedule is replayed
    let getFirst := startGet && d.s.done && io.g = "err"
    let (s0, early) := if getFirst then settle 16 s0 else (s0, none)
    let s1 := repls.foldl applyRepl s0
    let s2 := if closeDone then (step s1 .closeDone).1 else s1
    let gOut := d.gOut || startGet
    let gSz := if startGet then get?.getD 0 else d.gSz
    let (s3, res) := if early.isSome then (s2, early) else settle 16 s2
    let gtxt := match res with
      | some (.granted _) => "ok"
      | some .failed => "err"
      | _ => if gOut then "parked" else "-"
    let gOut' := gOut && res.isNone
    let mo := (if busyTxt then "busy " else "") ++ s!"g={gtxt} q={s3.quota}"
    -- monitor on the implementation's observations
    let m0 := repls.foldl (fun m n => (m.step (.repl n) .none).1) d.m
    let m1 := if closeDone then (m0.step .closeDone .none).1 else m0
    let iOut := d.mOut || (get?.isSome && !d.mOut)
    let iSz := if get?.isSome && !d.mOut then get?.getD 0 else d.mSz
    let (m2, v1) := if io.g = "ok" then m1.step .gstep (.granted iSz)
      else if io.g = "err" then m1.step .gstep .failed else (m1, Verdict.na)
    let v2 := m2.quiescent (io.g = "parked")
    let v3 := m2.ledger io.q
    let iOut' := iOut && !(io.g = "ok" || io.g = "err")
    let v := if io?.isNone then "VIOL unparsable implementation output"
      else ((showV v1).orElse fun _ => (showV v2).orElse fun _ => showV v3).getD "ok"
    ({ s := s3, m := m2, gOut := gOut', gSz := gSz, mOut := iOut', mSz := iSz }, mo, v)
  match fs with
  | ["init", n] =>
    match n.toNat? with
    | some sz => ({ s := init sz, m := Mon.init sz, gOut := false, gSz := 0, mOut := false, mSz := 0 }, s!"g=- q={sz}", "-")
    | none => (d, "bad-op", "-")
  | ["get", n] =>
    match n.toNat? with
    | some sz => go d [] (some sz) false d.gOut
    | none => (d, "bad-op", "-")
  | ["repl", n] =>
    match n.toNat? with
    | some k => go d [k] none false false
    | none => (d, "bad-op", "-")
  | "conc" :: items =>
    match items.mapM parseItem with
    | none => (d, "bad-op", "-")
    | some l =>
      let repls := l.filterMap fun i => match i with | .repl n => some n | _ => none
      let gets := l.filterMap fun i => match i with | .get n => some n | _ => none
      go d repls gets.head? false false
  | ["done"] => go d [] none true false
  | _ => (d, "bad-op", "-")

def run : IO Unit := Driver.run dinit step'

end GrpcModel.Driver.S_writequota
