/-
Generic line-protocol loop shared by every component driver.

Input (stdin), one line per operation:

    <op> <arg> <arg> …[TAB<what the Go implementation printed for this op>]

`reset` starts a new case (state := init).  Output (stdout), one line per input line:

    <model output>TAB<verdict>

verdict is `-` (this op carries no monitor), `ok`, or `VIOL <reason>`: the executable
property predicate (the same definition the theorems in GrpcProofs/Properties talk
about) evaluated on the IMPLEMENTATION's output for this op.
-/
namespace GrpcModel.Driver

/-- A component step: state → op fields → implementation output → (state, model output, verdict). -/
abbrev Step (σ : Type) := σ → List String → String → σ × String × String

def splitTab (line : String) : String × String :=
  match line.splitOn "\t" with
  | [a] => (a, "")
  | a :: rest => (a, "\t".intercalate rest)
  | [] => ("", "")

def stripNL (s : String) : String :=
  let s := if s.endsWith "\n" then (s.dropEnd 1).toString else s
  if s.endsWith "\r" then (s.dropEnd 1).toString else s

def fields (s : String) : List String := (s.splitOn " ").filter (· ≠ "")

partial def loopAux {σ : Type} (init : σ) (step : Step σ) (inp out : IO.FS.Stream) (s : σ) : IO Unit := do
  let line ← inp.getLine
  if line.isEmpty then
    out.flush
    return ()
  let (opl, impl) := splitTab (stripNL line)
  match fields opl with
  | ["reset"] =>
    out.putStrLn "reset\t-"
    loopAux init step inp out init
  | fs =>
    let (s', m, v) := step s fs impl
    out.putStrLn (m ++ "\t" ++ v)
    loopAux init step inp out s'

def run {σ : Type} (init : σ) (step : Step σ) : IO Unit := do
  loopAux init step (← IO.getStdin) (← IO.getStdout) init

/-- Stateless component without a monitor. -/
def pureStep (f : List String → String) : Step Unit := fun _ fs _ => ((), f fs, "-")

/-- Stateless component with a monitor on the implementation output. -/
def pureStepMon (f : List String → String) (mon : List String → String → String) : Step Unit :=
  fun _ fs impl => ((), f fs, mon fs impl)

/-! ### small codecs used by the drivers -/

def hexDigit (c : Char) : Option Nat :=
  if '0' ≤ c ∧ c ≤ '9' then some (c.toNat - '0'.toNat)
  else if 'a' ≤ c ∧ c ≤ 'f' then some (c.toNat - 'a'.toNat + 10)
  else if 'A' ≤ c ∧ c ≤ 'F' then some (c.toNat - 'A'.toNat + 10)
  else none

/-- hex string → bytes (`-` or empty = no bytes); `none` on malformed hex. -/
def unhexAux : List Char → Option (List UInt8)
  | [] => some []
  | a :: b :: t => do
    let x ← hexDigit a
    let y ← hexDigit b
    let r ← unhexAux t
    pure (UInt8.ofNat (x * 16 + y) :: r)
  | _ => none

def unhex (s : String) : Option (List UInt8) :=
  if s = "-" then some [] else unhexAux s.toList

def hexChar (n : Nat) : Char :=
  if n < 10 then Char.ofNat ('0'.toNat + n) else Char.ofNat ('a'.toNat + n - 10)

def hex (bs : List UInt8) : String :=
  if bs.isEmpty then "-" else
  String.ofList (bs.flatMap fun b => [hexChar (b.toNat / 16), hexChar (b.toNat % 16)])

def natList (s : String) : Option (List Nat) :=
  if s = "-" then some [] else (s.splitOn ",").mapM String.toNat?

def showNatList (l : List Nat) : String :=
  if l.isEmpty then "-" else ",".intercalate (l.map toString)

end GrpcModel.Driver
