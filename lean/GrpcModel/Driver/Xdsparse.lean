import GrpcModel.Driver.Loop
import GrpcModel.Model.EDSParse
import GrpcModel.Model.XdsInv
/-!
component `xdsparse` (C45, tie T1).

  eds <dual> <conn> <compat> <wrap> <namehex> <ndrops> {<cathex> <num> <den>}
      <nlocs> {<hasloc> <regionhex> <zonehex> <subhex> <weight> <prio> <md> <neps>
               {<w|-> <health> <hostnamehex> <md> <naddr> {<hosthex> <port>}}}
        → model: `GrpcModel.EDSParse.unmarshal` on the mirrored proto; output `ok <dump>` | `err <class>`
  wc <w,w,…>                     RDS weighted clusters (model: `GrpcModel.XdsInv.weightedClusters`)
  raw <kind> <hex> | gen <kind> <seed> <size> <nmut>     model output `*` (not predicted)

Monitor (all ops): the implementation's answer is `ok <dump>` or `err <class>` (a `PANIC`, a `NONDET`
or anything else is a violation), and every accepted update satisfies the acceptance invariants
(`EDSParse.Inv`, `XdsInv.rdsInv`, `XdsInv.cdsInv`, `XdsInv.ldsInv`) evaluated on the dump.
Strings travel as hex; a byte b is the character with code b (injective, so equality, `contains ':'`
and concatenation behave as on Go strings).
-/
namespace GrpcModel.Driver.Xdsparse
open GrpcModel.Driver GrpcModel.EDSParse

abbrev P := StateT (List String) Option

def tok : P String := do
  match (← get) with
  | [] => failure
  | t :: rest => set rest; pure t

def num : P Nat := do
  match (← tok).toNat? with
  | some n => pure n
  | none => failure

def bytesStr (bs : List UInt8) : String := String.ofList (bs.map fun b => Char.ofNat b.toNat)
def strBytes (s : String) : List UInt8 := s.toList.map fun c => UInt8.ofNat c.toNat

def str : P String := do
  match unhex (← tok) with
  | some bs => pure (bytesStr bs)
  | none => failure

def hx (s : String) : String := hex (strBytes s)

def rep (n : Nat) (p : P α) : P (List α) :=
  match n with
  | 0 => pure []
  | n + 1 => do
    let a ← p
    let rest ← rep n p
    pure (a :: rest)

def pSock : P SocketAddress := do
  let h ← str
  let p ← num
  pure { address := h, port := p }

def pEndpoint : P LbEndpoint := do
  let w ← tok
  let weight ← if w = "-" then pure none else match w.toNat? with
    | some n => pure (some n)
    | none => failure
  let health ← num
  let hostname ← str
  let md ← num
  let na ← num
  let addrs ← rep na pSock
  pure { weight := weight, addrs := addrs, health := health, hostname := hostname, mdErr := md = 2 }

def pLocality : P LocalityLbEndpoints := do
  let hasloc ← num
  let region ← str
  let zone ← str
  let sub ← str
  let weight ← num
  let prio ← num
  let md ← num
  let ne ← num
  let eps ← rep ne pEndpoint
  pure { hasLocality := hasloc = 1, region := region, zone := zone, subZone := sub, weight := weight, priority := prio,
         endpoints := eps, mdErr := md = 2 }

def pDrop : P DropOverload := do
  let c ← str
  let n ← num
  let d ← num
  pure { category := c, numerator := n, denominator := d }

def pEdsOp : P (Env × Bool × ClusterLoadAssignment) := do
  let dual ← num
  let conn ← num
  let compat ← num
  let wrap ← num
  let name ← str
  let nd ← num
  let drops ← rep nd pDrop
  let nl ← num
  let locs ← rep nl pLocality
  pure ({ dualstack := dual = 1, httpConnect := conn = 1, hashKeyCompat := compat = 1 }, wrap = 1,
        { clusterName := name, drops := drops, endpoints := locs })

def showErr : Err → String
  | .noname => "noname" | .denom => "denom" | .noloc => "noloc" | .locsum => "locsum" | .duploc => "duploc"
  | .zeroweight => "zeroweight" | .epsum => "epsum" | .dupaddr => "dupaddr" | .md => "md" | .prio => "prio"

def showUpdate (u : EndpointsUpdate) : String :=
  let ds := u.drops.map fun d => s!" {hx d.category} {d.numerator} {d.denominator}"
  let ls := u.localities.map fun l =>
    s!" {hx l.region} {hx l.zone} {hx l.subZone} {l.weight} {l.priority} {l.endpoints.length}" ++
    String.join (l.endpoints.map fun e =>
      s!" {e.weight} {e.health} {hx e.hostname} {e.addresses.length}" ++ String.join (e.addresses.map fun a => " " ++ hx a))
  s!"ok {u.drops.length}" ++ String.join ds ++ s!" {u.localities.length}" ++ String.join ls

/-! parsing the implementation's dump back -/

def pOutEndpoint : P Endpoint := do
  let w ← num
  let h ← num
  let hn ← str
  let na ← num
  let addrs ← rep na str
  pure { addresses := addrs, health := h, weight := w, hostname := hn }

def pOutLocality : P Locality := do
  let region ← str
  let zone ← str
  let sub ← str
  let w ← num
  let p ← num
  let ne ← num
  let eps ← rep ne pOutEndpoint
  pure { region := region, zone := zone, subZone := sub, endpoints := eps, weight := w, priority := p }

def pOutDrop : P OverloadDropConfig := do
  let c ← str
  let n ← num
  let d ← num
  pure { category := c, numerator := n, denominator := d }

def pOutUpdate : P EndpointsUpdate := do
  let nd ← num
  let ds ← rep nd pOutDrop
  let nl ← num
  let ls ← rep nl pOutLocality
  pure { drops := ds, localities := ls }

def parseAll (p : P α) (ts : List String) : Option α :=
  match p.run ts with
  | some (a, []) => some a
  | _ => none

/-- which invariant of `EDSParse.Inv` fails (for the verdict text) -/
def edsInvReason (u : EndpointsUpdate) : String :=
  let ps := prioritiesOf u
  if !(ps.all (· < ps.length) && (List.range ps.length).all (fun i => ps.contains i)) then s!"priorities {ps} are not contiguous from 0"
  else if !(decide (u.localities.flatMap (fun l => l.endpoints.flatMap (·.addresses))).Nodup) then "an endpoint address repeats"
  else if !(decide (u.localities.map (fun l => (l.region, l.zone, l.subZone, l.priority))).Nodup) then "a (locality, priority) pair repeats"
  else if !(u.localities.all fun l => decide (l.weight ≠ 0)) then "a locality has weight 0"
  else if !(u.localities.all fun l => l.endpoints.all fun e => decide (e.weight ≠ 0)) then "an endpoint has weight 0"
  else "a weight sum exceeds uint32 or a drop denominator is unsupported"

def edsMonitor (impl : String) : String :=
  match fields impl with
  | "ok" :: rest =>
    match parseAll pOutUpdate rest with
    | some u => if Inv u then "ok" else "VIOL accepted EndpointsUpdate breaks an invariant: " ++ edsInvReason u
    | none => "VIOL unparsable dump"
  | ["err", _] => "ok"
  | _ => "VIOL implementation answered neither ok nor err: " ++ impl

def genericMonitor (kind : String) (impl : String) : String :=
  match fields impl with
  | "ok" :: rest =>
    match kind with
    | "eds" => edsMonitor impl
    | "rds" => GrpcModel.XdsInv.rdsMonitor rest
    | "cds" => GrpcModel.XdsInv.cdsMonitor rest
    | "lds" => GrpcModel.XdsInv.ldsMonitor rest
    | _ => "-"
  | ["err", _] => "ok"
  | _ => "VIOL implementation answered neither ok nor err: " ++ impl

def step (_ : Unit) (fs : List String) (impl : String) : Unit × String × String :=
  match fs with
  | "eds" :: rest =>
    match parseAll pEdsOp rest with
    | some (env, _, cla) =>
      let out := match unmarshal env cla with
        | .ok u => showUpdate u
        | .error e => "err " ++ showErr e
      ((), out, edsMonitor impl)
    | none => ((), "bad-op", "-")
  | ["wc", ws] =>
    match natList ws with
    | some l => ((), GrpcModel.XdsInv.showWc (GrpcModel.XdsInv.weightedClusters l), GrpcModel.XdsInv.wcMonitor l impl)
    | none => ((), "bad-op", "-")
  | ["raw", kind, _] => ((), "*", genericMonitor kind impl)
  | "gen" :: kind :: _ => ((), "*", genericMonitor kind impl)
  | _ => ((), "bad-op", "-")

def run : IO Unit := Driver.run () step

end GrpcModel.Driver.Xdsparse
