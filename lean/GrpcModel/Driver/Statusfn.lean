import GrpcModel.Driver.Loop
import GrpcModel.Model.Status
/-! component `statusfn` (C10, tie T1): the pure functions on the status path, see
    harness/cmd/impl/c_statusfn.go for the op list. No monitor (the property is judged end to end
    by `s_status`); this component only ties the codec models to the code. -/
namespace GrpcModel.Driver.Statusfn
open GrpcModel.Driver GrpcModel.Status GrpcModel.Headers GrpcModel
open GrpcModel.Base64 (Bytes)

def parseDetails (s : String) : Option (List AnyPB) :=
  if s = "-" then some [] else
  (s.splitOn ",").mapM fun p =>
    match p.splitOn "." with
    | [u, v] => do
      let u ← unhex u
      let v ← unhex v
      pure ⟨u, v⟩
    | _ => none

def showDetails (ds : List AnyPB) : String :=
  if ds.isEmpty then "-" else ",".intercalate (ds.map fun d => hex d.typeUrl ++ "." ++ hex d.value)

def showSt (s : Status) : String := s!"{s.code} {hex s.msg} {showDetails s.details}"

def model (fs : List String) : Option String :=
  match fs with
  | ["encmsg", h] => do pure (hex (StatusMsg.encode (← unhex h)))
  | ["decmsg", h] => do pure (hex (StatusMsg.decode (← unhex h)))
  | ["b64enc", h] => do pure (hex (Base64.encodeBinHeader (← unhex h)))
  | ["b64dec", h] => do
    match Base64.decodeBinHeader (← unhex h) with
    | some b => pure ("ok " ++ hex b)
    | none => pure "err"
  | ["marshal", c, m, d] => do
    match marshal ⟨← c.toNat?, ← unhex m, ← parseDetails d⟩ with
    | some b => pure ("ok " ++ hex b)
    | none => pure "err"
  | ["unmarshal", h] => do
    match unmarshal (← unhex h) with
    | some s => pure ("ok " ++ showSt s)
    | none => pure "err"
  | ["nwp", c, m, vs] => do
    let vals ← if vs = "-" then some [] else (vs.splitOn ",").mapM fun v => if v = "~" then some [] else unhex v
    match newWithProto (← c.toNat?) (← unhex m) vals with
    | .status s => pure ("st " ++ showSt s)
    | .mismatch _ _ => pure "mismatch"
    | _ => pure "?"
  | _ => none

def run : IO Unit := Driver.run () (pureStep fun fs => (model fs).getD "bad-op")

end GrpcModel.Driver.Statusfn
