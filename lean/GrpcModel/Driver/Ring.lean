import GrpcModel.Driver.Loop
import GrpcModel.Model.Ring
/-! component `ring` (C37). Ops: see harness/cmd/impl/c_ring.go.
Model output: the `Float` instance of the generic `newRing` (bit-exact with the Go code).
Monitor: the property's predicates, in exact rational arithmetic, on the IMPLEMENTATION's ring. -/
namespace GrpcModel.Driver.Ring
open GrpcModel.Driver GrpcModel.Ring

structure St where
  eps : List Endpoint := []          -- key order
  minSize : Nat := 0
  maxSize : Nat := 0
  items : List RingEntry := []       -- the model's ring
  implItems : List (Nat × Nat) := [] -- the implementation's ring (hash, ep) as it printed it
  bal : BalState := {}
  hashTab : List (String × Array Nat) := []
  prevKey : String := ""             -- canonical text of the previous endpoint set + bounds
  prevItems : String := ""

def parseEp (s : String) : Option (Endpoint × Array Nat) :=
  match s.splitOn ":" with
  | [k, w, hs] => do
    let w ← w.toNat?
    let hs ← if hs = "" then some [] else (hs.splitOn ";").mapM String.toNat?
    pure (⟨k, w⟩, hs.toArray)
  | _ => none

def kv (s key : String) : Option String :=
  (s.splitOn " ").findSome? fun p => match p.splitOn "=" with
    | [k, v] => if k = key then some v else none
    | _ => none

def parseItems (s : String) : Option (List (Nat × Nat)) :=
  if s = "-" then some [] else
  (s.splitOn ",").mapM fun p => match p.splitOn ":" with
    | [h, e] => do pure ((← h.toNat?), (← e.toNat?))
    | _ => none

def showItems (l : List (Nat × Nat)) : String :=
  if l.isEmpty then "-" else ",".intercalate (l.map fun (h, e) => s!"{h}:{e}")

/-- exact normalized weight -/
def nwQ (eps : List Endpoint) (i : Nat) : Rat :=
  ((eps.getD i ⟨"", 0⟩).weight : Rat) / (weightSum eps : Rat)

/-- ∃ scale ∈ (n-1, n] with |count_i - scale·nw_i| < 1 for every endpoint: intersect the open
    intervals ((c_i-1)/nw_i, (c_i+1)/nw_i) with (n-1, n]. -/
def proportional (eps : List Endpoint) (counts : List Nat) (n : Nat) : Bool :=
  let idx := List.range eps.length
  -- lower bounds are strict, upper bounds strict except the `≤ n`
  let lo : Rat := idx.foldl (fun m i => max m ((((counts.getD i 0 : Nat) : Rat) - 1) / nwQ eps i)) ((n : Rat) - 1)
  let hi : Rat := idx.foldl (fun m i => min m ((((counts.getD i 0 : Nat) : Rat) + 1) / nwQ eps i)) ((n : Rat) + 1)
  -- some scale with lo < scale < hi and scale ≤ n
  decide (lo < hi) && decide (lo < (n : Rat))

def sortedStrict : List (Nat × Nat) → Bool
  | (a, _) :: (b, e) :: t => a < b && sortedStrict ((b, e) :: t)
  | _ => true

/-- C37 on the ring the real newRing built. -/
def monRing (s : St) (eps : List Endpoint) (minSize maxSize : Nat) (impl : String) (asFloatPort : Bool) : String :=
  match kv impl "n" >>= String.toNat?, kv impl "counts" >>= natList, kv impl "items" >>= parseItems with
  | some n, some counts, some items =>
    if weightSum eps ≠ eps.foldl (fun a e => a + e.weight) 0 || eps.any (·.weight = 0) then "-" else
    if items.length ≠ n || counts.length ≠ eps.length || counts.foldl (· + ·) 0 ≠ n then "VIOL inconsistent ring description"
    else if n > maxSize then s!"VIOL ring has {n} entries, max_ring_size is {maxSize}"
    else if n < minSize then s!"VIOL ring has {n} entries, min_ring_size is {minSize}"
    else if !sortedStrict items then "VIOL ring is not sorted by hash"
    else if !proportional eps counts n then
      (if asFloatPort then
        "VIOL entries per endpoint are not proportional to the normalized weights up to rounding (float64 rounding of targetHashes at an exact boundary, as the port of the unchanged code predicts)"
       else "VIOL entries per endpoint are not proportional to the normalized weights up to rounding")
    else
      let key := s!"{minSize} {maxSize} " ++ " ".intercalate (eps.map fun e => s!"{e.hashKey}:{e.weight}")
      if key = s.prevKey && showItems items ≠ s.prevItems then "VIOL the ring for the same endpoint set differs (depends on update order)"
      else "ok"
  | _, _, _ => "VIOL unparsable answer " ++ impl

def stOfChar (c : Char) : CState :=
  if c = 'I' then .idle else if c = 'C' then .connecting else if c = 'R' then .ready
  else if c = 'T' then .transientFailure else .shutdown

/-- first ring item clockwise from `start` (inclusive) satisfying p -/
def firstFrom (n start : Nat) (p : Nat → Bool) : Option Nat :=
  ((List.range n).map fun i => (start + i) % n).find? p

/-- A61/A76 on the implementation's answer, by linear scans over the implementation's ring. -/
def monWalk (s : St) (random : Bool) (h : Nat) (sts : List CState) (impl : String) : String :=
  let items := s.implItems
  let n := items.length
  if n = 0 then "-" else
  if sts.any (· == .shutdown) then "-" else
  let epOf := fun idx => (items.getD idx (0, 0)).2
  let stOf := fun idx => sts.getD (epOf idx) .shutdown
  let start := match (List.range n).find? (fun i => (items.getD i (0, 0)).1 ≥ h) with
    | some i => i
    | none => 0
  let res := (impl.splitOn " ").headD ""
  let exits := (kv impl "exit" >>= natList).getD []
  let epRes : Option Nat := match res.splitOn "=" with
    | ["ep", v] => v.toNat?
    | _ => none
  if !random then
    if !exits.isEmpty then "VIOL a pick with a request hash called exitIdle" else
    match firstFrom n start (fun i => stOf i != .transientFailure) with
    | some i => if epRes = some (epOf i) then "ok" else s!"VIOL request-hash pick did not go to the first non-TRANSIENT_FAILURE entry clockwise (endpoint {epOf i})"
    | none => if epRes = some (epOf start) then "ok" else "VIOL all endpoints in TRANSIENT_FAILURE: pick did not return the first entry's failure"
  else
    if exits.length > 1 then "VIOL random-hash pick triggered more than one connection attempt" else
    let hasConnecting := sts.any (· == .connecting)
    if hasConnecting && !exits.isEmpty then "VIOL random-hash pick triggered a connection attempt although an endpoint is CONNECTING" else
    match firstFrom n start (fun i => stOf i == .ready) with
    | some i =>
      if epRes ≠ some (epOf i) then s!"VIOL random-hash pick did not return the first READY endpoint clockwise (endpoint {epOf i})"
      else
        -- an exitIdle may only hit the first IDLE entry met before the READY one
        match exits with
        | [] => "ok"
        | e :: _ =>
          let before := ((List.range n).map fun k => (start + k) % n).takeWhile (· ≠ i)
          if before.any (fun k => epOf k = e && stOf k == .idle) then "ok" else "VIOL exitIdle on an endpoint that is not an IDLE entry before the READY one"
    | none =>
      let anyIdle := (List.range n).any (fun i => stOf i == .idle)
      if hasConnecting || anyIdle then
        (if res = "queue" then
            (if !hasConnecting && exits.length ≠ 1 then "VIOL no READY endpoint, none CONNECTING, an IDLE one on the ring: exactly one connection attempt expected" else "ok")
         else "VIOL no READY endpoint but a connection in progress or requested: the pick must be queued")
      else if epRes = some (epOf start) then "ok" else "VIOL all endpoints in TRANSIENT_FAILURE: pick did not return the first entry's failure"

def showWalk (s : St) (r : WalkResult × List Nat) : String :=
  let epOf := fun idx => (s.items.getD idx ⟨0, 0, 0⟩).ep
  let res := match r.1 with
    | .delegate idx => s!"ep={epOf idx}"
    | .queue => "queue"
    | .panic => "PANIC Found child balancer in unknown state: SHUTDOWN"
  s!"{res} exit={showNatList (r.2.map epOf)}"

def step : Step St := fun s fs impl =>
  match fs with
  | ["ring", minS, maxS, epsS] =>
    match minS.toNat?, maxS.toNat?, (epsS.splitOn ",").mapM parseEp with
    | some minSize, some maxSize, some parsed =>
      let eps := sortByKey (parsed.map (·.1))
      -- hash tables in key order
      let tables : Array (Array Nat) := (eps.map fun e => ((parsed.find? (·.1.hashKey = e.hashKey)).map (·.2)).getD #[]).toArray
      let counts := ringCounts (α := Float) eps minSize maxSize
      let short := (List.zip counts tables.toList).any fun (c, t) => c > t.size
      let hashOf := fun k j => (tables.getD k #[]).getD j 0
      let items := sortByHash (entriesOf hashOf counts 0)
      let out := if short then "hash-table-too-short" else
        s!"n={items.length} counts={showNatList counts} items={showItems (items.map fun e => (e.hash, e.ep))}"
      let verdict := monRing s eps minSize maxSize impl (out == impl)
      let implItems := (kv impl "items" >>= parseItems).getD []
      let key := s!"{minSize} {maxSize} " ++ " ".intercalate (eps.map fun e => s!"{e.hashKey}:{e.weight}")
      ({ eps := eps, minSize := minSize, maxSize := maxSize, items := items, implItems := implItems,
         prevKey := key, prevItems := showItems implItems }, out, verdict)
    | _, _, _ => (s, "bad-op", "-")
  | ["bal", minS, maxS, epsS] =>
    match minS.toNat?, maxS.toNat?, (epsS.splitOn ",").mapM parseEp with
    | some minSize, some maxSize, some parsed =>
      let eps := sortByKey (parsed.map (·.1))
      -- entry hashes: the generator's independent xxhash of "<key>_<idx>" (sent with the first update of a case)
      let known := ((parsed.filter (fun p => p.2.size > 0)).map fun p => (p.1.hashKey, p.2)) ++ s.hashTab
      let tables : Array (Array Nat) := (eps.map fun e => ((known.find? (·.1 = e.hashKey)).map (·.2)).getD #[]).toArray
      let counts := ringCounts (α := Float) eps minSize maxSize
      let hashOf := fun k j => (tables.getD k #[]).getD j 0
      let fresh := sortByHash (entriesOf hashOf counts 0)
      let bal' := balUpdate s.bal eps minSize maxSize fresh
      let short := bal'.ring.any (·.hash = 0)
      let out := if short then "hash-table-too-short" else
        s!"n={bal'.ring.length} counts={showNatList ((List.range eps.length).map fun k => (bal'.ring.filter (·.ep = k)).length)} items={showItems (bal'.ring.map fun e => (e.hash, e.ep))}"
      -- the property on the ring the real balancer now holds: bounds of the CURRENT config, sorted, proportional
      let verdict := monRing { s with prevKey := "" } eps minSize maxSize impl (out == impl)
      let implItems := (kv impl "items" >>= parseItems).getD []
      ({ s with eps := eps, minSize := minSize, maxSize := maxSize, items := bal'.ring, implItems := implItems,
                bal := bal', hashTab := known, prevKey := "" }, out, verdict)
    | _, _, _ => (s, "bad-op", "-")
  | ["pick", hS] =>
    match hS.toNat? with
    | some h =>
      if s.items.isEmpty then (s, "no-ring", "-") else
      let i := ringPick s.items h
      let n := s.implItems.length
      let want := match (List.range n).find? (fun i => (s.implItems.getD i (0, 0)).1 ≥ h) with
        | some i => i
        | none => 0
      let v := if impl.toNat? = some want then "ok" else s!"VIOL ring.pick is not the first entry clockwise with hash >= the request hash (index {want})"
      (s, toString i, v)
    | none => (s, "bad-op", "-")
  | ["next", iS] =>
    match iS.toNat? with
    | some i =>
      if s.items.isEmpty then (s, "no-ring", "-") else
      if i ≥ s.items.length then (s, "bad-op", "-") else
      let n := s.implItems.length
      let v := if impl.toNat? = some ((i + 1) % n) then "ok" else "VIOL ring.next is not the next entry clockwise"
      (s, toString (ringNext s.items.length i), v)
    | none => (s, "bad-op", "-")
  | [w, hS, stS] =>
    if w ≠ "walk" && w ≠ "rwalk" then (s, "bad-op", "-") else
    match hS.toNat? with
    | some h =>
      if s.items.isEmpty then (s, "no-ring", "-") else
      if stS.length ≠ s.eps.length then (s, "bad-op", "-") else
      let sts := stS.toList.map stOfChar
      let stOf := fun idx => sts.getD (s.items.getD idx ⟨0, 0, 0⟩).ep .shutdown
      let hasConnecting := sts.any (· == .connecting)
      let r := pickerPick s.items stOf hasConnecting (w = "rwalk") h
      (s, showWalk s r, monWalk s (w = "rwalk") h sts impl)
    | none => (s, "bad-op", "-")
  | _ => (s, "bad-op", "-")

def run : IO Unit := Driver.run {} step

end GrpcModel.Driver.Ring
