import GrpcModel.Driver.Loop
import GrpcModel.Model.InFlowConn
/-!
component `s_inflowconn` (C04, tie T2): a real `http2Client` with dynamic window (BDP) against a scripted
HTTP/2 server; op language and output format in `harness/synct/c_inflowconn_test.go`.

MODEL side.  Every event of an op is translated into steps of the verified connection model
`InFlowConn.cstep` (per-stream `inFlow` + peer ghost; theorems `conn_streams_exact`,
`conn_accepts_iff_fits`, `new_stream_window`) plus the connection `TrInFlow`, and the WINDOW_UPDATE /
RST_STREAM frames and all bookkeeping fields the real transport shows afterwards are PREDICTED and
compared.  Three things are taken from the implementation's answer instead of being predicted, because
the model has no clock / scheduler: which queued NewStream got registered (`H<sid>`, `new=`), whether a
BDP ping went out (`P`), and the window the float-valued BDP estimator chose (`S<iws>`).  What the code
then does with them (the limit a newly registered stream gets, the limits of the active streams, the
increments) is predicted.

MONITOR side (property predicate on the implementation's frames only).  The peer-side ledger: the
connection window, the advertised initial window (65535 until a SETTINGS says otherwise) and every
stream's window = initial window in force where its HEADERS sits in the frame order + SETTINGS deltas +
WINDOW_UPDATEs − flow-controlled bytes sent.  A stream that only ever received DATA fitting that window
must not be reset with FLOW_CONTROL_ERROR; DATA exceeding it must be; no window may exceed 2^31−1.
-/
namespace GrpcModel.Driver.S_inflowconn
open GrpcModel.Driver GrpcModel.InFlow GrpcModel.InFlowConn

/-- reader-side state of a stream: payload chunks queued (head may be partly consumed), a blocked Read -/
structure RdSt where
  sid : Nat
  chunks : List Nat := []
  pend : Option Nat := none        -- bytes a blocked Read(n) still wants

/-- peer-side ledger entry -/
structure PWin where
  sid : Nat
  win : Int
  excess : Bool := false           -- the peer sent DATA exceeding this stream's window
  delivered : Nat := 0             -- payload bytes sent on it in frames that fitted
  readDone : Nat := 0              -- bytes of completed application reads

structure DSt where
  started : Bool := false
  c : Conn := Conn.init 65535
  tf : TrInFlow := { limit := 65535 }
  rd : List RdSt := []
  wmap : List (Nat × Nat) := []    -- worker → stream id (0 = dead: closed or reset)
  known : List Nat := []           -- workers for which `new` was issued
  mmap : List (Nat × Nat) := []    -- monitor's worker → stream id, from the implementation's `new=` only
  -- monitor
  pIws : Nat := 65535
  pConn : Int := 65535
  pConnBad : Bool := false
  pw : List PWin := []
  mreq : List (Nat × Nat) := []    -- worker → size of its current Read request (from the ops)

structure Acc where
  st : DSt
  toks : List String := []         -- predicted frames, in order
  rdDone : List String := []       -- predicted finished reads `w:ok` / `w:err`

def sidOf (st : DSt) (w : Nat) : Option Nat := (st.wmap.find? (fun e => e.1 == w)).map (·.2)
def workerOf (st : DSt) (sid : Nat) : Option Nat := (st.wmap.find? (fun e => e.2 == sid)).map (·.1)

def tok (a : Acc) (t : String) : Acc := { a with toks := a.toks ++ [t] }

def wtok (a : Acc) (sid w : Nat) : Acc := if w = 0 then a else tok a s!"W{sid}:{w}"

/-- run one per-stream op through the verified model; returns its answer -/
def sop (a : Acc) (sid : Nat) (op : Op) : Acc × Option Out :=
  match a.st.c.get sid with
  | none => (a, none)
  | some s => ({ a with st := { a.st with c := cstep a.st.c (.sop sid op) } }, some (step s op).2)

def setRd (st : DSt) (r : RdSt) : DSt := { st with rd := st.rd.map (fun x => if x.sid == r.sid then r else x) }
def getRd (st : DSt) (sid : Nat) : Option RdSt := st.rd.find? (fun x => x.sid == sid)

/-- the stream is gone from activeStreams: a blocked reader gets an error -/
def killStream (a : Acc) (sid : Nat) : Acc :=
  let a := match getRd a.st sid, workerOf a.st sid with
    | some r, some w => if r.pend.isSome then { a with rdDone := a.rdDone ++ [s!"{w}:err"] } else a
    | _, _ => a
  { a with st := { a.st with rd := a.st.rd.filter (fun x => x.sid != sid),
                             wmap := a.st.wmap.map (fun e => if e.2 == sid then (e.1, 0) else e),
                             c := cstep a.st.c (.closeS sid) } }

/-- the reader loop of `Stream.read`: consume queued chunks, one `updateWindow` per piece -/
partial def consume (a : Acc) (sid : Nat) : Acc :=
  match getRd a.st sid with
  | none => a
  | some r =>
    match r.pend, r.chunks with
    | some 0, _ =>
      let a := { a with st := setRd a.st { r with pend := none } }
      match workerOf a.st sid with
      | some w => { a with rdDone := a.rdDone ++ [s!"{w}:ok"] }
      | none => a
    | some rem, ch :: rest =>
      let k := min ch rem
      let (a, o) := sop a sid (.read k)
      let a := match o with
        | some (.wu w) => wtok a sid w
        | _ => a
      let chunks := if k = ch then rest else (ch - k) :: rest
      let a := { a with st := setRd a.st { r with chunks := chunks, pend := some (rem - k) } }
      consume a sid
    | _, _ => a

def splitTok (t : String) : String × List String :=
  -- "W3:100" → ("W", ["3","100"]);  "S120000" → ("S", ["120000"]);  "P" → ("P", [])
  match t.toList with
  | [] => ("", [])
  | c :: rest => (String.singleton c, if rest.isEmpty then [] else (String.ofList rest).splitOn ":")

def implField (pfx : String) (impl : String) : String :=
  match (impl.splitOn " ").filterMap (fun p => if p.startsWith pfx then some (p.drop pfx.length).toString else none) with
  | x :: _ => x
  | [] => "-"

def listOf (s : String) : List String := if s = "-" || s = "" then [] else s.splitOn ","

/-- register the streams the implementation says were opened (`H<sid>` in frame order) -/
def openFromImpl (a : Acc) (implEv implNew : List String) : Acc :=
  let a := implEv.foldl (fun a t =>
    match splitTok t with
    | ("H", [sid]) =>
      match sid.toNat? with
      | some sid =>
        let a := tok a t
        { a with st := { a.st with c := cstep a.st.c (.openS sid), rd := a.st.rd ++ [{ sid := sid }] } }
      | none => a
    | _ => a) a
  implNew.foldl (fun a e =>
    match e.splitOn ":" with
    | [w, sid] =>
      match w.toNat?, sid.toNat? with
      | some w, some sid => { a with st := { a.st with wmap := a.st.wmap.filter (fun x => x.1 != w) ++ [(w, sid)],
                                                        mmap := a.st.mmap.filter (fun x => x.1 != w) ++ [(w, sid)] } }
      | _, _ => a
    | _ => a) a

def showFields (st : DSt) : String :=
  let ss := st.c.streams.map (fun e => s!"{e.1}:{e.2.f.limit},{e.2.f.pd},{e.2.f.pu},{e.2.f.delta}")
  s!"iws={st.c.iws} conn={st.tf.limit},{st.tf.unacked} st=" ++ (if ss.isEmpty then "-" else ";".intercalate ss)

def insertStr (x : String) : List String → List String
  | [] => [x]
  | y :: t => if x ≤ y then x :: y :: t else y :: insertStr x t
def sortStr (l : List String) : List String := l.foldl (fun acc x => insertStr x acc) []
def showL (l : List String) : String := if l.isEmpty then "-" else ",".intercalate l

def insertNat (x : Nat) : List Nat → List Nat
  | [] => [x]
  | y :: t => if x ≤ y then x :: y :: t else y :: insertNat x t

def pendOf (st : DSt) : List String :=
  let ws := st.rd.filterMap (fun r => if r.pend.isSome then workerOf st r.sid else none)
  (ws.foldl (fun acc x => insertNat x acc) []).map toString

/-! ### the monitor: peer-side ledger on the implementation's frames -/

def maxWin : Int := 2147483647

def monTok (st : DSt) (t : String) : DSt × Option String :=
  match splitTok t with
  | ("H", [sid]) =>
    match sid.toNat? with
    | some sid => ({ st with pw := st.pw ++ [{ sid := sid, win := st.pIws }] }, none)
    | none => (st, none)
  | ("S", [v]) =>
    match v.toNat? with
    | some v =>
      let d : Int := (v : Int) - st.pIws
      let pw := st.pw.map (fun p => { p with win := p.win + d })
      let bad := pw.any (fun p => p.win > maxWin)
      ({ st with pIws := v, pw := pw }, if bad then some "advertised stream window exceeds 2^31-1" else none)
    | none => (st, none)
  | ("W", [sid, inc]) =>
    match sid.toNat?, inc.toNat? with
    | some 0, some inc =>
      let c := st.pConn + inc
      ({ st with pConn := c }, if c > maxWin then some "advertised connection window exceeds 2^31-1" else none)
    | some sid, some inc =>
      let pw := st.pw.map (fun p => if p.sid == sid then { p with win := p.win + inc } else p)
      let bad := pw.any (fun p => p.win > maxWin)
      ({ st with pw := pw }, if bad then some "advertised stream window exceeds 2^31-1" else none)
    | _, _ => (st, none)
  | ("R", [sid, code]) =>
    match sid.toNat? with
    | some sid =>
      let e := st.pw.find? (fun p => p.sid == sid)
      let st' := { st with pw := st.pw.filter (fun p => p.sid != sid) }
      match e with
      | some p =>
        if code = "3" && !p.excess && !st.pConnBad then
          (st', some "stream reset with FLOW_CONTROL_ERROR although the peer stayed within the windows it was given")
        else (st', none)
      | none => (st', none)
    | none => (st, none)
  | _ => (st, none)

def monToks (st : DSt) (ts : List String) : DSt × Option String :=
  ts.foldl (fun (acc : DSt × Option String) t =>
    let (s, e) := monTok acc.1 t
    (s, if acc.2.isSome then acc.2 else e)) (st, none)

/-- the peer sends `size` flow-controlled bytes on `sid`: ledger update; is it within the windows? -/
def monData (st : DSt) (sid size len : Nat) : DSt × Bool :=
  let connOk := (size : Int) ≤ st.pConn
  let st := { st with pConn := st.pConn - size, pConnBad := st.pConnBad || !connOk }
  match st.pw.find? (fun p => p.sid == sid) with
  | none => (st, false)
  | some p =>
    let fits := (size : Int) ≤ p.win
    ({ st with pw := st.pw.map (fun q => if q.sid == sid then
          { q with win := q.win - size, excess := q.excess || !fits,
                   delivered := if fits && !q.excess then q.delivered + len else q.delivered } else q) },
     !fits && connOk)

/-- completed reads reported by the implementation (`rd=w:ok`) are credited to their streams -/
def monReads (st : DSt) (implRd : List String) : DSt :=
  implRd.foldl (fun st e =>
    match e.splitOn ":" with
    | [w, res] =>
      match w.toNat? with
      | some w =>
        let n := ((st.mreq.find? (fun x => x.1 == w)).map (·.2)).getD 0
        let sid := ((st.mmap.find? (fun x => x.1 == w)).map (·.2)).getD 0
        let st := { st with mreq := st.mreq.filter (fun x => x.1 != w) }
        if res = "ok" then
          { st with pw := st.pw.map (fun q => if q.sid == sid then { q with readDone := q.readDone + n } else q) }
        else st
      | none => st
    | _ => st) st

/-- "no wedge" on the frames: a stream on which everything delivered has been read (its reader is blocked
    waiting for more, or the completed reads add up to the payload sent) must hold a restored window
    (`InFlow.connRestored`: the advertised initial window up to a batched credit strictly below a quarter) -/
def monRestored (st : DSt) (implPend : List String) : Option String :=
  if st.pConnBad then none else
  st.pw.findSome? (fun p =>
    let w := (st.mmap.find? (fun x => x.2 == p.sid)).map (·.1)
    let blocked := match w with | some w => implPend.contains (toString w) | none => false
    if !p.excess && (blocked || p.delivered == p.readDone) && !connRestored p.win st.pIws then
      some s!"all delivered data read on stream {p.sid} but the window the peer holds is not restored to within a quarter of the advertised window"
    else none)

/-! ### one op -/

def step (st : DSt) (fs : List String) (impl : String) : DSt × String × String :=
  let implHead := match impl.splitOn " " with | h :: _ => h | [] => ""
  let implEv := listOf (implField "ev=" impl)
  let implNew := listOf (implField "new=" impl)
  let a0 : Acc := { st := { st with started := true } }
  -- MODEL
  let (a, head, predictable) : Acc × String × Bool :=
    match fs with
    | ["conn", _] =>
      -- handshake: nothing flow-control relevant is predicted (dynamic window: no SETTINGS value, no WU)
      (a0, "", true)
    | ["new", w] =>
      match w.toNat? with
      | some w =>
        if a0.st.known.contains w then (a0, "dup", true) else
        (openFromImpl { a0 with st := { a0.st with known := w :: a0.st.known } } implEv implNew, "done", true)
      | none => (a0, "bad-op", true)
    | ["sleep", _] => (a0, "done", true)
    | ["pingack"] =>
      if implHead = "noping" then (a0, "noping", true) else
      -- bdpEst.calculate: the chosen window is the implementation's (float estimator)
      let sv := implEv.filterMap (fun t => match splitTok t with | ("S", [v]) => v.toNat? | _ => none)
      match sv with
      | n :: _ =>
        let (tf, inc) := a0.st.tf.newLimit n
        let a := wtok a0 0 inc
        let a := tok a s!"S{n}"
        ({ a with st := { a.st with tf := tf, c := cstep a.st.c (.bdp n) } }, "done", true)
      | [] => (a0, "done", true)
    | ["sdata", w, len, pad] =>
      match w.toNat?, len.toNat? with
      | some w, some len =>
        match sidOf a0.st w with
        | none => (a0, "nosid", true)
        | some 0 => (a0, "*", false)      -- data on a stream the client already dropped: only the connection ledger moves; not predicted
        | some sid =>
          let padded := pad.toNat?
          let size := match padded with | some p => 1 + len + p | none => len
          -- connection level
          let (tf, w0) := a0.st.tf.onData size
          let a := wtok { a0 with st := { a0.st with tf := tf } } 0 w0
          let a := if implEv.contains "P" then
              let (tf, w1) := a.st.tf.reset
              tok (wtok { a with st := { a.st with tf := tf } } 0 w1) "P"
            else a
          if size = 0 then (a, "done", true) else
          let (a, o) := sop a sid (.data size (padded.map (fun _ => size - len)))
          match o with
          | some .rejected =>
            let a := tok a s!"R{sid}:3"
            (killStream a sid, "done", true)
          | some .accepted =>
            let a := match padded with
              | some _ =>
                let (a, o) := sop a sid (.pad (size - len))
                match o with | some (.wu w) => wtok a sid w | _ => a
              | none => a
            let a := if len > 0 then
                match getRd a.st sid with
                | some r => { a with st := setRd a.st { r with chunks := r.chunks ++ [len] } }
                | none => a
              else a
            (consume a sid, "done", true)
          | _ => (a, "done", true)
      | _, _ => (a0, "bad-op", true)
    | ["read", w, n] =>
      match w.toNat?, n.toNat? with
      | some w, some n =>
        match sidOf a0.st w with
        | none => (a0, "nosid", true)
        | some 0 => (a0, "*", false)
        | some sid =>
          match getRd a0.st sid with
          | none => (a0, "*", false)
          | some r =>
            if r.pend.isSome then (a0, "busy", true) else
            let (a, o) := sop a0 sid (.req n)
            let a := match o with | some (.wu w) => wtok a sid w | _ => a
            let a := { a with st := setRd a.st { r with pend := some n } }
            (consume a sid, "done", true)
      | _, _ => (a0, "bad-op", true)
    | ["sclose", w] =>
      match w.toNat? with
      | some w =>
        match sidOf a0.st w with
        | none => (a0, "nosid", true)
        | some 0 => (a0, "*", false)
        | some sid =>
          -- trailers: the client closes the stream (RST_STREAM NO_ERROR: it never half-closed), quota is
          -- released and queued NewStreams may get registered
          let a := tok a0 s!"R{sid}:0"
          let a := killStream a sid
          (openFromImpl a implEv implNew, "done", true)
      | none => (a0, "bad-op", true)
    | _ => (a0, "bad-op", true)
  let mo :=
    if !predictable || head = "*" then "*"
    else if head = "bad-op" then "bad-op"
    else match fs with
      | ["conn", _] => "*"     -- handshake frames are not flow-control accounting
      | _ =>
        let newS := showL (sortStr implNew)
        s!"{head} ev={showL a.toks} new={newS} rd={showL (sortStr a.rdDone)} pend={showL (pendOf a.st)} | {showFields a.st}"
  -- MONITOR (implementation's frames only)
  let ms := a.st
  let (ms, dataVerdict) : DSt × Option String :=
    match fs with
    | ["sdata", w, len, pad] =>
      match w.toNat?, len.toNat? with
      | some w, some len =>
        -- the monitor keeps its own worker → sid view from the implementation's `new=` reports
        let sid := (st.mmap.find? (fun e => e.1 == w)).map (·.2)
        match sid with
        | some sid =>
          if implHead = "nosid" then (ms, none) else
          let size := match pad.toNat? with | some p => 1 + len + p | none => len
          let (ms, mustReject) := monData ms sid size len
          if mustReject && !implEv.contains s!"R{sid}:3" then
            (ms, some "DATA exceeding the advertised stream window was accepted")
          else (ms, none)
        | none => (ms, none)
      | _, _ => (ms, none)
    | _ => (ms, none)
  let (ms, tokVerdict) := monToks ms implEv
  let ms := match fs with
    | ["read", w, n] =>
      match w.toNat?, n.toNat? with
      | some w, some n => if implHead = "done" then { ms with mreq := (w, n) :: ms.mreq.filter (fun x => x.1 != w) } else ms
      | _, _ => ms
    | _ => ms
  let ms := monReads ms (listOf (implField "rd=" impl))
  let restVerdict := if implHead = "done" then monRestored ms (listOf (implField "pend=" impl)) else none
  let verdict := match dataVerdict, tokVerdict, restVerdict with
    | some e, _, _ => "VIOL " ++ e
    | none, some e, _ => "VIOL " ++ e
    | none, none, some e => "VIOL " ++ e
    | none, none, none => if ms.pw.isEmpty && implEv.isEmpty then "-" else "ok"
  (ms, mo, verdict)

def run : IO Unit := Driver.run ({} : DSt) step

end GrpcModel.Driver.S_inflowconn
