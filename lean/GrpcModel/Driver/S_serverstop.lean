import GrpcModel.Driver.Loop
import GrpcModel.Model.ServerStop
/-!
component `s_serverstop` (C25, tie T2); ops and output: harness/synct/c_serverstop_test.go
-/
namespace GrpcModel.Driver.S_serverstop
open GrpcModel.Driver GrpcModel.ServerStop

structure DS where
  st : Option St
  stopCalled : Bool          -- a stop op was issued (the harness then shows pending/returned)
  stopKind : String          -- "" | "gstop" | "stop"
  codes : List (Nat × Nat)   -- handler r was told to return code (for the monitor)
deriving Repr

def idNum (s : String) : Option Nat := (s.drop 1).toString.toNat?

def codeName (c : Nat) : String :=
  match c with
  | 0 => "OK" | 1 => "CANCELLED" | 2 => "UNKNOWN" | 4 => "DEADLINE_EXCEEDED" | 5 => "NOT_FOUND"
  | 13 => "INTERNAL" | 14 => "UNAVAILABLE" | n => s!"CODE_{n}"

def joinOr (l : List String) : String := if l.isEmpty then "-" else ",".intercalate l

def insertSorted (x : Nat × Nat) : List (Nat × Nat) → List (Nat × Nat)
  | [] => [x]
  | y :: ys => if x.1 ≤ y.1 then x :: y :: ys else y :: insertSorted x ys

def showSt (d : DS) (s : St) : String :=
  let run := s.run.map fun r => s!"r{r.1}"
  let ctx := (s.run.filter fun r => match getRpc s r.1 with | some x => x.ctxCancelled | none => false).map fun r => s!"r{r.1}"
  -- what a raw peer sees: the connection going away is EOF (code 99 here), not a status
  let rawView (x : Rpc) : Option Nat :=
    match getConn s x.conn with
    | some conn =>
      if conn.raw then
        (match x.cli with
         | some c => if c = codeUnavailable then some 99 else some c
         | none => if x.sent ∧ !conn.srvAlive then some 99 else none)
      else x.cli
    | none => x.cli
  let cl := (s.rpcs.filterMap fun x => (rawView x).map fun c => (x.id, c)).foldl (fun acc x => insertSorted x acc) []
  let cli := cl.map fun (r, c) => s!"r{r}:{if c = 99 then "EOF" else codeName c}"
  let stop := if !d.stopCalled then "none" else if s.returned then "returned" else "pending"
  s!"run={joinOr run} ctx={joinOr ctx} cli={joinOr cli} stop={stop}"

/-! ### C25 on the implementation's answer -/

def parseList (s : String) : List String := if s = "-" then [] else s.splitOn ","

def field (fs : List String) (k : String) : String :=
  ((fs.find? (·.startsWith (k ++ "="))).map fun s => (s.drop (k.length + 1)).toString).getD "?"

/-- `before`/`after`: model state before and after the op (used ONLY for the bookkeeping the
    statement refers to: which connection an RPC belongs to, which RPCs were started before the
    stop call, which the client cancelled, what a handler was told to return). -/
def monitor (d : DS) (before after : St) (fs : List String) (impl : String) : String :=
  let ifs := fields impl
  let run := (parseList (field ifs "run")).filterMap idNum
  let ctx := (parseList (field ifs "ctx")).filterMap idNum
  let cli := (parseList (field ifs "cli")).filterMap fun x =>
    match x.splitOn ":" with | [r, c] => (idNum r).map fun n => (n, c) | _ => none
  let stop := field ifs "stop"
  let cliOf (r : Nat) : Option String := (cli.find? (·.1 = r)).map (·.2)
  -- (1) per connection at most cap handlers
  let over := after.conns.find? fun c => (run.filter fun r => rpcConn after r = c.id).length > after.cap
  if let some c := over then s!"VIOL more than {after.cap} handlers run at once on connection c{c.id}"
  -- (2) GracefulStop returned while a handler is still running
  else if d.stopKind = "gstop" ∧ stop = "returned" ∧ !run.isEmpty then
    "VIOL GracefulStop returned while handlers are still running"
  -- (3) no RPC started after the stop call is ever dispatched to a handler
  else if run.any (fun r => match getRpc after r with | some x => !x.whileServing | none => true) then
    "VIOL a handler runs for an RPC that was started after Stop/GracefulStop was called (or is unknown)"
  else match fs with
    | ["finish", r, code] =>
      match idNum r, code.toNat? with
      | some r, some code =>
        match getRpc before r with
        | some x =>
          -- (4) an accepted RPC that nobody cancelled completes with the handler's status
          if x.running ∧ x.cli.isNone ∧ before.phase ≠ .hard then
            if cliOf r = some (codeName code) then "ok"
            else s!"VIOL RPC r{r} did not complete with the handler's status {codeName code}"
          else "ok"
        | none => "ok"
      | _, _ => "ok"
    | ["stop"] =>
      -- (5) Stop cancels every handler's context; every unfinished RPC is non-OK at its client
      if run.any (fun r => !ctx.contains r) then "VIOL Stop left a running handler with a live context"
      else if before.rpcs.any (fun x => x.sent ∧ x.cli.isNone ∧ (cliOf x.id).isNone) then
        "VIOL an unfinished RPC has no result at its client after Stop"
      else if before.rpcs.any (fun x => x.sent ∧ x.cli.isNone ∧ cliOf x.id = some "OK") then
        "VIOL an unfinished RPC completed OK at its client after Stop"
      else "ok"
    | _ => "ok"

def step : Step DS := fun d fs impl =>
  match d.st, fs with
  | none, "serve" :: n :: rest =>
    match n.toNat? with
    | some cap =>
      -- `w<k>` (grpc.NumStreamWorkers) only changes WHICH goroutine runs a handler, never whether or
      -- when it runs: the model is the same with and without stream workers
      let s := init cap (rest.contains "wait")
      let d' := { d with st := some s }
      (d', showSt d' s, "-")
    | none => (d, "bad-op", "-")
  | some s, _ =>
    let res : Option (St × DS) :=
      match fs with
      | ["dial", c] => (idNum c).map fun c => (apply s (.dial c), d)
      | ["rawdial", c] => (idNum c).map fun c => (apply s (.rawdial c), d)
      | ["rawstart", c, r] => match idNum c, idNum r with
        | some c, some r => some (apply s (.rawstart c r), d)
        | _, _ => none
      | ["start", c, r] => match idNum c, idNum r with
        | some c, some r => some (apply s (.start c r), d)
        | _, _ => none
      | ["cancel", r] => (idNum r).map fun r => (apply s (.cancel r), d)
      | ["finish", r, code] => match idNum r, code.toNat? with
        | some r, some code => some (apply s (.finish r code), { d with codes := (r, code) :: d.codes })
        | _, _ => none
      | ["gstop"] => some (apply s .gstop, { d with stopCalled := true, stopKind := if d.stopKind = "" then "gstop" else d.stopKind })
      | ["stop"] => some (apply s .stop, { d with stopCalled := true, stopKind := "stop" })
      | _ => none
    match res with
    | some (s', d') =>
      let d'' := { d' with st := some s' }
      (d'', showSt d'' s', monitor d'' s s' fs impl)
    | none => (d, "bad-op", "-")
  | none, _ => (d, "bad-op", "-")

def run : IO Unit := Driver.run { st := none, stopCalled := false, stopKind := "", codes := [] } step

end GrpcModel.Driver.S_serverstop
