import GrpcModel.Driver.Loop
import GrpcModel.Model.LbConnState
/-! component `cse` (C35): the real `balancer.ConnectivityStateEvaluator`.

    add <S> | change <i> <S> | remove <i>     legal use: the harness keeps the child list and passes the
                                              child's real previous state to RecordTransition
    rt <old> <new>                            raw RecordTransition (also illegal histories: underflow)
    cur                                       CurrentState
  answer: `<state> <numReady>,<numConnecting>,<numTransientFailure>,<numIdle>` -/
namespace GrpcModel.Driver.Cse
open GrpcModel.Driver GrpcModel.LbConnState

structure DSt where
  c : CSE := {}
  kids : List ConnState := []
  /-- false once a raw `rt` made the history one the property does not speak about -/
  legal : Bool := true

def showCSE (c : CSE) (s : ConnState) : String :=
  s!"{s.letter} {c.numReady.toNat},{c.numConnecting.toNat},{c.numTransientFailure.toNat},{c.numIdle.toNat}"

/-- C35 on one answer: after a legal history the reported state is the precedence-rule state of
    the multiset of child states. -/
def monitor (d : DSt) (impl : String) : String :=
  if !d.legal then "-" else
  match (impl.splitOn " ").head? >>= ConnState.parse with
  | none => "VIOL unparsable answer"
  | some s =>
    if s = prec d.kids then "ok"
    else s!"VIOL aggregated state {s.letter} but the precedence rule gives {(prec d.kids).letter}"

def step (d : DSt) (fs : List String) (impl : String) : DSt × String × String :=
  let fin (d' : DSt) : DSt × String × String := (d', showCSE d'.c d'.c.currentState, monitor d' impl)
  match fs with
  | ["add", s] =>
    match ConnState.parse s with
    | some st => if st = .shutdown then (d, "bad-op", "-") else
      let p := track (d.c, d.kids) (.add st); fin { d with c := p.1, kids := p.2 }
    | none => (d, "bad-op", "-")
  | ["change", i, s] =>
    match i.toNat?, ConnState.parse s with
    | some i, some st => if st = .shutdown ∨ i ≥ d.kids.length then (d, "bad-op", "-") else
      let p := track (d.c, d.kids) (.change i st); fin { d with c := p.1, kids := p.2 }
    | _, _ => (d, "bad-op", "-")
  | ["remove", i] =>
    match i.toNat? with
    | some i => if i ≥ d.kids.length then (d, "bad-op", "-") else
      let p := track (d.c, d.kids) (.remove i); fin { d with c := p.1, kids := p.2 }
    | none => (d, "bad-op", "-")
  | ["rt", o, n] =>
    match ConnState.parse o, ConnState.parse n with
    | some o, some n => fin { d with c := (d.c.recordTransition o n).1, legal := false }
    | _, _ => (d, "bad-op", "-")
  | ["cur"] => fin d
  | _ => (d, "bad-op", "-")

def run : IO Unit := Driver.run ({} : DSt) step

end GrpcModel.Driver.Cse
