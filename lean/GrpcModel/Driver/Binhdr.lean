import GrpcModel.Driver.Loop
import GrpcModel.Model.ServerAdmission
/-! component `binhdr` (C12, T1): `bin <hex>` → decodeBinHeader accepts; `ct <hex>` → ContentSubtype's boolean -/
namespace GrpcModel.Driver.Binhdr
open GrpcModel.Driver GrpcModel.ServerAdmission

def model (fs : List String) : String :=
  match fs with
  | ["bin", h] => match unhex h with
    | some bs => if binHeaderOK bs then "ok" else "err"
    | none => "bad-op"
  | ["ct", h] => match unhex h with
    | some bs => if validContentType bs then "ok" else "err"
    | none => "bad-op"
  | _ => "bad-op"

def run : IO Unit := Driver.run () (pureStep model)

end GrpcModel.Driver.Binhdr
