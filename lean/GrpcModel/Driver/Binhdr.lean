import GrpcModel.Driver.Loop
import GrpcModel.Model.ServerAdmission
/-! component `binhdr` (C12, T1): the pure helpers the admission model ports.
`bin <hex>` → decodeBinHeader accepts; `ct <hex>` → ContentSubtype's boolean;
`to <hex>` → decodeTimeout accepts (the monitor holds the answer against the wire grammar
`1*8DIGIT unit`: a malformed grpc-timeout that decodes is a request the server would hand on) -/
namespace GrpcModel.Driver.Binhdr
open GrpcModel.Driver GrpcModel.ServerAdmission

def model (fs : List String) : String :=
  match fs with
  | ["bin", h] => match unhex h with
    | some bs => if binHeaderOK bs then "ok" else "err"
    | none => "bad-op"
  | ["ct", h] => match unhex h with
    | some bs => if validContentType bs then "ok" else "err"
    | none => "bad-op"
  | ["to", h] => match unhex h with
    | some bs => if (GrpcModel.Timeout.decodeBytes bs).isSome then "ok" else "err"
    | none => "bad-op"
  | _ => "bad-op"

def monitor (fs : List String) (impl : String) : String :=
  match fs with
  | ["to", h] => match unhex h with
    | some bs =>
      if impl == "ok" && !GrpcModel.Timeout.wellFormed bs then
        "VIOL decodeTimeout accepts a grpc-timeout outside 1*8DIGIT unit: a request carrying it is not rejected as malformed"
      else if impl == "err" && GrpcModel.Timeout.wellFormed bs then "VIOL decodeTimeout rejects a well-formed grpc-timeout"
      else "ok"
    | none => "-"
  | _ => "-"

def run : IO Unit := Driver.run () (pureStepMon model monitor)

end GrpcModel.Driver.Binhdr
