import GrpcModel.Driver.Loop
import GrpcModel.Driver.Matchers
import GrpcModel.Model.Routing
/-! component `routing` (C46)

    vhost <host> <vh>|<vh>…      → index | none                      (FindBestMatchingVirtualHost)
    frac <fraction> <t>          → 1|0                               (fractionMatcher with the draw pinned to t)
    fraccount <fraction>         → count=<n>                         (how many of the 10^6 draws match)
    wrrcount <w1,w2,…>           → bound=<n> counts=<c1,c2,…>        (clusters chosen over every draw of the WRR)
    select <chanID> <method> <md> <emd|none> <draws|-> <wrrDraw> <route>…
                                 → route=<i> cluster=<name> hash=<u64|rand> | err=nomatch|action|internal

  Encodings as in harness/cmd/impl/c_routing.go. The fraction comparison the model uses (`<=` as the code is, or `<`)
  is read off the regenerated source text of `fractionMatcher.match` (T4); the monitor always holds the
  implementation to the statement (`t < f`: exactly f of the 10^6 draws). -/
namespace GrpcModel.Driver.Routing
open GrpcModel.Driver GrpcModel.Matchers GrpcModel.Routing
open GrpcModel.Driver.Matchers (strOf boolOf mdOf show01)

/-- the source text of the fixed function: with it the model runs the `<` variant. -/
def fixedSrc : String := "func (fm *fractionMatcher) match() bool { t := RandInt64n(1000000) return t < fm.fraction }"
def strict : Bool := Generated.fractionMatchSrc == fixedSrc

/-! #### parsing -/

def pathOf (s : String) : Option PathMatcher :=
  match s.splitOn ":" with
  | [k, p] => do
    let p ← strOf p
    match k with
    | "e0" => some (newPathExact p false) | "e1" => some (newPathExact p true)
    | "p0" => some (newPathPrefix p false) | "p1" => some (newPathPrefix p true)
    | _ => none
  | _ => none

def hdrOf (s : String) : Option HeaderMatcher :=
  match s.splitOn ":" with
  | ["se", k, p, i] => do some (.string (← strOf k) (newSM .exact (← strOf p) false) (← boolOf i))
  | ["sp", k, p, i] => do some (.string (← strOf k) (newSM .prefix (← strOf p) false) (← boolOf i))
  | ["pr", k, p, i] => do some (newPresent (← strOf k) (← boolOf p) (← boolOf i))
  | ["rg", k, a, b, i] => do some (.range (← strOf k) (← a.toInt?) (← b.toInt?) (← boolOf i))
  | _ => none

def hashPolOf (s : String) : Option HashPolicy :=
  match s.splitOn ":" with
  | ["h", n, t] => do some (.header (← strOf n) (← boolOf t))
  | ["c", t] => do some (.channelID (← boolOf t))
  | _ => none

def listOf {α} (s : String) (sep : String) (f : String → Option α) : Option (List α) :=
  if s = "~" then some [] else (s.splitOn sep).mapM f

/-- cluster entries: (printed name, weight). -/
def clustersOf (i : Nat) (s : String) : Option (List (String × Nat)) :=
  if s = "~" then some []
  else if s.startsWith "csp:" then some [(s!"cluster_specifier_plugin:{i}/{(s.drop 4).toString}", 1)]
  else (s.splitOn ",").mapM fun c =>
    match c.splitOn ":" with
    | [n, w] => do some (s!"cluster:{i}/{n}", ← w.toNat?)
    | _ => none

structure PRoute where
  route : Route
  names : List String

def routeOf (i : Nat) (s : String) : Option PRoute :=
  match s.splitOn "/" with
  | [p, hs, fr, act, cl, hp] => do
    let path ← pathOf p
    let headers ← listOf hs "+" hdrOf
    let fraction ← if fr = "-" then some none else fr.toNat?.map some
    let action ← if act = "r" then some Action.route else if act = "u" then some Action.other else none
    let cls ← clustersOf i cl
    let pols ← listOf hp "+" hashPolOf
    some { route := { path, headers, fraction, action, clusters := cls.map fun (n, w) => (n.toUTF8.toList.map UInt8.toNat, w),
                      hashPolicies := pols },
           names := cls.map (·.1) }
  | _ => none

def routesOf : Nat → List String → Option (List PRoute)
  | _, [] => some []
  | i, s :: rest => do
    let r ← routeOf i s
    let rs ← routesOf (i + 1) rest
    some (r :: rs)

def vhsOf (s : String) : Option (List (List Str)) :=
  if s = "_" then some []
  else (s.splitOn "|").mapM fun v => if v = "~" then some [] else (v.splitOn ",").mapM strOf

def showOptNat : Option Nat → String
  | none => "none"
  | some i => toString i

def showResult (rs : List PRoute) : SelectResult → String
  | .noMatch => "err=nomatch"
  | .unsupportedAction => "err=action"
  | .noCluster => "err=internal"
  | .picked i c h =>
    let name := ((rs[i]?).bind (·.names[c]?)).getD "?"
    let hs := match h with | none => "rand" | some v => toString v.toNat
    s!"route={i} cluster={name} hash={hs}"

structure Sel where
  chanID : UInt64
  method : Str
  md : MD
  emd : Option MD
  draws : List Nat
  wrrDraw : Nat
  routes : List PRoute

def selOf (fs : List String) : Option Sel :=
  match fs with
  | "select" :: ch :: m :: md :: emd :: ds :: w :: rts => do
    let ch ← ch.toNat?
    let m ← strOf m
    let md ← mdOf md
    let emd ← if emd = "none" then some none else (mdOf emd).map some
    let ds ← natList ds
    let w ← w.toNat?
    let rs ← routesOf 0 rts
    if ds.length < rs.length then none
    else some ⟨UInt64.ofNat ch, m, md, emd, ds, w, rs⟩
  | _ => none

def Sel.run (s : Sel) (strictF : Bool) : SelectResult :=
  selectConfig strictF XXH.sum64 s.chanID (s.routes.map (·.route)) s.method s.md s.emd s.draws s.wrrDraw

/-- the statement's answer for this RPC: first route matching with `t < f`, cluster by weight, and the hash computed
    from the projection of the RPC onto the chosen route's hash-policy inputs only. -/
def Sel.spec (s : Sel) : SelectResult :=
  match s.run true with
  | .picked i c _ =>
    match s.routes[i]? with
    | some r =>
      let pols := r.route.hashPolicies
      .picked i c (generateHash XXH.sum64 s.chanID (hashValues (Spec.projectMD pols s.md) (s.emd.map (Spec.projectMD pols))) pols)
    | none => .noMatch
  | r => r

def wrrCounts (ws : List Nat) : String :=
  let n := wrrBound ws
  let picks := (List.range n).map (wrrNext ws)
  let counts := (List.range ws.length).map fun i => picks.countP (· == some i)
  s!"bound={n} counts={showNatList counts}"

def model (fs : List String) : String :=
  match fs with
  | ["vhost", h, vs] => match strOf h, vhsOf vs with
    | some h, some vs => showOptNat (findBestVHost h vs)
    | _, _ => "bad-op"
  | ["frac", f, t] => match f.toNat?, t.toNat? with
    | some f, some t => show01 (fractionMatch strict f t)
    | _, _ => "bad-op"
  | ["fraccount", f] => match f.toNat? with
    -- closed form of the count over all 10^6 draws (theorems fraction_count_as_is / fraction_exact_after_fix)
    | some f => s!"count={if strict then min f million else min (f + 1) million}"
    | none => "bad-op"
  | ["wrrcount", ws] => match natList ws with
    | some ws => if ws.isEmpty then "bad-op" else wrrCounts ws
    | none => "bad-op"
  | "select" :: _ => match selOf fs with
    | some s => showResult s.routes (s.run strict)
    | none => "bad-op"
  | _ => "bad-op"

def parseCounts (impl : String) : Option (Nat × List Nat) :=
  match impl.splitOn " " with
  | [b, c] =>
    if b.startsWith "bound=" && c.startsWith "counts=" then do
      let n ← (b.drop 6).toString.toNat?
      let cs ← natList (c.drop 7).toString
      some (n, cs)
    else none
  | _ => none

/-- C46 on one implementation answer. -/
def monitor (fs : List String) (impl : String) : String :=
  match fs with
  | ["vhost", h, vs] => match strOf h, vhsOf vs with
    | some h, some vs =>
      if impl == showOptNat (Spec.bestVHost h vs) then "ok"
      else s!"VIOL virtual host {impl} chosen, best match is {showOptNat (Spec.bestVHost h vs)}"
    | _, _ => "-"
  | ["frac", f, t] => match f.toNat?, t.toNat? with
    | some f, some t =>
      if impl == show01 (decide (t < f)) then "ok"
      else if t == f then s!"VIOL fraction {f} per million matches the draw t={t}: f+1 of the 10^6 draws match (0 matches t=0)"
      else s!"VIOL fraction {f} per million answers {impl} on draw {t}"
    | _, _ => "-"
  | ["fraccount", f] => match f.toNat? with
    | some f =>
      if impl == s!"count={Spec.fractionCount f}" then "ok"
      else if impl == s!"count={f + 1}" then s!"VIOL fraction {f} per million matches f+1 = {f + 1} of the 10^6 draws"
      else s!"VIOL fraction {f} per million: {impl}, specified count={Spec.fractionCount f}"
    | none => "-"
  | ["wrrcount", ws] => match natList ws, parseCounts impl with
    | some ws, some (n, cs) =>
      -- in proportion to the weights: count_i * (sum of weights) = weight_i * (number of draws), for every cluster
      if cs.length == ws.length && n > 0 && cs.sum == n &&
          (List.zip cs ws).all (fun (c, w) => c * ws.sum == w * n) then "ok"
      else s!"VIOL clusters not chosen in proportion to their weights: {impl}"
    | some _, none => "VIOL " ++ impl
    | none, _ => "-"
  | "select" :: _ => match selOf fs with
    | some s =>
      let want := showResult s.routes s.spec
      if impl == want then "ok" else s!"VIOL selection differs from the statement: specified {want}"
    | none => "-"
  | _ => "-"

def run : IO Unit := Driver.run () (pureStepMon model monitor)

end GrpcModel.Driver.Routing
