import GrpcModel.Driver.Loop
import GrpcModel.Model.LoadStore
/-!
component `loadstore` (C50; ties T3 + T1 + concurrent stress).

  spawn <tid> start <l> | finish <l> ok|err | drop <c> | load <l> <n> <v> | stats
  step <tid>     the goroutine performs its next atomic action (runs to its next yield point)
  run <tid>      the goroutine runs until its call returns
  par <reps> <nsnap> <script>…   real concurrency; only totals are predicted

Every state change goes through `GrpcModel.LoadStore.step?` (the transition system the theorems are
about).  The driver only (a) maps an implementation step to the model steps it consists of: one
visible action at the yield point the goroutine was parked at, followed by the actions that have no
yield point of their own in load_store.go (sync.Map lookups, Range advancing, and the SwapUint64
inside the `p.drops.Range` closure, which the instrumenter does not reach), and (b) resolves the
model's nondeterministic Range choices with the oracle `O=` (the current Range order of the real
sync.Maps, probed by the harness).  An oracle answer that the model's Range contract forbids makes
the step `illegal` (a divergence).

The monitor evaluates C50 on the IMPLEMENTATION's outputs only (dumps, returned reports) against the
call log: conservation (Σ reports + residual between returned and invoked amounts, equal when
nothing is in flight) and the in-progress clause (reported value inside the set of values
started − finished takes between the invocation and the return of that stats() call).
-/
namespace GrpcModel.Driver.LoadStore
open GrpcModel.Driver GrpcModel.LoadStore

/-! ### printing (canonical: sorted by key) -/

def sortBy (f : α → Nat) (l : List α) : List α := l.mergeSort (fun a b => f a ≤ f b)

def joinOr (sep : String) (l : List String) : String := if l.isEmpty then "-" else sep.intercalate l

def showLoads (l : List (Nat × Nat × Nat)) : String :=
  "[" ++ ";".intercalate ((sortBy (·.1) l).map fun e => s!"{e.1}:{e.2.1}:{e.2.2}") ++ "]"

def showLoc (lr : LocRep) : String :=
  s!"{lr.loc}:{lr.succ}/{lr.err}/{lr.inprog}/{lr.issued}" ++ showLoads lr.loads

def showLocs (l : List LocRep) : String := joinOr "," ((sortBy (·.loc) l).map showLoc)

def showPairs (l : List (Nat × Nat)) : String := joinOr "," ((sortBy (·.1) l).map fun e => s!"{e.1}:{e.2}")

def showReport (r : Report) : String :=
  if r.isNil then "nil" else s!"T{r.total}|{showPairs r.drops}|{showLocs r.locs}"

def dumpLoc (sh : Shared) (l : Nat) : LocRep :=
  { loc := l, succ := sh.mem (.succ l), err := sh.mem (.err l), inprog := sh.mem (.inprog l), issued := sh.mem (.issued l),
    loads := (namesOf sh l).map fun n => (n, sh.mem (.ldCount l n), sh.mem (.ldSum l n)) }

def showDump (sh : Shared) : String :=
  "D=" ++ showPairs (sh.cats.map fun c => (c, sh.mem (.drop c))) ++ " L=" ++ showLocs (sh.locs.map (dumpLoc sh))

def label : Pc → String
  | .startA _ => "incrInProgress:0" | .startB _ => "incrIssued:0"
  | .finA _ _ => "decrInProgress:0" | .finB _ true => "incrSucceeded:0" | .finB _ false => "incrErrored:0"
  | .dropA _ => "CallDropped:0" | .loadA _ _ _ => "add:lock"
  | .lSucc _ => "loadAndClearSucceeded:0" | .lInp _ _ => "loadInProgress:0"
  | .lErr _ _ _ => "loadAndClearErrored:0" | .lIss _ _ _ _ => "loadAndClearIssued:0"
  | .lLoad _ _ => "loadAndClear:lock" | .sTime => "stats:lock" | .done => "done"
  | _ => "unstarted"

/-! ### parsing the implementation's output -/

def nat? (s : String) : Option Nat := s.toNat?

def parsePairs (s : String) : Option (List (Nat × Nat)) :=
  if s = "-" then some [] else
  (s.splitOn ",").mapM fun e => match e.splitOn ":" with
    | [a, b] => do pure ((← nat? a), (← nat? b))
    | _ => none

def parseLoads (s : String) : Option (List (Nat × Nat × Nat)) :=
  if s = "" then some [] else
  (s.splitOn ";").mapM fun e => match e.splitOn ":" with
    | [a, b, c] => do pure ((← nat? a), (← nat? b), (← nat? c))
    | _ => none

def parseLoc (s : String) : Option LocRep :=
  match s.splitOn "[" with
  | [h, t] =>
    match h.splitOn ":" with
    | [l, cs] =>
      match cs.splitOn "/" with
      | [a, b, c, d] => do
        let loads ← parseLoads ((t.dropEnd 1).toString)
        pure { loc := (← nat? l), succ := (← nat? a), err := (← nat? b), inprog := (← nat? c), issued := (← nat? d), loads := loads }
      | _ => none
    | _ => none
  | _ => none

def parseLocs (s : String) : Option (List LocRep) :=
  if s = "-" then some [] else (s.splitOn ",").mapM parseLoc

def parseReport (s : String) : Option Report :=
  if s = "nil" then some (Report.empty 0) else
  match s.splitOn "|" with
  | [t, d, l] =>
    if t.startsWith "T" then do
      pure { tid := 0, total := (← nat? ((t.drop 1).toString)), drops := (← parsePairs d), locs := (← parseLocs l) }
    else none
  | _ => none

structure Orders where
  cats : List Nat := []
  locs : List Nat := []
  names : List (Nat × List Nat) := []

def parseOrders (s : String) : Option Orders :=
  match s.splitOn "|" with
  | c :: l :: rest => do
    let ns ← rest.mapM fun e => match e.splitOn "=" with
      | [a, b] => do pure ((← nat? a), (← natList b))
      | _ => none
    pure { cats := (← natList c), locs := (← natList l), names := ns }
  | _ => none

structure ImplOut where
  label : String := ""
  drops : List (Nat × Nat) := []
  locs : List LocRep := []
  ordTxt : String := "-|-"
  ord : Orders := {}
  rep : Option Report := none
  ok : Bool := false

def stripPrefix? (p s : String) : Option String := if s.startsWith p then some (s.drop p.length).toString else none

def parseImpl (impl : String) : ImplOut :=
  match impl.splitOn " " with
  | lab :: d :: l :: o :: rest =>
    match stripPrefix? "D=" d, stripPrefix? "L=" l, stripPrefix? "O=" o with
    | some d, some l, some o =>
      match parsePairs d, parseLocs l, parseOrders o with
      | some dp, some lp, some op =>
        let rep := match rest with
          | [r] => (stripPrefix? "rep=" r) >>= parseReport
          | _ => none
        { label := lab, drops := dp, locs := lp, ordTxt := o, ord := op, rep := rep, ok := rest.isEmpty || rep.isSome }
      | _, _, _ => {}
    | _, _, _ => {}
  | _ => {}

/-! ### implementation step ↦ model steps -/

/-- The keys a Range that walks the sync.Map in the (hash) order `order` may call f on next, after
    having visited `vis` (most recent first): it moves forward only, it may skip keys that were
    stored after it started (not in `need`) but not a key that was there from the start; `none` =
    the Range returns (the model checks that this is allowed). -/
def options (order vis need : List Nat) : List (Option Nat) :=
  let after := match vis with
    | [] => order
    | last :: _ => (order.dropWhile (· ≠ last)).tail
  let after := after.filter (fun x => !vis.contains x)
  let rec go : List Nat → List Nat
    | [] => []
    | x :: xs => if need.contains x then [x] else x :: go xs
  (go after).map some ++ [none]

def isSilent : Pc → Bool
  | .startE _ | .finE _ _ | .dropE _ | .loadE _ _ _ | .sDrops | .sDrop _ | .sLocs | .lLoads _ => true
  | _ => false

/-- every way thread `tid` can run the actions that have no yield point of their own -/
def silentAll (o : Orders) (tid : Nat) : Nat → State → List State
  | 0, _ => []
  | fuel + 1, s =>
    match findT s.threads tid with
    | none => []
    | some t =>
      if !isSilent t.pc then [s] else
      let chs : List (Option Nat) := match t.pc with
        | .sDrops => options o.cats t.vis t.need
        | .sLocs => options o.locs t.vis t.need
        | .lLoads lr => options ((o.names.lookup lr.loc).getD []) t.nvis t.nneed
        | _ => [none]
      chs.flatMap fun ch => match step? s (.step tid ch) with
        | none => []
        | some s' => silentAll o tid fuel s'

/-- one implementation step of thread `tid`: all model continuations -/
def advance (o : Orders) (tid : Nat) (s : State) : List State :=
  match findT s.threads tid with
  | none => []
  | some t =>
    if isSilent t.pc then silentAll o tid 1000 s else
    match step? s (.step tid none) with
    | none => []
    | some s' => silentAll o tid 1000 s'

def pcOf (s : State) (tid : Nat) : Pc := ((findT s.threads tid).map (·.pc)).getD .done

/-- thread `tid` runs until its call returns -/
def advanceAll (o : Orders) (tid : Nat) : Nat → List State → List State
  | 0, _ => []
  | fuel + 1, ss =>
    let next := ss.flatMap (advance o tid)
    let (fin, more) := next.partition (fun s => pcOf s tid = .done)
    if more.isEmpty then fin else fin ++ advanceAll o tid fuel more

/-! ### monitor -/

abbrev KMap := List (Key × Nat)
def KMap.get (m : KMap) (k : Key) : Nat := (m.lookup k).getD 0
def KMap.add (m : KMap) (k : Key) (v : Nat) : KMap :=
  if m.any (·.1 == k) then m.map (fun e => if e.1 == k then (e.1, e.2 + v) else e) else m ++ [(k, v)]
def KMap.addAll (m : KMap) (l : List (Key × Nat)) : KMap := l.foldl (fun m e => m.add e.1 e.2) m

abbrev NMap := List (Nat × Nat)
def NMap.get (m : NMap) (k : Nat) : Nat := (m.lookup k).getD 0
def NMap.inc (m : NMap) (k : Nat) : NMap :=
  if m.any (·.1 == k) then m.map (fun e => if e.1 == k then (e.1, e.2 + 1) else e) else m ++ [(k, 1)]

structure Meta where
  tid : Nat
  call : Call
  started : Bool
  done : Bool
  counted : Bool          -- its amounts entered `inv`

structure Window where
  tid : Nat
  rng : List (Nat × Int × Int)   -- per locality: (min of lower bound, max of upper bound) since the invocation

structure Mon where
  inv : KMap := []
  ret : KMap := []
  rep : KMap := []
  invT : Nat := 0
  retT : Nat := 0
  repT : Nat := 0
  sInv : NMap := []
  sRet : NMap := []
  fInv : NMap := []
  fRet : NMap := []
  wins : List Window := []

structure St where
  ms : List State := [init]     -- model states compatible with everything observed so far (they differ
                                -- only in unresolved Range choices of running stats() calls)
  metas : List Meta := []
  mon : Mon := {}

def amounts : Call → List (Key × Nat)
  | .start l => [(.issued l, 1)]
  | .finish l true => [(.succ l, 1)]
  | .finish l false => [(.err l, 1)]
  | .drop c => [(.drop c, 1)]
  | .load l n v => [(.ldCount l n, 1), (.ldSum l n, v)]
  | .stats => []

def Mon.lo (m : Mon) (l : Nat) : Int := (m.sRet.get l : Int) - (m.fInv.get l : Int)
def Mon.hi (m : Mon) (l : Nat) : Int := (m.sInv.get l : Int) - (m.fRet.get l : Int)
def Mon.locs (m : Mon) : List Nat := m.sInv.map (·.1)

def Window.update (w : Window) (m : Mon) : Window :=
  { w with rng := m.locs.map fun l =>
      match w.rng.lookup l with
      | some (a, b) => (l, (min a (m.lo l), max b (m.hi l)))
      | none => (l, (min 0 (m.lo l), max 0 (m.hi l))) }   -- no call on l had been invoked before: 0 so far

def Mon.updateWins (m : Mon) : Mon := { m with wins := m.wins.map (·.update m) }

/-- the call of thread `t` is invoked now -/
def Mon.invoke (m : Mon) (t : Meta) : Mon × Bool :=
  match t.call with
  | .start l => ({ m with inv := m.inv.addAll (amounts t.call), sInv := m.sInv.inc l }, true)
  | .finish l _ =>
    -- domain of the property: CallFinished follows a CallStarted on that locality
    if m.sInv.get l = 0 then (m, false) else ({ m with inv := m.inv.addAll (amounts t.call), fInv := m.fInv.inc l }, true)
  | .drop _ => ({ m with inv := m.inv.addAll (amounts t.call), invT := m.invT + 1 }, true)
  | .load l _ _ => if m.sInv.get l = 0 then (m, false) else ({ m with inv := m.inv.addAll (amounts t.call) }, true)
  | .stats => ({ m with wins := m.wins ++ [{ tid := t.tid, rng := m.locs.map fun l => (l, (m.lo l, m.hi l)) }] }, true)

def repKvs (r : Report) : List (Key × Nat) :=
  r.drops.map (fun e => (Key.drop e.1, e.2)) ++
  r.locs.flatMap fun lr =>
    [(Key.succ lr.loc, lr.succ), (Key.err lr.loc, lr.err), (Key.issued lr.loc, lr.issued)] ++
    lr.loads.flatMap fun e => [(Key.ldCount lr.loc e.1, e.2.1), (Key.ldSum lr.loc e.1, e.2.2)]

/-- in-progress clause for the report returned by thread `tid` -/
def Mon.checkInprog (m : Mon) (tid : Nat) (r : Report) : Option String :=
  match m.wins.find? (·.tid == tid) with
  | none => none
  | some w =>
    w.rng.foldl (fun acc e =>
      match acc with
      | some _ => acc
      | none =>
        let (l, lo, hi) := e
        match r.locs.find? (·.loc == l) with
        | some lr =>
          if lo ≤ (lr.inprog : Int) ∧ (lr.inprog : Int) ≤ hi then none
          else some s!"report says {lr.inprog} in progress for locality {l} but started-finished stayed within [{lo},{hi}] during the snapshot"
        | none =>
          if lo > 0 then some s!"locality {l} had at least {lo} calls in progress during the whole snapshot but is missing from the report"
          else none) none

/-- the call of thread `t` has returned (with report `r` for stats) -/
def Mon.returned (m : Mon) (t : Meta) (r : Option Report) : Mon × Option String :=
  let amt := if t.counted then amounts t.call else []
  match t.call with
  | .start l => ({ m with ret := m.ret.addAll amt, sRet := if t.counted then m.sRet.inc l else m.sRet }, none)
  | .finish l _ => ({ m with ret := m.ret.addAll amt, fRet := if t.counted then m.fRet.inc l else m.fRet }, none)
  | .drop _ => ({ m with ret := m.ret.addAll amt, retT := m.retT + 1 }, none)
  | .load _ _ _ => ({ m with ret := m.ret.addAll amt }, none)
  | .stats =>
    match r with
    | none => (m, some "stats() returned something unparsable")
    | some r =>
      let v := m.checkInprog t.tid r
      ({ m with rep := m.rep.addAll (repKvs r), repT := m.repT + r.total, wins := m.wins.filter (·.tid != t.tid) }, v)

def residual (o : ImplOut) : Key → Nat
  | .drop c => (o.drops.lookup c).getD 0
  | .succ l => ((o.locs.find? (·.loc == l)).map (·.succ)).getD 0
  | .err l => ((o.locs.find? (·.loc == l)).map (·.err)).getD 0
  | .issued l => ((o.locs.find? (·.loc == l)).map (·.issued)).getD 0
  | .inprog l => ((o.locs.find? (·.loc == l)).map (·.inprog)).getD 0
  | .ldCount l n => (((o.locs.find? (·.loc == l)).map (·.loads)).getD []).foldl (fun a e => if e.1 == n then a + e.2.1 else a) 0
  | .ldSum l n => (((o.locs.find? (·.loc == l)).map (·.loads)).getD []).foldl (fun a e => if e.1 == n then a + e.2.2 else a) 0

def showKey : Key → String
  | .drop c => s!"dropped[{c}]" | .succ l => s!"succeeded[{l}]" | .err l => s!"errored[{l}]"
  | .issued l => s!"issued[{l}]" | .inprog l => s!"inprogress[{l}]"
  | .ldCount l n => s!"loadcount[{l},{n}]" | .ldSum l n => s!"loadsum[{l},{n}]"

/-- conservation on the implementation's dump + reports so far -/
def Mon.checkCons (m : Mon) (o : ImplOut) : Option String :=
  let quiet := m.wins.isEmpty
  let keys := (m.inv.map (·.1)) ++ (m.rep.map (·.1))
  let bad := keys.findSome? fun k =>
    if k == Key.drop 0 then none else
    let tot := m.rep.get k + residual o k
    if tot > m.inv.get k then some s!"{showKey k}: reports + residual = {tot} exceeds the {m.inv.get k} recorded (double count)"
    else if quiet ∧ tot < m.ret.get k then some s!"{showKey k}: reports + residual = {tot} but {m.ret.get k} were recorded (lost)"
    else none
  match bad with
  | some b => some b
  | none =>
    let tot := m.repT + (o.drops.map (·.2)).sum
    if tot > m.invT then some s!"total drops: reports + residual = {tot} exceeds the {m.invT} recorded (double count)"
    else if quiet ∧ tot < m.retT then some s!"total drops: reports + residual = {tot} but {m.retT} were recorded (lost)"
    else none

/-! ### `par`: expected totals (by theorem `conservation_quiescent` they do not depend on the interleaving) -/

inductive Tok | s (l : Nat) | f (l : Nat) | e (l : Nat) | d (c : Nat) | w (l n v : Nat)

def parseTok (t : String) : Option Tok :=
  let arg := (t.drop 1).toString
  match t.toList.head? with
  | some 's' => (nat? arg).map .s
  | some 'f' => (nat? arg).map .f
  | some 'e' => (nat? arg).map .e
  | some 'd' => (nat? arg).map .d
  | some 'w' => match arg.splitOn "." with
    | [a, b, c] => do pure (.w (← nat? a) (← nat? b) (← nat? c))
    | _ => none
  | _ => none

def parseScript (s : String) : Option (List Tok) := (s.splitOn ",").mapM parseTok

def tokAmounts : Tok → List (Key × Nat)
  | .s l => [(.issued l, 1)] | .f l => [(.succ l, 1)] | .e l => [(.err l, 1)] | .d c => [(.drop c, 1)]
  | .w l n v => [(.ldCount l n, 1), (.ldSum l n, v)]

/-- (max prefix balance, net balance) of starts − finishes on locality l in one pass of a script -/
def balance (l : Nat) (sc : List Tok) : Int × Int :=
  sc.foldl (fun (acc : Int × Int) t =>
    let d : Int := match t with
      | .s l' => if l' = l then 1 else 0
      | .f l' | .e l' => if l' = l then -1 else 0
      | _ => 0
    let cur := acc.2 + d
    (max acc.1 cur, cur)) (0, 0)

def showNZ (l : List (Nat × Nat)) : String := showPairs (l.filter (·.2 != 0))

def parExpected (reps : Nat) (scripts : List (List Tok)) : String :=
  let all : KMap := scripts.foldl (fun m sc => sc.foldl (fun m t => m.addAll ((tokAmounts t).map fun e => (e.1, e.2 * reps))) m) []
  let pick (f : Key → Option Nat) : List (Nat × Nat) := all.filterMap fun e => (f e.1).map fun k => (k, e.2)
  let iss := pick fun | .issued l => some l | _ => none
  let suc := pick fun | .succ l => some l | _ => none
  let er := pick fun | .err l => some l | _ => none
  let dr := pick fun | .drop c => if c = 0 then none else some c | _ => none
  let total := (all.filterMap fun e => match e.1 with | .drop _ => some e.2 | _ => none).sum
  let lds := all.filterMap fun e => match e.1 with | .ldCount l n => some (l, n, e.2, all.get (.ldSum l n)) | _ => none
  let lds := lds.mergeSort (fun a b => a.1 < b.1 ∨ (a.1 = b.1 ∧ a.2.1 ≤ b.2.1))
  let ls := joinOr "," (lds.map fun e => s!"{e.1}.{e.2.1}:{e.2.2.1}:{e.2.2.2}")
  s!"par issued={showNZ iss} succ={showNZ suc} err={showNZ er} drops={showNZ dr} total={total} loads={ls}"

def parMonitor (reps : Nat) (scripts : List (List Tok)) (impl : String) : String :=
  match impl.splitOn " | " with
  | [sums, rest] =>
    if sums ≠ parExpected reps scripts then
      s!"VIOL conservation: all reports + residual give `{sums}` but the recorded events are `{parExpected reps scripts}`"
    else
      match rest.splitOn " " with
      | [a, b] =>
        match (stripPrefix? "inpmax=" a) >>= parsePairs, (stripPrefix? "inpfinal=" b) >>= parsePairs with
        | some mx, some fin =>
          let locs := (scripts.flatMap fun sc => sc.filterMap fun | .s l => some l | _ => none).eraseDups
          let bad := locs.findSome? fun l =>
            let bs := scripts.map (balance l)
            let bound : Int := (bs.map fun (mp, net) => ((reps : Int) - 1) * (max net 0) + mp).foldl (· + ·) 0
            let final : Int := (bs.map fun (_, net) => (reps : Int) * net).foldl (· + ·) 0
            let gotMax : Int := ((mx.lookup l).getD 0 : Nat)
            let gotFin : Int := ((fin.lookup l).getD 0 : Nat)
            if gotMax > bound then some s!"VIOL a concurrent report says {gotMax} in progress for locality {l}; at most {bound} were ever started and unfinished"
            else if gotFin ≠ final then some s!"VIOL final report says {gotFin} in progress for locality {l}; started - finished = {final}"
            else none
          bad.getD "ok"
        | _, _ => "VIOL unparsable par output"
      | _ => "VIOL unparsable par output"
  | _ => "VIOL unparsable par output"

/-! ### the component step -/

def parseCall : List String → Option Call
  | ["start", l] => (nat? l).map .start
  | ["finish", l, "ok"] => (nat? l).map (.finish · true)
  | ["finish", l, "err"] => (nat? l).map (.finish · false)
  | ["drop", c] => (nat? c).map .drop
  | ["load", l, n, v] => do pure (.load (← nat? l) (← nat? n) (← nat? v))
  | ["stats"] => some .stats
  | _ => none

def lastReport (s : State) : String := (s.reports.getLast?.map showReport).getD "none"

def fingerprint (s : State) : String :=
  toString (repr (s.threads.filter (·.pc != .done))) ++ showDump s.sh

def dedup (ss : List State) : List State :=
  if ss.length ≤ 4 then ss else
  (ss.foldl (fun (acc : List (String × State)) s =>
    let f := fingerprint s
    if acc.any (·.1 == f) then acc else acc ++ [(f, s)]) []).map (·.2)

def stepRun (st : St) (tid : Nat) (all : Bool) (impl : String) : St × String × String :=
  match st.metas.find? (·.tid == tid) with
  | none => (st, "bad-op", "-")
  | some mt =>
    if mt.done then (st, "finished-thread", "-") else
    let o := parseImpl impl
    -- invocation
    let (mon, mt) := if mt.started then (st.mon, mt) else
      let (mon, counted) := st.mon.invoke mt
      (mon, { mt with started := true, counted := counted })
    let mon := mon.updateWins
    -- model: all continuations, then keep those that explain the implementation's answer
    let outOf (old : State) (m' : State) : String :=
      let pc := pcOf m' tid
      label pc ++ " " ++ showDump m'.sh ++ " O=" ++ o.ordTxt ++
        (if pc = .done ∧ mt.call = .stats ∧ m'.reports.length > old.reports.length then " rep=" ++ lastReport m' else "")
    let cands : List (State × String) := st.ms.flatMap fun m =>
      (if all then advanceAll o.ord tid 100000 [m] else advance o.ord tid m).map fun m' => (m', outOf m m')
    let good : List (State × String) := cands.filter (fun c => c.2 == impl)
    let r : List State × String := match good, cands with
      | g :: gs, _ => (dedup ((g :: gs).map (fun (c : State × String) => c.1)), g.2)
      | [], c :: _ => ([c.1], c.2)
      | [], [] => (st.ms, "illegal")
    let ms' := r.1
    let mout := r.2
    -- monitor on the implementation's answer
    let implDone := o.label = "done"
    let (mon, v1) := if implDone then mon.returned mt (if mt.call = .stats then o.rep else none) else (mon, none)
    let mon := mon.updateWins
    let verdict :=
      if !o.ok then "-" else
      match v1 with
      | some v => "VIOL " ++ v
      | none => match mon.checkCons o with
        | some v => "VIOL " ++ v
        | none => "ok"
    let mt := { mt with done := implDone }
    ({ ms := ms', metas := st.metas.map (fun x => if x.tid == tid then mt else x), mon := mon }, mout, verdict)

def step (st : St) (fs : List String) (impl : String) : St × String × String :=
  match fs with
  | "spawn" :: tid :: call =>
    match nat? tid, parseCall call with
    | some tid, some c =>
      match st.ms.filterMap (step? · (.spawn tid c)) with
      | m' :: ms' => ({ st with ms := m' :: ms', metas := st.metas ++ [{ tid := tid, call := c, started := false, done := false, counted := false }] }, "ok", "-")
      | [] => (st, "bad-op", "-")
    | _, _ => (st, "bad-op", "-")
  | ["step", tid] => match nat? tid with
    | some tid => stepRun st tid false impl
    | none => (st, "bad-op", "-")
  | ["run", tid] => match nat? tid with
    | some tid => stepRun st tid true impl
    | none => (st, "bad-op", "-")
  | "par" :: reps :: _nsnap :: scripts =>
    match nat? reps, scripts.mapM parseScript with
    | some reps, some scs =>
      let tail := match impl.splitOn " | " with
        | [_, r] => " | " ++ r
        | _ => ""
      (st, parExpected reps scs ++ tail, parMonitor reps scs impl)
    | _, _ => (st, "bad-op", "-")
  | _ => (st, "bad-op", "-")

def run : IO Unit := Driver.run ({} : St) step

end GrpcModel.Driver.LoadStore
