import GrpcModel.Driver.Loop
import GrpcModel.Model.WAgg
/-! component `wagg` (C35): the real weighted_target state aggregator (`weightedaggregator.Aggregator`),
    recording ClientConn, recording WRR.

    start | stop | add <id> <w> | remove <id> | weight <id> <w> | pause | resume | need | upd <id> <S>

  answer: `<push|-> cse=<ready>,<connecting>,<tf>,<idle>`; push = `<S>;<errNoSub|errNoTargets|g:<id>/<picker>/<w>,…>` -/
namespace GrpcModel.Driver.Wagg
open GrpcModel.Driver GrpcModel.WAgg
open GrpcModel.LbConnState (ConnState CSE prec)

def parseOp (fs : List String) : Option Op :=
  match fs with
  | ["start"] => some .start | ["stop"] => some .stop
  | ["pause"] => some .pause | ["resume"] => some .resume | ["need"] => some .needUpd
  | ["add", id, w] => do pure (.add (← id.toNat?) (← w.toNat?))
  | ["remove", id] => do pure (.remove (← id.toNat?))
  | ["weight", id, w] => do pure (.weight (← id.toNat?) (← w.toNat?))
  | ["upd", id, st] => do pure (.upd (← id.toNat?) (← ConnState.parse st))
  | _ => none

def insertBy (a : Nat × Nat × Nat) : List (Nat × Nat × Nat) → List (Nat × Nat × Nat)
  | [] => [a]
  | b :: t => if a.1 < b.1 ∨ (a.1 = b.1 ∧ a.2.2 ≤ b.2.2) then a :: b :: t else b :: insertBy a t

def showPicker : PickerD → String
  | .errNoSub => "errNoSub" | .errNoTargets => "errNoTargets"
  | .group ms =>
    -- the initial ErrPicker of a child that never reported is anonymous: child 0
    let ms := (ms.map fun m => if m.2.1 = 0 then (0, 0, m.2.2) else m).foldr insertBy []
    "g:" ++ ",".intercalate (ms.map fun m => s!"{m.1}/{m.2.1}/{m.2.2}")

def showPush : Option Push → String
  | none => "-"
  | some p => s!"{p.state.letter};{showPicker p.picker}"

def showCse (c : CSE) : String :=
  s!"cse={c.numReady.toNat},{c.numConnecting.toNat},{c.numTransientFailure.toNat},{c.numIdle.toNat}"

/-- the monitor's own view: per child, last reported state and counted state — a child that goes
    TRANSIENT_FAILURE → CONNECTING still counts as TRANSIENT_FAILURE (weighted_target's documented rule) -/
structure Kid where
  id : Nat
  reported : ConnState
  counted : ConnState

structure DSt where
  s : St := {}
  kids : List Kid := []
  stopped : Bool := false

def monitor (kids : List Kid) (impl : String) : String :=
  match (fields impl).head? with
  | none => "VIOL unparsable answer"
  | some "-" => "-"
  | some p =>
    match (p.splitOn ";").head? >>= ConnState.parse with
    | none => "VIOL unparsable answer"
    | some st =>
      let counted := kids.map (·.counted)
      let want := if counted.isEmpty then ConnState.tf else prec counted
      if st = want then "ok"
      else s!"VIOL aggregated state {st.letter} but the children's counted states give {want.letter}"

def step (d : DSt) (fs : List String) (impl : String) : DSt × String × String :=
  match parseOp fs with
  | none => (d, "bad-op", "-")
  | some op =>
    if !(opOk d.s op) then (d, "bad-op", "-") else
    let (s', push) := WAgg.step d.s op
    let kids := match op with
      | .add id _ => d.kids ++ [⟨id, .connecting, .connecting⟩]
      | .remove id => d.kids.filter (·.id ≠ id)
      | .upd id st => d.kids.map fun k =>
          if k.id = id then ⟨id, st, if k.reported = .tf ∧ st = .connecting then k.counted else st⟩ else k
      | _ => d.kids
    let stopped := d.stopped || (match op with | .stop => true | _ => false)
    let v := if stopped then "-" else monitor kids impl
    ({ s := s', kids := kids, stopped := stopped }, s!"{showPush push} {showCse s'.cse}", v)

def run : IO Unit := Driver.run ({} : DSt) step

end GrpcModel.Driver.Wagg
