import GrpcModel.Driver.Loop
import GrpcModel.Model.TimeoutCache
/-!
component `s_timeoutcache` (C57, tie T2: the real TimeoutCache in a synctest bubble, virtual time).
Ops: see harness/synct/c_timeoutcache_test.go.  The driver adds a virtual clock and per-entry
deadlines to the proved transition system and expands every op into a sequence of its rules
(`GrpcModel.TimeoutCache.apply`): e.g. `sleep` = for every armed entry whose deadline has passed
timerFire, timerLock, timerCall; `hremove` = timerFire for the timers due at the instant the held
lock is reached, then `remove`, then timerLock (+ timerCall) for every fired timer.
-/
namespace GrpcModel.Driver.S_timeoutcache
open GrpcModel.Driver GrpcModel.TimeoutCache

def applyD (s : St) (r : Rule) : St := (apply s r).getD s

def ids (s : St) : List Nat := List.range s.n

/-- the runtime starts the timer func of every armed entry whose deadline has been reached -/
def fireDue (s : St) (dl : List (Nat × Nat)) (now : Nat) : St :=
  (ids s).foldl (fun s id =>
    if (s.ent id).tm = .armed ∧ ((dl.find? (·.1 = id)).map (·.2)).getD 0 ≤ now then applyD s (.timerFire id) else s) s

/-- c.mu is free: every timer goroutine that is waiting for it runs to its end -/
def drainTimers (s : St) : St :=
  (ids s).foldl (fun s id =>
    if (s.ent id).tm = .fired then
      let s := applyD s (.timerLock id)
      if (s.ent id).tm = .cb then applyD s (.timerCall id) else s
    else s) s

/-- Clear's second loop: run every collected callback -/
def payOwed (s : St) : St :=
  (ids s).foldl (fun s id => (List.range (s.ent id).owed).foldl (fun s _ => applyD s (.clearCall id)) s) s

def insertSorted (x : Nat) : List Nat → List Nat
  | [] => [x]
  | y :: ys => if x ≤ y then x :: y :: ys else y :: insertSorted x ys

def sortNat (l : List Nat) : List Nat := l.foldl (fun acc x => insertSorted x acc) []

/-- items whose callback ran between `s` and `t`, sorted, with multiplicity -/
def cbDelta (s t : St) : List Nat :=
  sortNat ((ids t).flatMap fun id =>
    List.replicate ((t.ent id).cbRuns - (if id < s.n then (s.ent id).cbRuns else 0)) (t.ent id).item)

def tail (s t : St) : String := s!" cbs={showNatList (cbDelta s t)} len={len t}"

def showOpt : Option Nat → String
  | some v => toString v
  | none => "nil"

/-! ### monitor: C57 (cache clauses) on the implementation's answers only -/

structure Rec where
  item : Nat
  deadline : Nat
  removed : Nat := 0
  clrNoCb : Bool := false
  clrCb : Bool := false
  cbs : Nat := 0

structure Mon where
  recs : List Rec := []
  now : Nat := 0

structure DSt where
  s : St := GrpcModel.TimeoutCache.init
  timeout : Nat := 0
  now : Nat := 0
  dl : List (Nat × Nat) := []
  ready : Bool := false
  mon : Mon := {}

def field (impl key : String) : Option String :=
  (impl.splitOn " ").findSome? fun w =>
    match w.splitOn "=" with
    | [k, v] => if k = key then some v else none
    | _ => none

def updRec (rs : List Rec) (item : Nat) (f : Rec → Rec) : List Rec :=
  rs.map fun r => if r.item = item then f r else r

def live (r : Rec) : Bool := r.removed = 0 && !r.clrNoCb && !r.clrCb && r.cbs = 0

/-- a Remove (or removeInternal) call returned `item` -/
def monRemoved (m : Mon) (item : Nat) : Mon × Option String :=
  match m.recs.find? (·.item = item) with
  | none => (m, some "VIOL Remove returned an item that was never added")
  | some r =>
    let m' := { m with recs := updRec m.recs item fun r => { r with removed := r.removed + 1 } }
    if r.removed ≥ 1 then (m', some "VIOL a removed entry was returned to a second caller")
    else if r.cbs ≥ 1 then (m', some "VIOL Remove returned an entry whose expiry callback had already run")
    else if r.clrCb ∨ r.clrNoCb then (m', some "VIOL Remove returned an entry that Clear had taken")
    else (m', none)

def monCleared (m : Mon) (runCb : Bool) : Mon :=
  { m with recs := m.recs.map fun r =>
      if live r then (if runCb then { r with clrCb := true } else { r with clrNoCb := true }) else r }

def firstSome : List (Option String) → Option String
  | [] => none
  | some v :: _ => some v
  | none :: t => firstSome t

/-- account for the callbacks reported by this op -/
def monAccount (m : Mon) (cbs : List Nat) : Mon × Option String :=
  cbs.foldl (fun (acc : Mon × Option String) it =>
    let (m, e) := acc
    match m.recs.find? (·.item = it) with
    | none => (m, e.orElse fun _ => some "VIOL callback ran for an entry that was never added")
    | some r =>
      let m' := { m with recs := updRec m.recs it fun r => { r with cbs := r.cbs + 1 } }
      let e' := if r.cbs ≥ 1 then some "VIOL expiry callback ran more than once"
        else if r.removed ≥ 1 then some "VIOL callback ran for an entry that Remove had returned"
        else if r.clrNoCb then some "VIOL callback ran for an entry cleared without callbacks"
        else if ¬ r.clrCb ∧ m.now < r.deadline then some "VIOL callback ran before the entry expired"
        else none
      (m', e.orElse fun _ => e')) (m, none)

/-- every entry's fate at quiescence -/
def monQuiesce (m : Mon) : Option String :=
  firstSome (m.recs.map fun r =>
    if r.clrCb ∧ r.cbs ≠ 1 then some "VIOL entry cleared with callbacks but its callback did not run exactly once"
    else if live r ∧ r.deadline ≤ m.now then some "VIOL entry expired but its callback has not run"
    else none)

/-- account for the callbacks reported by this op, then check every entry's fate at quiescence -/
def monFinish (m : Mon) (impl : String) (early : Option String) : Mon × String :=
  match (field impl "cbs") >>= natList with
  | none => (m, "VIOL unparsable: " ++ impl)
  | some cbs =>
    let (m, e1) := monAccount m cbs
    match firstSome [early, e1, monQuiesce m] with
    | some v => (m, v)
    | none => (m, "ok")

def optItem (w : String) : Option (Option Nat) :=
  if w = "nil" then some none else w.toNat?.map some

def monitor (m : Mon) (timeout : Nat) (fs : List String) (impl : String) : Mon × String :=
  if impl.startsWith "PANIC" ∨ impl.startsWith "CRASH" then (m, "-") else
  let w0 := ((impl.splitOn " ").head?).getD ""
  match fs with
  | ["add", _, item] =>
    match item.toNat?, (impl.splitOn " ") with
    | some it, _ :: ok :: _ =>
      let m := if ok = "t" then { m with recs := m.recs ++ [{ item := it, deadline := m.now + timeout }] } else m
      monFinish m impl none
    | _, _ => (m, "VIOL unparsable: " ++ impl)
  | ["remove", _] =>
    match optItem w0 with
    | some (some it) => let (m, e) := monRemoved m it; monFinish m impl e
    | some none => monFinish m impl none
    | none => (m, "VIOL unparsable: " ++ impl)
  | ["clear", b] => monFinish (monCleared m (b = "1")) impl none
  | ["len"] => monFinish m impl none
  | ["sleep", ms] => monFinish { m with now := m.now + ms.toNat?.getD 0 } impl none
  | ["cadd", _, item, _] =>
    match item.toNat?, (field impl "news") >>= String.toNat? with
    | some it, some news =>
      let e := if news > 1 then some "VIOL concurrent Adds of one key: more than one reported a new entry" else none
      let m := if news ≥ 1 then { m with recs := m.recs ++ [{ item := it, deadline := m.now + timeout }] } else m
      monFinish m impl e
    | _, _ => (m, "VIOL unparsable: " ++ impl)
  | ["cremove", _, _] =>
    match (field impl "hits") >>= String.toNat?, (field impl "item") >>= optItem with
    | some hits, some oi =>
      let e0 := if hits > 1 then some "VIOL a removal returned the entry to more than one caller" else none
      match oi with
      | some it => let (m, e) := monRemoved m it; monFinish m impl (e0.orElse fun _ => e)
      | none => monFinish m impl e0
    | _, _ => (m, "VIOL unparsable: " ++ impl)
  | ["rc", _, b] =>
    match (field impl "rem") >>= optItem with
    | some (some it) => let (m, e) := monRemoved m it; monFinish (monCleared m (b = "1")) impl e
    | some none => monFinish (monCleared m (b = "1")) impl none
    | none => (m, "VIOL unparsable: " ++ impl)
  | ["hremove", _, _] =>
    match optItem w0, (field impl "slept") >>= String.toNat? with
    | some oi, some d =>
      let m := { m with now := m.now + d }
      match oi with
      | some it => let (m, e) := monRemoved m it; monFinish m impl e
      | none => monFinish m impl none
    | _, _ => (m, "VIOL unparsable: " ++ impl)
  | ["hrace", _, item, _, _, how] =>
    match item.toNat?, (field impl "slept") >>= String.toNat?, (impl.splitOn " ") with
    | some it, some d, _ :: _ :: ok :: _ =>
      let m := { m with now := m.now + d }
      let cbs := ((field impl "cbs") >>= natList).getD []
      -- Clear(false) raced with timers that had already fired: an entry that is due and whose callback ran
      -- in this op expired first (legitimately); Clear took the others.  (For Remove and Clear(true) the
      -- order does not change what may be reported.)
      let dueRan := if how = "c0" then cbs.filter fun c => (m.recs.find? (·.item = c)).any fun r => live r ∧ r.deadline ≤ m.now
                    else []
      let rest := cbs.filter fun c => ¬ dueRan.contains c
      let (m, e0) := monAccount m dueRan
      -- R: Remove returned an item / Clear took everything that was (still) live
      let (m, e) : Mon × Option String :=
        if how = "r" then
          match (field impl "rem") >>= optItem with
          | some (some r) => monRemoved m r
          | some none => (m, none)
          | none => (m, some "VIOL unparsable")
        else (monCleared m (how = "c1"), none)
      -- the remaining callbacks belong to entries that existed before the re-Add: account for them first
      let (m, v) := monFinish m s!"cbs={showNatList rest}" (e0.orElse fun _ => e)
      let m := if ok = "t" then { m with recs := m.recs ++ [{ item := it, deadline := m.now + timeout }] } else m
      (m, v)
    | _, _, _ => (m, "VIOL unparsable: " ++ impl)
  | ["hclear", b, _] =>
    match (field impl "slept") >>= String.toNat? with
    | some d => monFinish (monCleared { m with now := m.now + d } (b = "1")) impl none
    | none => (m, "VIOL unparsable: " ++ impl)
  | _ => (m, "-")

/-! ### model side -/

/-- the hold-the-lock window: virtual time advances by at most `ms`, stopping at the next deadline -/
def clampSleep (d : DSt) (ms : Nat) : Nat :=
  (ids d.s).foldl (fun acc id =>
    let dlv := ((d.dl.find? (·.1 = id)).map (·.2)).getD 0
    if (d.s.ent id).tm = .armed ∧ dlv > d.now ∧ dlv - d.now < acc then dlv - d.now else acc) ms

def doAdd (d : DSt) (k item : Nat) : DSt × Nat × Bool :=
  let r := addResult d.s k item
  let s' := applyD d.s (.add k item)
  let dl' := if r.2 then d.dl ++ [(d.s.n, d.now + d.timeout)] else d.dl
  ({ d with s := s', dl := dl' }, r.1, r.2)

def model (d : DSt) (fs : List String) (impl : String) : DSt × String :=
  let s := d.s
  match fs.map String.toNat?, fs with
  | [_, some k, some item], ["add", _, _] =>
    let (d', v, ok) := doAdd d k item
    (d', s!"{v} {if ok then "t" else "f"}" ++ tail s d'.s)
  | [_, some k], ["remove", _] =>
    let r := removeResult s k
    let s' := applyD s (.remove k)
    ({ d with s := s' }, showOpt r ++ tail s s')
  | [_, some b], ["clear", _] =>
    let s' := payOwed (applyD s (.clear (b = 1)))
    ({ d with s := s' }, "ok" ++ tail s s')
  | [_], ["len"] => (d, "ok" ++ tail s s)
  | [_, some ms], ["sleep", _] =>
    let now := d.now + ms
    let s' := drainTimers (fireDue s d.dl now)
    ({ d with s := s', now := now }, "ok" ++ tail s s')
  | [_, some k, some item, some _], ["cadd", _, _, _] =>
    -- the critical sections of the n callers run in some order: the first creates (or finds), the rest find
    let (d', v, ok) := doAdd d k item
    (d', s!"news={if ok then 1 else 0} same={v}" ++ tail s d'.s)
  | [_, some k, some _], ["cremove", _, _] =>
    let r := removeResult s k
    let s' := applyD s (.remove k)
    ({ d with s := s' }, s!"hits={if r.isSome then 1 else 0} item={showOpt r}" ++ tail s s')
  | [_, some k, some b], ["rc", _, _] =>
    -- two possible orders of the two critical sections; follow the one the implementation took
    let implNil := (field impl "rem") = some "nil"
    if implNil ∧ (removeResult s k).isSome then
      let s1 := applyD s (.clear (b = 1))
      let s2 := payOwed (applyD s1 (.remove k))
      ({ d with s := s2 }, "rem=" ++ showOpt (removeResult s1 k) ++ tail s s2)
    else
      let r := removeResult s k
      let s' := payOwed (applyD (applyD s (.remove k)) (.clear (b = 1)))
      ({ d with s := s' }, "rem=" ++ showOpt r ++ tail s s')
  | [_, some k, some ms], ["hremove", _, _] =>
    let sl := clampSleep d ms
    let now := d.now + sl
    let s1 := fireDue s d.dl now
    let r := removeResult s1 k
    let s' := drainTimers (applyD s1 (.remove k))
    ({ d with s := s', now := now }, s!"{showOpt r} slept={sl}" ++ tail s s')
  | [_, some k, some item, some ms, _, _], ["hrace", _, _, _, order, how] =>
    let sl := clampSleep d ms
    let now := d.now + sl
    let s1 := fireDue s d.dl now
    let d1 := { d with now := now }
    -- R and A as rules, T = every fired timer goroutine runs to its end
    let doR (s : St) : St × String :=
      if how = "r" then (applyD s (.remove k), showOpt (removeResult s k))
      else (payOwed (applyD s (.clear (how = "c1"))), "-")
    let runOrder (ord : String) : DSt × String :=
      let (sa, rem, d2, v, ok) :=
        if ord = "rat" then
          let (s2, rem) := doR s1
          let (d2, v, ok) := doAdd { d1 with s := s2 } k item
          ({ d2 with s := drainTimers d2.s }.s, rem, d2, v, ok)
        else if ord = "rta" then
          let (s2, rem) := doR s1
          let (d2, v, ok) := doAdd { d1 with s := drainTimers s2 } k item
          (d2.s, rem, d2, v, ok)
        else
          let (s2, rem) := doR (drainTimers s1)
          let (d2, v, ok) := doAdd { d1 with s := s2 } k item
          (d2.s, rem, d2, v, ok)
      ({ d2 with s := sa }, s!"rem={rem} add={v} {if ok then "t" else "f"} slept={sl}" ++ tail s sa)
    -- on one processor the requested order is what happens; should the runtime have let a timer
    -- goroutine in first after all, the implementation's answer says so and the model follows it
    let r1 := runOrder order
    if r1.2 = impl ∨ order = "tra" then r1
    else let r2 := runOrder "tra"; if r2.2 = impl then r2 else r1
  | [_, some b, some ms], ["hclear", _, _] =>
    let sl := clampSleep d ms
    let now := d.now + sl
    let s1 := fireDue s d.dl now
    let s' := payOwed (drainTimers (applyD s1 (.clear (b = 1))))
    ({ d with s := s', now := now }, s!"ok slept={sl}" ++ tail s s')
  | _, _ => (d, "bad-op")

def step : Step DSt := fun d fs impl =>
  match fs with
  | ["new", t] =>
    match t.toNat? with
    | some t => ({ s := GrpcModel.TimeoutCache.init, timeout := t, ready := true }, "ok", "-")
    | none => (d, "bad-op", "-")
  | _ =>
    if ¬ d.ready then (d, "bad-op", "-") else
    let (d', out) := model d fs impl
    let (m', v) := monitor d.mon d.timeout fs impl
    ({ d' with mon := m' }, out, v)

def run : IO Unit := Driver.run ({} : DSt) step

end GrpcModel.Driver.S_timeoutcache
