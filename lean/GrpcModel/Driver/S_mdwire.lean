import GrpcModel.Driver.Loop
import GrpcModel.Model.MdWire
/-!
component `s_mdwire` (C09), one real RPC per op (see harness/synct/c_mdwire_test.go):

    rpc|probe|probeae <path> <md> <added> <hapi> <hmd> <tapi> <tmd> <code>
    → st=<ok|code> in=<md|!> hdr=<md> trl=<md> h=<…> t=<…> ae=<hex|->
    pool <i> <md>                          → ok      (a long-lived metadata.MD object of the handler)
    rpcm <path> <hcalls> <tcalls> <code>   → …same… pool=<objects after the RPC>

`ae` is the grpc-accept-encoding value the client transport of THIS harness binary sends (the
compressors registered in the process; other components of the merged binary register some). It
is an input of the model (`CallCfg.acceptEncoding`), read from the implementation's line.
`probe` is `rpc` with the content-type clause of the monitor switched on (known finding F17),
`probeae` is `rpc` with the grpc-accept-encoding clause switched on (known finding F30): both
leaks happen on every single RPC and are judged on these dedicated ops only.
-/
namespace GrpcModel.Driver.S_mdwire
open GrpcModel.Driver GrpcModel.Status GrpcModel.Headers GrpcModel.MdWire
open GrpcModel.Base64 (Bytes)

/-! ### parsing / printing of metadata arguments -/

def parseVal (s : String) : Option Bytes := if s = "~" then some [] else unhex s

/-- `keyhex=v,v;keyhex=v` (a raw MD literal; `keyhex=` = key without values). -/
def parseMD (s : String) : Option MD :=
  if s = "-" then some [] else
  (s.splitOn ";").mapM fun p =>
    match p.splitOn "=" with
    | [k, vs] => do
      let k ← unhex k
      let vals ← if vs = "" then some [] else (vs.splitOn ",").mapM parseVal
      pure (k, vals)
    | _ => none

def parsePairs (s : String) : Option (List (Bytes × Bytes)) :=
  if s = "-" then some [] else
  (s.splitOn ";").mapM fun p =>
    match p.splitOn "=" with
    | [k, v] => do pure (← unhex k, ← parseVal v)
    | _ => none

def lexLt : Bytes → Bytes → Bool
  | [], [] => false
  | [], _ :: _ => true
  | _ :: _, [] => false
  | a :: as, b :: bs => a < b || (a == b && lexLt as bs)

def insertSorted (kv : Bytes × List Bytes) : MD → MD
  | [] => [kv]
  | x :: rest => if lexLt kv.1 x.1 then kv :: x :: rest else x :: insertSorted kv rest

def sortMD (md : MD) : MD := md.foldl (fun acc kv => insertSorted kv acc) []

def showVal (v : Bytes) : String := if v.isEmpty then "~" else hex v

def showMD (md : MD) : String :=
  if md.isEmpty then "-" else
  ";".intercalate ((sortMD md).map fun kv => hex kv.1 ++ "=" ++ ",".intercalate (kv.2.map showVal))

structure Op where
  probe : Bool
  probeAE : Bool
  path : String
  mdGiven : Bool
  md : MD
  added : List (Bytes × Bytes)
  hapi : String
  hmd : MD
  tapi : String
  tmd : MD
  code : Nat

def parseOp (fs : List String) : Option Op :=
  match fs with
  | [verb, path, md, added, hapi, hmd, tapi, tmd, code] => do
    if verb ≠ "rpc" ∧ verb ≠ "probe" ∧ verb ≠ "probeae" then none
    if !(["u", "b0", "b1"].contains path) then none
    if !(["none", "ss.set", "ss.send", "ctx.set", "ctx.send"].contains hapi) then none
    if !(["none", "ss.set", "ctx.set"].contains tapi) then none
    pure ⟨verb = "probe", verb = "probeae", path, md ≠ "-", ← parseMD md, ← parsePairs added, hapi, ← parseMD hmd, tapi, ← parseMD tmd, ← code.toNat?⟩
  | _ => none

def cfg0 : CallCfg :=
  { scheme := asciiBytes "http", path := asciiBytes "/v.S/X", authority := asciiBytes "bufnet",
    subtype := asciiBytes "proto", userAgent := asciiBytes "UA" }

/-- the `ae=` token of the implementation's line: what this binary's transport advertises -/
def aeOf (impl : String) : Bytes :=
  match (impl.splitOn " ").find? (·.startsWith "ae=") with
  | some t => (unhex (t.drop 3).toString).getD []
  | none => []

def showCode (c : Nat) : String := if c = 0 then "ok" else toString c

structure Out where
  st : String
  inMD : String
  hdr : String := "-"
  trl : String := "-"
  h : String := "-"
  t : String := "-"
  ae : String := "-"

def Out.show (o : Out) : String := s!"st={o.st} in={o.inMD} hdr={o.hdr} trl={o.trl} h={o.h} t={o.t} ae={o.ae}"

def asciiKeys (o : Op) : Bool := o.added.all fun p => p.1.all (· < 128)

/-- The whole RPC on the model; `ae` = the accept-encoding value of this binary's transport. -/
def model (o : Op) (ae : Bytes) : Out :=
  let cfg : CallCfg := { cfg0 with acceptEncoding := ae }
  let aeS := hex ae
  let added := appendToOutgoing o.added
  match clientSend cfg o.md added with
  | none => { st := "13", inMD := "!", ae := aeS }
  | some fields =>
    match serverRecv fields with
    | .rstProtocol => { st := "13", inMD := "!", ae := aeS }
    | .earlyAbort c =>
      -- trailers-only response written by writeEarlyAbort: :status, content-type, grpc-status, grpc-message
      { st := showCode c, inMD := "!", trl := showMD [(hContentType, [contentTypeOf cfg.subtype])], ae := aeS }
    | .handler inMD =>
      let isStream := o.path ≠ "u"
      -- trailer API
      let (tres, trailer) : String × MD :=
        match o.tapi with
        | "ss.set" => if isStream then ("ok", o.tmd) else ("nostream", [])
        | "ctx.set" => ("ok", o.tmd)
        | _ => ("-", [])
      -- header API
      let (hres, header, sendNow) : String × MD × Bool :=
        match o.hapi with
        | "ss.set" => if !isStream then ("nostream", [], false)
                      else if o.hmd.isEmpty then ("ok", [], false)
                      else if ssHeaderAccepts o.hmd then ("ok", o.hmd, false) else ("13", [], false)
        | "ss.send" => if !isStream then ("nostream", [], false)
                       else if ssHeaderAccepts o.hmd then ("ok", o.hmd, true) else ("13", [], false)
        | "ctx.set" => ("ok", o.hmd, false)
        | "ctx.send" => ("ok", o.hmd, true)
        | _ => ("-", [], false)
      let replies := o.path = "b1" ∨ (o.path = "u" ∧ o.code = 0)
      let headerSent := sendNow || decide replies || !header.isEmpty
      let st : Status := if o.code = 0 then ⟨0, [], []⟩ else ⟨o.code, [115], []⟩
      let base : Out := { st := "", inMD := showMD inMD, h := hres, t := tres, ae := aeS }
      let hdrRes : HdrRes := if headerSent then clientHeaders (headerFrame cfg.subtype header) else .md []
      match hdrRes with
      | .fail c => { base with st := showCode c }
      | .md hm =>
        let tf := writeStatus headerSent cfg.subtype st trailer
        if !wireOK tf then { base with st := "13", hdr := showMD hm }
        else
          let (e, tm) := clientTrailers (!headerSent) tf
          { base with st := showCode e.code, hdr := showMD hm, trl := showMD tm }

/-! ### the C09 predicate on what the implementation did -/

def parseOut (s : String) : Option (String × String × String × String) :=
  match s.splitOn " " with
  | [a, b, c, d, _, _, _] =>
    if a.startsWith "st=" ∧ b.startsWith "in=" ∧ c.startsWith "hdr=" ∧ d.startsWith "trl=" then
      some ((a.drop 3).toString, (b.drop 3).toString, (c.drop 4).toString, (d.drop 4).toString)
    else none
  | _ => none

/-- per-key value lists the user put into the outgoing context, in order (base MD first) -/
def expectedIn (o : Op) : MD :=
  let m := o.md.filter fun kv => !isReservedHeader kv.1
  (appendToOutgoing o.added).foldl (fun acc p => if isReservedHeader p.1 then acc else mdAppend acc p.1 p.2) m

def nonEmptyKeys (md : MD) : MD := md.filter fun kv => !kv.2.isEmpty

def dropKey (md : MD) (k : Bytes) : MD := md.filter fun kv => kv.1 ≠ k

def userVisible (md : MD) : MD := nonEmptyKeys (md.filter fun kv => !isReservedHeader kv.1)

def hasKey (md : MD) (k : Bytes) : Bool := md.any fun kv => kv.1 = k

def monitor (o : Op) (impl : String) : String :=
  match parseOut impl with
  | none => "VIOL unparsable harness output"
  | some (st, inS, hdrS, trlS) =>
    let cfg := cfg0
    let ae := aeOf impl
    let added := appendToOutgoing o.added
    if !asciiKeys o then "-" else
    if !validOutgoing o.md added then
      (if st = "13" ∧ inS = "!" then "ok" else s!"VIOL invalid outgoing metadata did not fail with INTERNAL before anything was sent (st={st} in={inS})")
    else
    let exp := nonEmptyKeys (expectedIn o)
    let special := if hasKey exp hHost then " (user key host)" else if hasKey exp hConnection then " (user key connection)" else ""
    if inS = "!" then s!"VIOL valid metadata but the handler never ran (st={st})" ++ special else
    match parseMD inS, parseMD hdrS, parseMD trlS with
    | some inMD, some hdr, some trl =>
      -- reserved names surfaced to the handler / to the client
      let leak (md : MD) : Option Bytes :=
        (md.find? fun kv => isReservedHeader kv.1 && !isWhitelistedHeader kv.1 && (o.probe || kv.1 ≠ hContentType)).map (·.1)
      match leak inMD, leak hdr, leak trl with
      | some k, _, _ => "VIOL reserved header surfaced to the handler: " ++ hex k
      | _, some k, _ => "VIOL reserved header surfaced in client Header(): " ++ hex k
      | _, _, some k => "VIOL reserved header surfaced in client Trailer(): " ++ hex k
      | none, none, none =>
        -- what the handler saw, minus what the transport is allowed to add
        -- grpc-accept-encoding: the transport's own value (when compressors are registered) comes first
        -- under that key, then the user's values for it; the transport's share is taken off here and,
        -- on `probeae` ops, reported (F30: a transport header surfaced as user metadata)
        let aeSeen := mdGet inMD hAcceptEncoding
        let aeLeak := !ae.isEmpty && aeSeen.head? == some ae
        let inMD := if aeLeak then
            (if aeSeen.length ≤ 1 then dropKey inMD hAcceptEncoding
             else inMD.map fun kv => if kv.1 = hAcceptEncoding then (kv.1, kv.2.drop 1) else kv)
          else inMD
        if o.probeAE ∧ aeLeak then "VIOL transport header grpc-accept-encoding surfaced to the handler: " ++ hex ae else
        let seen := dropKey (dropKey (dropKey inMD hAuthority) hUserAgent) hContentType
        -- the two whitelisted names must carry the transport's own values only ("not sent from user metadata")
        if mdGet inMD hAuthority ≠ [cfg.authority] then "VIOL :authority seen by the handler is not the transport's: " ++ showMD [(hAuthority, mdGet inMD hAuthority)]
        else if mdGet inMD hUserAgent ≠ [cfg.userAgent] then "VIOL user-agent seen by the handler is not the transport's: " ++ showMD [(hUserAgent, mdGet inMD hUserAgent)]
        else if showMD seen ≠ showMD exp then
          s!"VIOL handler saw {showMD seen} but the client sent {showMD exp}" ++ special
        else
          -- server → client, judged only when the server-side metadata is valid (domain of the statement)
          let srvValid := validate o.hmd && validate o.tmd
          let hUsed := o.hapi ≠ "none" ∧ !(o.path = "u" ∧ o.hapi.startsWith "ss.")
          let tUsed := o.tapi ≠ "none" ∧ !(o.path = "u" ∧ o.tapi.startsWith "ss.")
          if !srvValid then "ok" else
          let expH := if hUsed then userVisible o.hmd else []
          let expT := if tUsed then userVisible o.tmd else []
          -- a handler-supplied grpc-status-details-bin trailer is interpreted by the client's status
          -- logic (see C10): the status clause is not judged then, the metadata clauses are
          if st ≠ showCode o.code ∧ !(tUsed ∧ hasKey o.tmd hDetailsBin) then s!"VIOL status {st} instead of {showCode o.code} with valid metadata"
          else if showMD (dropKey hdr hContentType) ≠ showMD expH then
            s!"VIOL client Header() {showMD (dropKey hdr hContentType)} but the server set {showMD expH}"
          else if showMD (dropKey trl hContentType) ≠ showMD expT then
            s!"VIOL client Trailer() {showMD (dropKey trl hContentType)} but the server set {showMD expT}"
          else "ok"
    | _, _, _ => "VIOL unparsable metadata in harness output"

/-! ### long-lived metadata objects, several header / trailer calls per RPC (`pool`, `rpcm`) -/

/-- the component's long-lived MD objects: index ↦ content. In the model they can only change by a
    `pool` op: no server API ever writes to a handler's metadata value. -/
abbrev Pool := List (Nat × MD)

def poolGet (p : Pool) (i : Nat) : Option MD := (p.find? (·.1 = i)).map (·.2)
def poolSet (p : Pool) (i : Nat) (md : MD) : Pool := (p.filter (·.1 ≠ i)) ++ [(i, md)]

def showPool (p : Pool) : String :=
  let n := p.foldl (fun a e => max a (e.1 + 1)) 0
  if n = 0 then "-" else
  "/".intercalate ((List.range n).map fun i => match poolGet p i with
    | some md => showMD md
    | none => "?")

def parseRef (p : Pool) (s : String) : Option MD :=
  if s.startsWith "p" then (s.drop 1).toString.toNat? >>= poolGet p
  else if s.startsWith "l" then parseMD (s.drop 1).toString
  else none

def parseCalls (p : Pool) (s : String) : Option (List (String × MD)) :=
  if s = "-" then some [] else
  (s.splitOn "|").mapM fun c =>
    match c.splitOn "@" with
    | [api, ref] => do pure (api, ← parseRef p ref)
    | _ => none

def hdrApiOf (s : String) : Option HdrApi :=
  match s with
  | "ss.set" => some .ssSet
  | "ss.send" => some .ssSend
  | "ctx.set" => some .ctxSet
  | "ctx.send" => some .ctxSend
  | _ => none

def showRes (l : List String) : String := if l.isEmpty then "-" else ",".intercalate l

/-- `rpcm` on the model. -/
def modelM (pool : Pool) (path : String) (hcalls tcalls : List (String × MD)) (code : Nat) (ae : Bytes) : String :=
  let cfg : CallCfg := { cfg0 with acceptEncoding := ae }
  let isStream := path ≠ "u"
  let inS := match clientSend cfg [] [] with
    | some fields => (match serverRecv fields with
      | .handler m => showMD m
      | _ => "!")
    | none => "!"
  let (hst, hres) : HdrState × List String := hcalls.foldl (fun (acc : HdrState × List String) c =>
    match hdrApiOf c.1 with
    | none => (acc.1, acc.2 ++ ["badapi"])
    | some api =>
      if !isStream ∧ (api = .ssSet ∨ api = .ssSend) then (acc.1, acc.2 ++ ["nostream"])
      else
        let (st', r) := hdrCall acc.1 api c.2
        (st', acc.2 ++ [match r with
          | none => "ok"
          | some k => toString k])) ({}, [])
  let (trailer, tres) : MD × List String := tcalls.foldl (fun (acc : MD × List String) c =>
    if c.1 = "ss.set" then (if isStream then (trlCall acc.1 c.2, acc.2 ++ ["ok"]) else (acc.1, acc.2 ++ ["nostream"]))
    else if c.1 = "ctx.set" then (trlCall acc.1 c.2, acc.2 ++ ["ok"])
    else (acc.1, acc.2 ++ ["badapi"])) ([], [])
  let replies := path = "b1" ∨ (path = "u" ∧ code = 0)
  let headerSent := hst.sent || decide replies || !hst.header.isEmpty
  let st : Status := if code = 0 then ⟨0, [], []⟩ else ⟨code, [115], []⟩
  let tail := s!" h={showRes hres} t={showRes tres} ae={hex ae} pool={showPool pool}"
  let hdrRes : HdrRes := if headerSent then clientHeaders (headerFrame cfg.subtype hst.header) else .md []
  match hdrRes with
  | .fail c => s!"st={showCode c} in={inS} hdr=- trl=-" ++ tail
  | .md hm =>
    let tf := writeStatus headerSent cfg.subtype st trailer
    if !wireOK tf then s!"st=13 in={inS} hdr={showMD hm} trl=-" ++ tail
    else
      let (e, tm) := clientTrailers (!headerSent) tf
      s!"st={showCode e.code} in={inS} hdr={showMD hm} trl={showMD tm}" ++ tail

def tokenOf (impl key : String) : String :=
  match (impl.splitOn " ").find? (·.startsWith (key ++ "=")) with
  | some t => (t.drop (key.length + 1)).toString
  | none => "?"

/-- C09, server → client clause, for a handler that makes several calls, possibly with metadata
    objects it keeps using: the client must see, per key, exactly the values of the calls that
    succeeded, in call order — nothing from an earlier RPC, nothing twice. Judged when every
    metadata value involved is valid (the statement's domain). -/
def monitorM (path : String) (hcalls tcalls : List (String × MD)) (code : Nat) (impl : String) : String :=
  let st := tokenOf impl "st"
  if tokenOf impl "in" = "!" then s!"VIOL no client metadata but the handler never ran (st={st})" else
  if !(hcalls.all fun c => validate c.2) || !(tcalls.all fun c => validate c.2) then "ok" else
  let hres := (tokenOf impl "h").splitOn ","
  let tres := (tokenOf impl "t").splitOn ","
  let okH := (hcalls.zip hres).filter (fun p => p.2 = "ok") |>.map (·.1.2)
  let okT := (tcalls.zip tres).filter (fun p => p.2 = "ok") |>.map (·.1.2)
  let expH := userVisible (okH.foldl mdJoin [])
  let expT := userVisible (okT.foldl mdJoin [])
  match parseMD (tokenOf impl "hdr"), parseMD (tokenOf impl "trl") with
  | some hdr, some trl =>
    if st ≠ showCode code ∧ !(okT.any fun m => hasKey m hDetailsBin) then s!"VIOL status {st} instead of {showCode code} with valid metadata"
    else if showMD (dropKey hdr hContentType) ≠ showMD expH then
      s!"VIOL client Header() {showMD (dropKey hdr hContentType)} but the server set {showMD expH}"
    else if showMD (dropKey trl hContentType) ≠ showMD expT then
      s!"VIOL client Trailer() {showMD (dropKey trl hContentType)} but the server set {showMD expT}"
    else "ok"
  | _, _ => "VIOL unparsable metadata in harness output"

def step : Step Pool := fun pool fs impl =>
  match fs with
  | ["pool", i, md] =>
    match i.toNat?, parseMD md with
    | some i, some m => (poolSet pool i m, "ok", "-")
    | _, _ => (pool, "bad-op", "-")
  | ["rpcm", path, hc, tc, code] =>
    match parseCalls pool hc, parseCalls pool tc, code.toNat? with
    | some h, some t, some c =>
      if ["u", "b0", "b1"].contains path then
        -- invalid metadata in a HEADER call can reach the wire (grpc.SendHeader does not validate); the client then
        -- resets the stream, and whether the handler's later calls already see the dead stream (ErrIllegalHeaderWrite)
        -- is a race the model does not predict: outside the statement's domain, not compared
        let m := if h.all (fun c => validate c.2) then modelM pool path h t c (aeOf impl) else "*"
        (pool, m, monitorM path h t c impl)
      else (pool, "bad-op", "-")
    | _, _, _ => (pool, "bad-op", "-")
  | _ =>
    match parseOp fs with
    | none => (pool, "bad-op", "-")
    | some o => (pool, if asciiKeys o then (model o (aeOf impl)).show else "*", monitor o impl)

def run : IO Unit := Driver.run ([] : Pool) step

end GrpcModel.Driver.S_mdwire
