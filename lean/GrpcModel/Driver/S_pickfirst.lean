import GrpcModel.Driver.Loop
import GrpcModel.Model.PickFirst
/-! component `s_pickfirst` (C34): the real pick_first balancer with a recording ClientConn / SubConns.

    update <health 0|1> <shuffle 0|1> <e|a> <endpoints>   endpoints: `4.1+6.2,u.3` (`,` between endpoints,
                                                          `+` inside one; `-` = none); e = as Endpoints, a = as Addresses
    reserr | tick | exitidle | pick | close
    late                     the callback of the most recently cancelled timer that has not run yet runs now
                             (it had fired before it was stopped and was waiting for the balancer's mutex)
    sc <id|~k> <S> <err>     (~k = k-th newest SubConn) the channel reports a SubConn state (err: ConnectionError tag, 0 = nil)
    health <id> <S> <err>    the health listener of SubConn id is called

  answer: `ev=<events>[ bad][ pick=<sc<id>|queue|err|empty|nopicker>]`; events: new<id>:<addr> conn<id> sd<id>
  hl<id> push:<S>:<queue|sc<id>|err<e>|idle|reserr|herr<e>>; runs of Shutdown / Connect calls made while
  ranging over the SubConn map are sorted by id. -/
namespace GrpcModel.Driver.S_pickfirst
open GrpcModel.Driver GrpcModel.PickFirst
open GrpcModel.LbConnState (ConnState)

def parseAddr (s : String) : Option Addr :=
  match s.splitOn "." with
  | [f, n] => do
    let n ← n.toNat?
    let fam ← if f = "4" then some Fam.v4 else if f = "6" then some Fam.v6 else if f = "u" then some Fam.unknown else none
    pure ⟨fam, n⟩
  | _ => none

def showAddr (a : Addr) : String :=
  (match a.fam with | .v4 => "4" | .v6 => "6" | .unknown => "u") ++ "." ++ toString a.n

def parseEndpoints (s : String) : Option (List (List Addr)) :=
  if s = "-" then some [] else (s.splitOn ",").mapM fun e => (e.splitOn "+").mapM parseAddr

def parseBool (s : String) : Option Bool := if s = "0" then some false else if s = "1" then some true else none

/-- flatten (and "shuffle" = reverse: endpoints in mode e, addresses in mode a) -/
def flatten (shuffle : Bool) (mode : String) (eps : List (List Addr)) : List Addr :=
  if mode = "e" then ((if shuffle then eps.reverse else eps).flatMap id)
  else (if shuffle then (eps.flatMap id).reverse else eps.flatMap id)

/-- SubConn id: absolute, or `~k` = the k-th newest SubConn created so far -/
def parseId (serial : Nat) (s : String) : Option Nat :=
  if s.startsWith "~" then do
    let k ← (s.drop 1).toString.toNat?
    if k < serial then some (serial - k) else none
  else s.toNat?

def parseOp (serial : Nat) (fs : List String) : Option Op :=
  match fs with
  | ["update", h, sh, m, eps] => do
    if m ≠ "e" ∧ m ≠ "a" then none
    pure (.update (← parseBool h) (flatten (← parseBool sh) m (← parseEndpoints eps)))
  | ["reserr"] => some .resErr
  | ["tick"] => some .tick
  | ["late"] => some .late
  | ["exitidle"] => some .exitIdle
  | ["pick"] => some .pick
  | ["close"] => some .close
  | ["sc", id, st, e] => do pure (.sc (← parseId serial id) (← ConnState.parse st) (← e.toNat?))
  | ["health", id, st, e] => do pure (.health (← parseId serial id) (← ConnState.parse st) (← e.toNat?))
  | _ => none

def showPicker : Picker → String
  | .none => "none" | .queue => "queue" | .ready id => s!"sc{id}" | .connErr e => s!"err{e}"
  | .idle _ => "idle" | .resErr => "reserr" | .healthErr e => s!"herr{e}"

def showEv : Ev → String
  | .newSc id a => s!"new{id}:{showAddr a}" | .connect id => s!"conn{id}" | .sd id => s!"sd{id}"
  | .hl id => s!"hl{id}" | .push st p => s!"push:{st.letter}:{showPicker p}"

def insertNat (a : Nat) : List Nat → List Nat
  | [] => [a]
  | b :: t => if a ≤ b then a :: b :: t else b :: insertNat a t

/-- sort maximal runs of sd / of conn events by id -/
def canonAux : List Ev → List Nat → List Nat → List Ev
  | [], sds, cs => sds.map Ev.sd ++ cs.map Ev.connect
  | .sd i :: t, sds, cs => cs.map Ev.connect ++ canonAux t (insertNat i sds) []
  | .connect i :: t, sds, cs => sds.map Ev.sd ++ canonAux t [] (insertNat i cs)
  | e :: t, sds, cs => sds.map Ev.sd ++ cs.map Ev.connect ++ e :: canonAux t [] []

def canon (evs : List Ev) : List Ev := canonAux evs [] []

def showPick : PickRes → String
  | .sc id => s!"sc{id}" | .queue => "queue" | .err => "err" | .empty => "empty" | .nopicker => "nopicker"

def showOut (o : Out) : String :=
  let e := canon o.evs
  s!"ev={if e.isEmpty then "-" else ",".intercalate (e.map showEv)}" ++ (if o.bad then " bad" else "") ++
    (match o.pick with | some r => " pick=" ++ showPick r | none => "")

/-! parsing the implementation's answer -/

def natAfter (s pre : String) : Option Nat :=
  if s.startsWith pre then (s.drop pre.length).toString.toNat? else none

def parsePicker (s : String) : Option Picker :=
  if s = "queue" then some .queue else if s = "idle" then some (.idle false) else if s = "reserr" then some .resErr
  else if s = "none" then some .none
  else if s.startsWith "sc" then (natAfter s "sc").map Picker.ready
  else if s.startsWith "err" then (natAfter s "err").map Picker.connErr
  else if s.startsWith "herr" then (natAfter s "herr").map Picker.healthErr
  else none

def parseEv (s : String) : Option Ev :=
  match s.splitOn ":" with
  | ["push", st, p] => do pure (.push (← ConnState.parse st) (← parsePicker p))
  | [a, b] => do pure (.newSc (← natAfter a "new") (← parseAddr b))
  | [a] =>
    if a.startsWith "conn" then (natAfter a "conn").map Ev.connect
    else if a.startsWith "sd" then (natAfter a "sd").map Ev.sd
    else if a.startsWith "hl" then (natAfter a "hl").map Ev.hl
    else none
  | _ => none

structure ImplOut where
  evs : List Ev
  pick : Option String

def parseImpl (impl : String) : Option ImplOut :=
  match fields impl with
  | e :: rest =>
    if !e.startsWith "ev=" then none else
    let es := (e.drop 3).toString
    let l := if es = "-" then [] else es.splitOn ","
    (l.mapM parseEv).map fun evs =>
      ⟨evs, rest.findSome? fun f => if f.startsWith "pick=" then some (f.drop 5).toString else none⟩
  | [] => none

/-- what the monitor knows from the ops and from the IMPLEMENTATION's answers only -/
structure Mon where
  /-- latest state the channel reported for each SubConn (ops) -/
  delivered : List (Nat × ConnState) := []
  /-- SubConns created and not shut down, with their address (implementation events) -/
  live : List (Nat × Addr) := []
  /-- the implementation reported TRANSIENT_FAILURE for connection failures and no SubConn became READY since -/
  sticky : Bool := false
  /-- number of SubConns created when `sticky` was last set / now -/
  stickySerial : Nat := 0
  created : Nat := 0
  /-- SubConns with a health listener registered since they last became READY (also shut-down ones:
      a queued health update may still be delivered) -/
  hreg : List Nat := []
  /-- address-list positions on which the implementation requested a connection in the running pass -/
  passLog : List Nat := []
  /-- the state / picker the implementation reported last -/
  lastPush : Option (ConnState × Picker) := none

structure DSt where
  s : St := {}
  m : Mon := {}

def lookup (l : List (Nat × ConnState)) (id : Nat) : ConnState :=
  match l.find? (·.1 = id) with | some (_, x) => x | none => .idle

def setDelivered (l : List (Nat × ConnState)) (id : Nat) (x : ConnState) : List (Nat × ConnState) :=
  (id, x) :: l.filter (·.1 ≠ id)

/-- C34 on one answer. `s`/`s'`: model state before/after (for the address list and the pass flags). -/
def monitor (d : DSt) (s' : St) (op : Op) (impl : String) : Mon × String :=
  match parseImpl impl with
  | none => (d.m, "VIOL unparsable answer")
  | some io =>
    let m := d.m
    -- the channel-side fact carried by the op itself
    let wasLive (id : Nat) : Bool := m.live.any (·.1 = id)
    let m := match op with
      | .sc id x _ => { m with delivered := setDelivered m.delivered id x,
                               hreg := if x == .ready then m.hreg else m.hreg.filter (· ≠ id) }
      | _ => m
    -- a SubConn became READY (or connected and dropped: CONNECTING→IDLE, issue 7862) / the list was emptied
    let clears : Bool := match op with
      | .sc id x _ => wasLive id && (x == .ready || (x == .idle && lookup d.m.delivered id == .connecting))
      | .update _ raw => raw.isEmpty
      | _ => false
    let m := if clears then { m with sticky := false } else m
    let newPass := s'.passSerial != d.s.passSerial
    let m := if newPass then { m with passLog := [] } else m
    let inPass0 := d.s.firstPass || newPass
    -- walk the implementation's events
    let rec go (evs : List Ev) (m : Mon) (inPass : Bool) : Mon × Option String :=
      match evs with
      | [] => (m, none)
      | e :: t =>
        match e with
        | .newSc id a => go t { m with live := m.live ++ [(id, a)], created := max m.created id } inPass
        | .sd id => go t { m with live := m.live.filter (·.1 ≠ id) } inPass
        | .hl id => go t { m with hreg := id :: m.hreg.filter (· ≠ id) } inPass
        | .connect id =>
          if !inPass then go t m inPass else
          match m.live.find? (·.1 = id) with
          | none => (m, some s!"VIOL Connect on SubConn {id} which is not live")
          | some (_, a) =>
            match s'.addrs.findIdx? (· = a) with
            | none => (m, some s!"VIOL connection requested to {showAddr a} which is not in the address list")
            | some i =>
              if m.passLog.all (· < i) then go t { m with passLog := m.passLog ++ [i] } inPass
              else (m, some s!"VIOL connection to {showAddr a} (position {i}) requested out of list order or twice in one pass")
        | .push st p =>
          let bad : Option String :=
            match p with
            | .ready id =>
              if st != .ready then some "VIOL a SubConn picker with a state other than READY"
              else if lookup m.delivered id != .ready then some s!"VIOL READY reported with SubConn {id} whose latest state is {(lookup m.delivered id).letter}"
              else if !(m.live.any (·.1 = id)) then some s!"VIOL READY reported with SubConn {id} which was shut down"
              else none
            | _ => if st == .ready then some "VIOL READY reported without a SubConn" else none
          match bad with
          | some b => (m, some b)
          | none =>
            if m.sticky && (st == .connecting || st == .idle) then
              -- who caused it, from the balancer's own bookkeeping as the tied model has it: a SubConn that is not
              -- marked failed (effectiveState ≠ TRANSIENT_FAILURE: created for a new address, or one that failed only
              -- after the first pass) or one that is
              let who := match op with
                | .sc id _ _ => match activeSC d.s id with
                  | some sc => if sc.eff != ConnState.tf then s!" on a report of SubConn {id} whose effectiveState {sc.eff.letter} is not TRANSIENT_FAILURE"
                               else s!" on a report of SubConn {id} although its effectiveState is TRANSIENT_FAILURE"
                  | none => s!" on a report of obsolete SubConn {id}"
                | _ => ""
              (m, some s!"VIOL {if st == .connecting then "CONNECTING" else "IDLE"} reported while in sticky TRANSIENT_FAILURE (no SubConn became READY){who}")
            else
              let m := match p with | .connErr _ => { m with sticky := true, stickySerial := if m.sticky then m.stickySerial else m.created } | _ => m
              let m := { m with lastPush := some (st, p) }
              -- a TRANSIENT_FAILURE report ends the first pass: later Connects are re-connections
              go t m (inPass && st != .tf)
    let (m, v) := go io.evs m inPass0
    match v with
    | some v => (m, v)
    | none =>
      -- once one becomes READY all other subchannels are shut down
      let v1 : Option String := match op with
        | .sc id x _ => if x == .ready && wasLive id && !(m.live.all (·.1 = id)) then
            some "VIOL a SubConn became READY but another SubConn was not shut down" else none
        | _ => none
      -- a Pick never returns a SubConn whose latest state is not READY
      let v2 : Option String := match io.pick with
        | some r => match natAfter r "sc" with
          | some id => if lookup m.delivered id != .ready then some s!"VIOL Pick returned SubConn {id} whose latest state is {(lookup m.delivered id).letter}" else none
          | none => none
        | none => none
      -- while READY is the reported state the READY SubConn is the only SubConn
      let v3 : Option String := match m.lastPush, op with
        | _, .close => none
        | some (.ready, .ready id), _ =>
          match m.live.find? (·.1 ≠ id) with
          | some (other, _) => some s!"VIOL SubConn {other} exists although READY is reported with SubConn {id}"
          | none => none
        | _, _ => none
      -- a closed balancer creates and connects nothing
      let v4 : Option String :=
        if d.s.state == .shutdown && io.evs.any (fun e => match e with | .newSc _ _ => true | .connect _ => true | _ => false)
        then some "VIOL a SubConn was created or connected after Close" else none
      (m, (((v1.orElse fun _ => v2).orElse fun _ => v3).orElse fun _ => v4).getD "ok")

def step (d : DSt) (fs : List String) (impl : String) : DSt × String × String :=
  match parseOp d.s.scSerial fs with
  | none => (d, "bad-op", "-")
  | some op =>
    -- domain of the fake channel (harness applies the same rules):
    --  * states are reported only for SubConns that exist; SHUTDOWN only after Shutdown() was called
    --  * a health update only reaches a listener registered since the SubConn last became READY
    --  * nothing is called on a balancer after Close (the channel drops it together with its picker)
    --    (except the balancer's own timer callbacks, which the channel does not control)
    let afterClose : Bool := match op with | .late => true | _ => false
    let ok : Bool := (d.s.state != .shutdown || afterClose) && match op with
      | .sc id x _ => decide (1 ≤ id ∧ id ≤ d.s.scSerial) && (x != .shutdown || (activeSC d.s id).isNone)
      | .health id _ _ => d.m.hreg.contains id && lookup d.m.delivered id == .ready
      | .late => decide (d.s.lateTimers > 0)
      | _ => true
    if !ok then (d, "bad-op", "-") else
    let (s', out) := PickFirst.step d.s op
    let (m, v) := monitor d s' op impl
    ({ s := s', m := m }, showOut out, v)

def run : IO Unit := Driver.run ({} : DSt) step

end GrpcModel.Driver.S_pickfirst
