import GrpcModel.Driver.Loop
import GrpcModel.Model.ClientConnMon
/-! component `s_clienttransport` (C11): real http2Client vs. the `ClientConn` model; monitor = C11's
clauses (exactly one status, never changed afterwards, by the deadline, nothing outlives the
connection, legal codes) evaluated on the implementation's snapshots. -/
namespace GrpcModel.Driver.S_clienttransport
open GrpcModel.Driver GrpcModel.ClientConnSim GrpcModel.ClientConnMon

structure St where
  sim : Sim
  mon : MonSt
deriving Inhabited

def step : Step St := fun st fs impl =>
  let (sim, out) := st.sim.op fs
  let cur := parseSnap impl
  let (mon, _) := st.mon.advance fs
  let verdict := match st.mon.prev, cur with
    | some p, some c => c11Verdict fs mon p c
    | _, _ => "-"
  ({ sim := sim, mon := { mon with prev := cur.orElse fun _ => mon.prev } }, out, verdict)

def run : IO Unit := Driver.run { sim := Sim.init, mon := MonSt.init } step

end GrpcModel.Driver.S_clienttransport
