import GrpcModel.Driver.Loop
import GrpcModel.Model.Retry
/-!
component `s_shouldretry` (C19, C18): the real `csAttempt.shouldRetry`, `retryThrottler` and
the retryThrottling part of `parseServiceConfig`, call by call.

    thr <maxTokens> <tokenRatio> | thr none   → ok tok=<bits> max=<bits> thresh=<bits> ratio=<bits> | err | none
    throttle                                  → <bool> tok=<bits>
    success                                   → tok=<bits>
    sr fin= com= drop= st= atr= unp= to= pb= code= first= dis= pol= nr= sp= ctx=
                                              → transparent|noretry|exhausted|retry dur=<ns>|ctxerr  nr= sp= tok=

float64 values travel as their IEEE bit pattern (decimal uint64) and are decoded to exact
rationals.  Nothing here compares a float for equality with a *predicted* float: the token
count after `throttle` is exact (x-1 is exact in binary64 for 0 ≤ x ≤ 1024), after
`success` it is judged through the correctly-rounded-sum interval, the backoff through the
band the property states.  The driver's throttler state is re-synchronised to the value the
implementation reported, so every implementation step is checked against one model step from
the implementation's own state.
-/
namespace GrpcModel.Driver.S_shouldretry
open GrpcModel.Driver GrpcModel.Retry

def pow2 (e : Int) : Rat := if e ≥ 0 then (2 : Rat) ^ e.toNat else 1 / (2 : Rat) ^ (-e).toNat

/-- exact value of a finite float64 given by its bit pattern. -/
def ofBits (b : Nat) : Option Rat :=
  let sign : Nat := b / 2 ^ 63
  let ex : Nat := (b / 2 ^ 52) % 2048
  let man : Nat := b % 2 ^ 52
  if b ≥ 2 ^ 64 ∨ ex = 2047 then none else
  let v : Rat := if ex = 0 then (man : Rat) * pow2 (-1074)
                 else ((2 ^ 52 + man : Nat) : Rat) * pow2 ((ex : Int) - 1075)
  some (if sign = 1 then -v else v)

def bitsField (s : String) : Option Rat := s.toNat? >>= ofBits

/-- plain decimal `[-]ddd[.ddd]` → exact rational. -/
def ofDecimal (s : String) : Option Rat :=
  let (neg, t) := if s.startsWith "-" then (true, (s.drop 1).toString) else (false, s)
  match t.splitOn "." with
  | [a] => a.toNat?.map fun n => if neg then -(n : Rat) else (n : Rat)
  | [a, b] =>
    match (if a.isEmpty then some 0 else a.toNat?), (if b.isEmpty then some 0 else b.toNat?) with
    | some x, some y =>
      if a.isEmpty ∧ b.isEmpty then none else
      let v : Rat := (x : Rat) + (y : Rat) / (10 : Rat) ^ b.length
      some (if neg then -v else v)
    | _, _ => none
  | _ => none

def showRat (q : Rat) : String := s!"{q.num}/{q.den}"

def getKV (fs : List String) (k : String) : String :=
  match fs.find? (fun f => f.startsWith (k ++ "=")) with
  | some f => (f.drop (k.length + 1)).toString
  | none => ""

def flag (fs : List String) (k : String) : Bool := getKV fs k == "1"

def decodePushback (s : String) : Option (List (List UInt8)) :=
  if s = "-" then some [] else
  (s.splitOn ",").mapM fun p =>
    let h := if p.startsWith "x" then (p.drop 1).toString else p
    if h.isEmpty then some [] else unhexAux h.toList

def parsePolicy (s : String) : Option (Option Policy) :=
  if s = "-" then some none else
  match s.splitOn ":" with
  | [ma, ib, mb, mu, cs] =>
    match ma.toInt?, ib.toInt?, mb.toInt?, bitsField mu, natList cs with
    | some ma, some ib, some mb, some mu, some cs =>
      some (some { maxAttempts := ma, initialBackoff := ib, maxBackoff := mb, multiplier := mu, codes := cs })
    | _, _, _, _, _ => none
  | _ => none

/-- relative half-ulp bound of a correctly rounded binary64 result (normal range). -/
def roundedOK (ideal impl : Rat) : Bool :=
  let d := if impl ≥ ideal then impl - ideal else ideal - impl
  let a := if ideal ≥ 0 then ideal else -ideal
  decide (d ≤ a / (2 : Rat) ^ 53)

/-- virtual clock horizon of a synctest bubble: it starts at 2000-01-01 and timers saturate at MaxInt64. -/
def horizon : Int := 9223372036854775807 - 946684800000000000

structure St where
  thr : Option Throttler := none
  clock : Int := 0

def tokOf (t : Option Throttler) : Option Rat := t.map (·.tokens)

/-- `tok=<bits>` / `tok=nil` of an implementation answer → exact value. -/
def implTok (fs : List String) : Option (Option Rat) :=
  let v := getKV fs "tok"
  if v = "nil" then some none else (bitsField v).map some

/-- range clause of the property on the implementation's bucket. -/
def rangeViol (t : Option Throttler) (tok : Option Rat) : Option String :=
  match t, tok with
  | some t, some k => if k < 0 ∨ k > t.max then some "VIOL token bucket left [0, maxTokens]" else none
  | none, none => none
  | _, _ => some "VIOL throttler presence differs"

def sr (st : St) (fs : List String) (impl : String) : St × String × String :=
  let ifs := fields impl
  match decodePushback (getKV fs "pb"), parsePolicy (getKV fs "pol"), (getKV fs "code").toNat?,
        (getKV fs "nr").toInt?, (getKV fs "sp").toNat? with
  | some pbs, some pol, some code, some nr, some sp =>
    let a : Attempt := { drop := flag fs "drop", hasStream := flag fs "st", allowTransparent := flag fs "atr",
                         unprocessed := flag fs "unp", trailersOnly := flag fs "to", pushback := pbs, code := code }
    let cs : CS := { finished := flag fs "fin", committed := flag fs "com", firstAttempt := flag fs "first",
                     numRetries := nr, sincePushback := sp, throttler := st.thr }
    let dis := flag fs "dis"
    let ctxDone := flag fs "ctx"
    let (cs', d) := shouldRetry dis pol cs a 0
    let stg := stage dis pol cs a
    -- what the implementation reported
    let iword := ifs.headD ""
    let itok := implTok ifs
    let idur := (getKV ifs "dur").toInt?
    let room := horizon - st.clock
    -- model line
    let tokStr (exact : Option Rat) : String :=
      match exact, itok with
      | none, _ => "tok=nil"
      | some k, some (some k') => if k = k' then "tok=" ++ getKV ifs "tok" else "tok=" ++ showRat k
      | some k, _ => "tok=" ++ showRat k
    let tail (c : CS) : String := s!" nr={c.numRetries} sp={c.sincePushback} " ++ tokStr (tokOf c.throttler)
    let (mline, elapsed, durVerdict) : String × Int × String :=
      match d with
      | .noRetry => ("noretry" ++ tail cs', 0, "ok")
      | .transparent => ("transparent" ++ tail cs', 0, "ok")
      | .exhausted => ("exhausted" ++ tail cs', 0, "ok")
      | .backoff dur true =>
        if ctxDone then ("ctxerr" ++ tail cs', 0, "ok") else
        let want := if dur < 0 then 0 else dur
        let obs := if want > room then room else want
        let ms := match parsePushback pbs with | .ms n => n | _ => 0
        -- property: the delay IS the pushback (a time.Duration cannot hold more than MaxInt64 ns: saturated there)
        let wantSpec : Int := if 1000000 * ms > maxInt64 then maxInt64 else 1000000 * ms
        let obsSpec : Int := if wantSpec > room then room else wantSpec
        let v := match idur with
          | some x => if x = obsSpec then (if wantSpec > room then "-" else "ok")   -- "-": waited to the bubble's horizon
                      else if 1000000 * ms > maxInt64 then s!"VIOL delay {x}ns is not the server pushback {ms}ms [int64 overflow: ms x 10^6 > MaxInt64]"
                      else s!"VIOL delay {x}ns is not the server pushback {ms}ms"
          | none => "ok"
        (s!"retry dur={obs}" ++ tail (timerFired cs'), obs, v)
      | .backoff _ false =>
        if ctxDone then ("ctxerr" ++ tail cs', 0, "ok") else
        match pol with
        | none => ("bad-model-state", 0, "-")
        | some rp =>
          let base := backoffBase rp sp
          let lo : Int := (jittered base 0).floor
          let hi : Rat := jittered base 1
          match idur with
          | some x =>
            let sat := x = room ∧ (x : Rat) ≤ hi
            if sat then (s!"retry dur={x}" ++ tail (timerFired cs'), x, "-")
            else if lo ≤ x ∧ (x : Rat) ≤ hi then (s!"retry dur={x}" ++ tail (timerFired cs'), x, "ok")
            else (s!"retry dur={x}" ++ tail (timerFired cs'), x,
                  s!"VIOL backoff {x}ns outside [0.8,1.2] x min(initial x mult^{sp}, max) = [{lo},{hi.floor}]" ++
                  (if x = 0 ∧ hi ≥ 9223372036854775808 then " [int64 overflow: 1.2 x base >= 2^63, float->int64 conversion]" else ""))
          | none => (s!"retry dur in [{lo},{hi.floor}]" ++ tail (timerFired cs'), 0, "ok")
    -- property clauses on the implementation's bucket
    let verdict : String :=
      match rangeViol st.thr (itok.getD none) with
      | some v => v
      | none =>
        let before := tokOf st.thr
        let after := itok.getD none
        let charged := match stg with | .abortPushback => true | .charged _ => true | _ => false
        let chargeV : Option String :=
          match before, after with
          | some b, some k =>
            if charged then
              (if k = (if b - 1 < 0 then 0 else b - 1) then none
               else some "VIOL a failed attempt (retryable code / malformed pushback) did not remove exactly one token")
            else (if k = b then none else some "VIOL token bucket changed although the attempt is not a counted failure")
          | _, _ => none
        match chargeV with
        | some v => v
        | none =>
          let refuseV : Option String :=
            match stg, st.thr, after with
            | .charged _, some t, some k =>
              let refused := iword == "noretry"
              if refused = decide (k ≤ t.max / 2) then none
              else some "VIOL retry refused/allowed although bucket is not/is at or below maxTokens/2 after the removal"
            | _, _, _ => none
          match refuseV with
          | some v => v
          | none =>
            -- k = retries since the last pushback
            let isp := (getKV ifs "sp").toNat?
            let kV : Option String :=
              if iword == "retry" then
                match d, isp with
                | .backoff _ true, some k => if k = 0 then none else some "VIOL a retry honouring a pushback did not reset the backoff exponent k"
                | .backoff _ false, some k => if k = sp + 1 then none else some "VIOL a timed retry did not advance the backoff exponent k by one"
                | _, _ => none
              else match isp with
                | some k => if iword != "ctxerr" ∧ k ≠ sp then some "VIOL the backoff exponent k changed without a retry" else none
                | none => none
            match kV with
            | some v => v
            | none => durVerdict
    let thr' := match st.thr, itok with
      | some t, some (some k) => some { t with tokens := k }
      | t, _ => t
    ({ thr := thr', clock := st.clock + elapsed }, mline, verdict)
  | _, _, _, _, _ => (st, "bad-op", "-")

def step (st : St) (fs : List String) (impl : String) : St × String × String :=
  let ifs := fields impl
  match fs with
  | ["thr", "none"] => ({ st with thr := none }, "none", "ok")
  | ["thr", m, r, mc] =>
    match ofDecimal m, ofDecimal r with
    | some dm, some dr =>
      let valid := validThrottling dm dr
      if !acceptsThrottling (mc == "1") dm dr then
        ({ st with thr := none }, "err", if impl = "err" then "ok" else "VIOL parser accepted maxTokens outside (0,1000] or tokenRatio <= 0")
      else
        match ifs with
        | ["ok", _, _, _, _] =>
          match bitsField (getKV ifs "tok"), bitsField (getKV ifs "max"), bitsField (getKV ifs "thresh"), bitsField (getKV ifs "ratio") with
          | some tk, some mx, some th, some ra =>
            -- conversions of the decimal inputs are judged through the rounding interval
            if roundedOK dm mx ∧ roundedOK dr ra then
              let t := Throttler.new mx ra
              let v := if !valid then "VIOL parser accepted maxTokens outside (0,1000] or tokenRatio <= 0 [config without methodConfig: validation skipped]"
                       else if tk = t.tokens ∧ th = t.thresh then "ok" else "VIOL new bucket is not {tokens=max, thresh=max/2}"
              ({ st with thr := some { t with tokens := tk, thresh := th } }, impl, v)
            else (st, s!"ok max~{showRat dm} ratio~{showRat dr}", "-")
          | _, _, _, _ => (st, "ok <unparsable>", "-")
        | _ => ({ st with thr := some (Throttler.new dm dr) }, "ok", if impl = "err" ∧ valid then "VIOL parser rejected a valid retryThrottling" else "-")
    | _, _ => (st, "bad-op", "-")
  | ["throttle"] =>
    match st.thr with
    | none => (st, "false tok=nil", if impl = "false tok=nil" then "ok" else "VIOL a channel without retryThrottling throttled")
    | some t =>
      let (t', b) := t.throttle
      match ifs with
      | [ib, _] =>
        match bitsField (getKV ifs "tok") with
        | some k =>
          let line := s!"{b} " ++ (if k = t'.tokens then "tok=" ++ getKV ifs "tok" else "tok=" ++ showRat t'.tokens)
          let v :=
            if k < 0 ∨ k > t.max then "VIOL token bucket left [0, maxTokens]"
            else if k ≠ (if t.tokens - 1 < 0 then 0 else t.tokens - 1) then "VIOL throttle did not remove exactly one token"
            else if (ib == "true") ≠ decide (k ≤ t.max / 2) then "VIOL throttled is not (tokens <= maxTokens/2)"
            else "ok"
          ({ st with thr := some { t with tokens := k } }, line, v)
        | none => (st, s!"{b} tok={showRat t'.tokens}", "-")
      | _ => (st, s!"{b} tok={showRat t'.tokens}", "-")
  | ["success"] =>
    match st.thr with
    | none => (st, "tok=nil", "-")
    | some t =>
      let t' := t.success
      match bitsField (getKV ifs "tok") with
      | some k =>
        -- the sum is a float addition: judged through the correctly-rounded interval; the cap is exact
        let sum := t.tokens + t.ratio
        let okv := if sum > t.max then (k = t.max ∨ (roundedOK sum k ∧ k ≤ t.max)) else (roundedOK sum k ∧ k ≤ t.max)
        let line := if okv then impl else "tok=" ++ showRat t'.tokens
        let v := if k < 0 ∨ k > t.max then "VIOL token bucket left [0, maxTokens]"
                 else if okv then "ok" else "VIOL success did not add tokenRatio (capped at maxTokens)"
        ({ st with thr := some { t with tokens := k } }, line, v)
      | none => (st, "tok=" ++ showRat t'.tokens, "-")
  | "sr" :: rest => sr st rest impl
  | _ => (st, "bad-op", "-")

def run : IO Unit := Driver.run ({} : St) step

end GrpcModel.Driver.S_shouldretry
