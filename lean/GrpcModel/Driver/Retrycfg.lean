import GrpcModel.Driver.Loop
import GrpcModel.Driver.S_shouldretry
import GrpcModel.Model.Retry
/-!
component `retrycfg` (C19, C18): `Duration.UnmarshalJSON` and `convertRetryPolicy`.

    dur x<hex>                                               → ok <ns> | err
    rp <chanArg> <maxAttempts> x<hex init> x<hex max> <mult> <codes|-> → ok <max> <init ns> <max ns> <mult bits> <codes> | err
-/
namespace GrpcModel.Driver.Retrycfg
open GrpcModel.Driver GrpcModel.Retry
open GrpcModel.Driver.S_shouldretry (ofDecimal bitsField roundedOK)

def xbytes (s : String) : Option (List UInt8) :=
  let h := if s.startsWith "x" then (s.drop 1).toString else s
  if h.isEmpty then some [] else unhexAux h.toList

def dedupSort (l : List Nat) : List Nat :=
  (l.foldl (fun acc x => if acc.contains x then acc else acc ++ [x]) []).mergeSort (· ≤ ·)

def step (_ : Unit) (fs : List String) (impl : String) : Unit × String × String :=
  match fs with
  | ["dur", h] =>
    match xbytes h with
    | none => ((), "bad-op", "-")
    | some bs =>
      match parseDuration bs with
      | none => ((), "err", "-")
      | some d =>
        -- property-side reading: whatever is accepted is an int64
        let v := match impl.splitOn " " with
          | ["ok", x] => match x.toInt? with
            | some n => if minInt64 ≤ n ∧ n ≤ maxInt64 then "ok" else "VIOL duration outside int64"
            | none => "-"
          | _ => "-"
        ((), s!"ok {d}", v)
  | ["rp", cm, ma, ib, mb, mu, cs] =>
    match cm.toInt?, ma.toInt?, xbytes ib, xbytes mb, ofDecimal mu, natList cs with
    | some cm, some ma, some ib, some mb, some mu, some cs =>
      match parseDuration ib, parseDuration mb with
      | some i, some m =>
        match convertPolicy (channelMax cm) ma i m mu cs with
        | none => ((), "err", if impl = "err" then "ok" else "VIOL parser accepted an invalid retry policy")
        | some p =>
          -- multiplier: decimal → float conversion judged through the rounding interval
          let ifs := fields impl
          match ifs with
          | ["ok", _, _, _, mbits, _] =>
            match bitsField mbits with
            | some f =>
              if roundedOK mu f then
                ((), s!"ok {p.maxAttempts} {p.initialBackoff} {p.maxBackoff} {mbits} {showNatList (dedupSort p.codes)}",
                 if p.maxAttempts ≥ 2 ∧ p.maxAttempts ≤ channelMax cm ∧ p.maxAttempts ≤ ma then "ok" else "VIOL maxAttempts not capped")
              else ((), s!"ok {p.maxAttempts} {p.initialBackoff} {p.maxBackoff} ~{mu.num}/{mu.den} {showNatList (dedupSort p.codes)}", "-")
            | none => ((), "ok <unparsable>", "-")
          | _ => ((), s!"ok {p.maxAttempts} {p.initialBackoff} {p.maxBackoff} _ {showNatList (dedupSort p.codes)}",
                  if impl = "err" then "VIOL parser rejected a valid retry policy" else "-")
      | _, _ => ((), "err", "-")
    | _, _, _, _, _, _ => ((), "bad-op", "-")
  | _ => ((), "bad-op", "-")

def run : IO Unit := Driver.run () step

end GrpcModel.Driver.Retrycfg
