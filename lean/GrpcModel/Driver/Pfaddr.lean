import GrpcModel.Driver.Loop
import GrpcModel.Model.PickFirst
import GrpcModel.Driver.S_pickfirst
/-! component `pfaddr` (C34): `prep <addr,addr,…>` → interleaveAddresses(deDupAddresses(list)) of the real code;
    `fam <addr>` → addressFamily of the harness's rendering of that address (4 | 6 | u). -/
namespace GrpcModel.Driver.Pfaddr
open GrpcModel.Driver GrpcModel.PickFirst GrpcModel.Driver.S_pickfirst

def parseList (s : String) : Option (List Addr) := if s = "-" then some [] else (s.splitOn ",").mapM parseAddr
def showAddrs (l : List Addr) : String := if l.isEmpty then "-" else ",".intercalate (l.map showAddr)

def monitor (fs : List String) (impl : String) : String :=
  match fs with
  | ["prep", l] =>
    match parseList l, parseList impl with
    | some inp, some out =>
      if !(out.isPerm (deDup inp)) then "VIOL pre-processed list is not a permutation of the de-duplicated input"
      else if !(prepOk inp out) then "VIOL pre-processing changed the relative order inside an address family"
      else if out.head? != (deDup inp).head? then "VIOL the first address is not the resolver's first address"
      else "ok"
    | _, _ => "VIOL unparsable answer"
  | _ => "-"

def model (fs : List String) : String :=
  match fs with
  | ["prep", l] => match parseList l with
    | some inp => showAddrs (preprocess inp)
    | none => "bad-op"
  | ["fam", a] => match parseAddr a with
    | some a => (match a.fam with | .v4 => "4" | .v6 => "6" | .unknown => "u")
    | none => "bad-op"
  | _ => "bad-op"

def run : IO Unit := Driver.run () (pureStepMon model monitor)

end GrpcModel.Driver.Pfaddr
