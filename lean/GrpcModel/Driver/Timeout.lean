import GrpcModel.Driver.Loop
import GrpcModel.Model.Timeout
/-! component `timeout` (C07):  `enc <int64 ns>` → encoded header ; `dec <hex>` → `ok <ns>` | `err` -/
namespace GrpcModel.Driver.Timeout
open GrpcModel.Driver GrpcModel.Timeout

def asciiOf (bs : List UInt8) : String := String.ofList (bs.map fun b => Char.ofNat b.toNat)
def bytesOf (s : String) : List UInt8 := s.toUTF8.toList

/-- C07 on one implementation answer. -/
def monitor (fs : List String) (impl : String) : String :=
  match fs with
  | ["enc", n] =>
    match n.toInt? with
    | none => "-"
    | some t =>
      if t ≤ 0 then "ok" else
      let bs := bytesOf impl
      if !wellFormed bs then "VIOL encoded value is not 1-8 digits + unit" else
      match decodeBytes bs, bs.getLast? >>= unitOfByte with
      | some d', some un =>
        if t.toNat ≤ d' ∧ d' < t.toNat + un.ns then "ok"
        else if d' < t.toNat then "VIOL encoding shortens the deadline"
        else "VIOL encoding lengthens the deadline by a unit or more"
      | _, _ => "VIOL encoded value does not decode"
  | ["dec", h] =>
    match unhex h with
    | none => "-"
    | some bs =>
      match impl.splitOn " " with
      | ["ok", v] =>
        match v.toInt? with
        | some d => if d < 0 then "VIOL negative duration decoded"
                    else if wellFormed bs then "ok" else "VIOL accepted a string outside digits{1,8}unit"
        | none => "VIOL unparsable answer"
      | ["err"] => if wellFormed bs then "VIOL rejected a well-formed timeout" else "ok"
      | _ => "VIOL " ++ impl
  | _ => "-"

def model (fs : List String) : String :=
  match fs with
  | ["enc", n] => match n.toInt? with
    | some t => asciiOf (encodeBytes t)
    | none => "bad-op"
  | ["dec", h] => match unhex h with
    | some bs => match decodeBytes bs with
      | some v => s!"ok {v}"
      | none => "err"
    | none => "bad-op"
  | _ => "bad-op"

def run : IO Unit := Driver.run () (pureStepMon model monitor)

end GrpcModel.Driver.Timeout
