import GrpcModel.Driver.Loop
import GrpcModel.Model.Dns
/-! component `s_dnswatch` (C56, T2): `script <o|f…>`, `build <min ns>`, `rn`, `sleep <ns>`, `close`.
The jittered backoff is random in the real code: when a timer armed after a FAILED lookup fires,
its instant is taken from the implementation's answer, checked against the band
[0.8, 1.2]·min(1s·1.6^k, 120s) (monitor), and fed to the model as the step's `delay` parameter.
Everything else (when lookups happen, which ones, what ResolveNow does) is predicted. -/
namespace GrpcModel.Driver.S_dnswatch
open GrpcModel.Driver GrpcModel.Dns

structure D where
  w : W
  script : List Bool
  unknownDue : Bool      -- the pending timer was armed after a failure: its instant is not known yet
  failAt : Nat
  failIdx : Nat
  -- monitor state, fed ONLY by implementation outputs
  mLast : Option (Nat × Bool)
  mRn : Nat              -- ResolveNow calls since the last lookup … cumulative
  mPost : Nat            -- lookups that followed a successful lookup
  mClosed : Bool
  mMin : Nat
  mFails : Nat           -- consecutive failed lookups reported by the implementation
  dur : Nat              -- how long each following lookup takes
  mLastDone : Nat        -- when the last reported lookup returned (start + dur)

def dinit : D := ⟨W.init 0, [], false, 0, 0, none, 0, 0, false, 0, 0, 0, 0⟩

def parseLookups (s : String) : List (Nat × Bool) :=
  if s = "-" then [] else
  (s.splitOn ",").filterMap fun p =>
    match p.splitOn ":" with
    | [t, r] => t.toNat?.map fun n => (n, r == "o")
    | _ => none

def fieldOf (impl key : String) : Option String :=
  (impl.splitOn " ").findSome? fun w =>
    if w.startsWith (key ++ "=") then some (w.drop (key.length + 1)).toString else none

def showLookups (l : List (Nat × Bool)) : String :=
  if l.isEmpty then "-" else ",".intercalate (l.map fun p => s!"{p.1}:{if p.2 then "o" else "f"}")

def nextResult (d : D) : Bool × D :=
  match d.script with
  | [] => (true, d)
  | b :: r => (b, { d with script := r })

/-- after a lookup: remember whether its follow-up timer is of unknown instant -/
def afterLookup (d : D) (ok : Bool) (idxBefore : Nat) : D :=
  if ok then { d with unknownDue := false }
  else { d with unknownDue := true, failAt := d.w.lastDone, failIdx := idxBefore }

/-- fire every timer that is due up to time `to`; `obs` = lookup instants the implementation
    reported for this op (used only to resolve unknown backoff instants). Fuel-bounded. -/
def drain (fuel : Nat) (d : D) (to : Nat) (obs : List Nat) (acc : List (Nat × Bool)) : D × List (Nat × Bool) :=
  match fuel with
  | 0 => (d, acc)
  | fuel + 1 =>
    match d.w.mode with
    | .waitT due =>
      -- resolve an unknown instant from the implementation's next reported lookup
      let (d, due, obs) :=
        if d.unknownDue then
          match obs with
          | t :: rest => ({ d with w := { d.w with mode := .waitT t }, unknownDue := false }, t, rest)
          | [] => (d, to + 1, [])          -- nothing reported: still pending after this op
        else (d, due, match obs with | _ :: rest => rest | [] => [])
      if due ≤ to then
        let (ok, d) := nextResult d
        let idx := d.w.idx
        let start := max due d.w.now
        let w' := GrpcModel.Dns.step d.w (.tick start ok 0 d.dur)
        let d := afterLookup { d with w := w' } ok idx
        drain fuel d to obs (acc ++ [(start, ok)])
      else (d, acc)
    | _ => (d, acc)

def finish (d : D) (to : Nat) : D :=
  { d with w := if d.w.now < to then { d.w with now := to } else d.w }

/-- C56 pacing clauses on the implementation's reported lookups of one op. -/
def monitor (d : D) (isRn : Bool) (impl : String) : D × String :=
  let ls := parseLookups ((fieldOf impl "lookups").getD "-")
  let d := if isRn then { d with mRn := d.mRn + 1 } else d
  let rec go (d : D) (ls : List (Nat × Bool)) (verdict : String) : D × String :=
    match ls with
    | [] => (d, verdict)
    | (t, ok) :: rest =>
      let v :=
        if d.mClosed then "VIOL lookup after Close"
        else match d.mLast with
          | none => verdict
          | some (_, true) =>
            if t < d.mLastDone + d.mMin then "VIOL lookup sooner than MinResolutionInterval after a successful one (counted from its return)"
            else if d.mPost + 1 > d.mRn then "VIOL re-resolution without a ResolveNow request"
            else verdict
          | some (_, false) =>
            let k := d.mFails
            let t1 := d.mLastDone
            if t < t1 + backoffLo k ∨ t > t1 + backoffHi k then
              s!"VIOL retry after failure outside the backoff band k={k}: delay {t - t1}"
            else verdict
      let d := match d.mLast with
        | some (_, true) => { d with mPost := d.mPost + 1 }
        | _ => d
      go { d with mLast := some (t, ok), mLastDone := t + d.dur, mFails := if ok then 0 else d.mFails + 1 } rest v
  go d ls "ok"

def render (d : D) (ls : List (Nat × Bool)) : String := s!"t={d.w.now} lookups={showLookups ls}"

def dstep : Step D := fun d fs impl =>
  let obs := (parseLookups ((fieldOf impl "lookups").getD "-")).map (·.1)
  match fs with
  | ["script", s] =>
    let d := { d with script := d.script ++ s.toList.map (· == 'o') }
    (d, render d [], "-")
  | ["dur", n] =>
    match n.toNat? with
    | some k => let d := { d with dur := k }; (d, render d [], "-")
    | none => (d, "bad-op", "-")
  | ["build", m] =>
    match m.toNat? with
    | none => (d, "bad-op", "-")
    | some mi =>
      let (ok, d) := nextResult { d with w := W.init mi, mMin := mi }
      let idx := d.w.idx
      let w' := GrpcModel.Dns.step d.w (.build ok 0 d.dur)
      let d := afterLookup { d with w := w' } ok idx
      let (d, more) := drain 64 d d.w.now (obs.drop 1) [(0, ok)]
      let (d, v) := monitor d false impl
      (d, render d more, v)
  | ["rn"] =>
    let d := { d with w := GrpcModel.Dns.step d.w .resolveNow }
    let (d, ls) := drain 64 d d.w.now obs []
    let (d, v) := monitor d true impl
    (d, render d ls, v)
  | ["sleep", n] =>
    match n.toNat? with
    | none => (d, "bad-op", "-")
    | some k =>
      let to := d.w.now + k
      let (d, ls) := drain 4096 d to obs []
      let d := finish d to
      let (d, v) := monitor d false impl
      -- a retry armed after a failure that is overdue beyond the band is a violation too
      let v := if d.unknownDue ∧ d.w.now > d.failAt + backoffHi d.failIdx ∧ !d.mClosed then
                 "VIOL no retry within the backoff band after a failed lookup" else v
      (d, render d ls, v)
  | ["close"] =>
    let d := { d with w := GrpcModel.Dns.step d.w .close, unknownDue := false }
    let (d, v) := monitor d false impl
    ({ d with mClosed := true }, render d [], v)
  | _ => (d, "bad-op", "-")

def run : IO Unit := Driver.run dinit dstep

end GrpcModel.Driver.S_dnswatch
