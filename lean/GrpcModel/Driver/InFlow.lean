import GrpcModel.Driver.Loop
import GrpcModel.Model.InFlow
/-!
component `inflow` (C04): the real `inFlow` / `trInFlow` of internal/transport/flowcontrol.go, one
method call per op.

  init <limit>          inFlow{limit: limit}
  data <n> <p|->        onData(n)            → `ok` | `err`     (p: padding that a later `pad p` returns)
  pad <p>               onRead(p)            → increment
  req <n>               maybeAdjust(uint32(n)) → increment
  read <k>              onRead(k)            → increment
  lim <n>               newLimit(n)          → `done`
  tinit <limit> | tdata <n> | treset | tlim <n>    the same for trInFlow → increment

Every answer is followed by ` | <limit> <pendingData> <pendingUpdate> <delta>` (stream) or
` | <limit> <unacked> <effectiveWindowSize>` (connection).  The monitor keeps the peer-side ledger
(`Ghost`) from the IMPLEMENTATION's answers and judges an op only while the history so far follows
the callers' protocol (`Ghost.legal`); other histories are still diffed (uint32 wrap-around).
-/
namespace GrpcModel.Driver.InFlow
open GrpcModel.Driver GrpcModel.InFlow

structure DState where
  f : InFlow := { limit := 0 }         -- model
  gi : Ghost := Ghost.init 0           -- ghost driven by the implementation's answers
  wf : Bool := false                   -- history so far is legal (callers' protocol)
  tf : TrInFlow := { limit := 0 }
  tadv : Int := 0
  twf : Bool := false

def showOut : Out → String
  | .accepted => "ok"
  | .rejected => "err"
  | .wu w => toString w
  | .done => "done"

def showF (f : InFlow) : String := s!" | {f.limit} {f.pd} {f.pu} {f.delta}"
def showT (f : TrInFlow) : String := s!" | {f.limit} {f.unacked} {f.ews}"

def implAnswer (impl : String) : String :=
  match impl.splitOn " | " with
  | a :: _ => a
  | [] => impl

def parseOut (op : Op) (a : String) : Option Out :=
  match op with
  | .data _ _ => if a = "ok" then some .accepted else if a = "err" then some .rejected else none
  | .bdp _ => if a = "done" then some .done else none
  | _ => a.toNat?.map .wu

def parseOp (fs : List String) : Option Op :=
  match fs with
  | ["data", n, "-"] => n.toNat?.map (fun n => .data n none)
  | ["data", n, p] => do let n ← n.toNat?; let p ← p.toNat?; pure (.data n (some p))
  | ["pad", p] => p.toNat?.map .pad
  | ["req", n] => n.toNat?.map .req
  | ["read", k] => k.toNat?.map .read
  | ["lim", n] => n.toNat?.map .bdp
  | _ => none

def parseTOp (fs : List String) : Option TOp :=
  match fs with
  | ["tdata", n] => n.toNat?.map .data
  | ["treset"] => some .reset
  | ["tlim", n] => n.toNat?.map .bdp
  | _ => none

def step (st : DState) (fs : List String) (impl : String) : DState × String × String :=
  match fs with
  | ["init", l] =>
    match l.toNat? with
    | some l => ({ st with f := { limit := l }, gi := Ghost.init l, wf := decide (l ≤ maxInt32) }, "ok" ++ showF { limit := l }, "-")
    | none => (st, "bad-op", "-")
  | ["consts"] =>
    (st, s!"{GrpcModel.Generated.fcMaxWindowSize} {GrpcModel.Generated.fcDefaultWindowSize} {GrpcModel.Generated.fcBdpLimit}", "-")
  | ["tinit", l] =>
    match l.toNat? with
    | some l =>
      let tf : TrInFlow := { limit := l }
      ({ st with tf := tf, tadv := l, twf := decide (l ≤ maxInt32) }, "ok" ++ showT tf, "-")
    | none => (st, "bad-op", "-")
  | _ =>
    match parseOp fs with
    | some op =>
      let (f', o) := implStep st.f op
      let mo := showOut o ++ showF f'
      let wf := st.wf && st.gi.legal false 0 op
      match parseOut op (implAnswer impl) with
      | none => ({ st with f := f', wf := false }, mo, "VIOL unparsable or failed answer: " ++ implAnswer impl)
      | some io =>
        let verdict := if !wf then "-" else
          match st.gi.verdict op io with
          | .ok _ => "ok"
          | .error e => "VIOL " ++ e
        ({ st with f := f', gi := st.gi.next op io, wf := wf }, mo, verdict)
    | none =>
      match parseTOp fs with
      | none => (st, "bad-op", "-")
      | some op =>
        let ts : TState := { f := st.tf, adv := st.tadv }
        let (ts', w) := tstep ts op
        let mo := toString w ++ showT ts'.f
        let twf := st.twf && ts.legal op
        match (implAnswer impl).toNat? with
        | none => ({ st with tf := ts'.f, twf := false }, mo, "VIOL unparsable or failed answer: " ++ implAnswer impl)
        | some iw =>
          -- peer-side connection ledger from the implementation's increment
          let adv' : Int := match op with
            | .data n => st.tadv - n + iw
            | _ => st.tadv + iw
          let lim' : Nat := match op with
            | .bdp n => n
            | _ => st.tf.limit
          let verdict := if !twf then "-" else
            if adv' > (maxInt32 : Int) then "VIOL advertised connection window exceeds 2^31-1"
            else if adv' < 0 then "VIOL advertised connection window negative"
            else if !connRestored adv' lim' then
              "VIOL connection window not restored to within a quarter of the configured window"
            else "ok"
          ({ st with tf := ts'.f, tadv := adv', twf := twf }, mo, verdict)

def run : IO Unit := Driver.run ({} : DState) step

end GrpcModel.Driver.InFlow
