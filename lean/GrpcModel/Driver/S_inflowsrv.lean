import GrpcModel.Driver.S_inflowconn
/-!
component `s_inflowsrv` (C04, tie T2, SERVER side): a real `http2Server` transport with dynamic window
against a scripted raw HTTP/2 client (`harness/synct/c_inflowsrv_test.go`).  Registration
(`operateHeaders`: `fc: inFlow{limit: t.initialWindowSize}`), `handleData`, `updateWindow` /
`adjustWindow` and `updateFlowControl` have the same shape as on the client, so the model, the
prediction and the peer-ledger monitor are those of `S_inflowconn`; the harness lists the peer's own
HEADERS / RST_STREAM as `H<sid>` / `R<sid>:0` so that the op and answer formats coincide.
-/
namespace GrpcModel.Driver.S_inflowsrv
open GrpcModel.Driver

def run : IO Unit := Driver.run ({} : S_inflowconn.DSt) S_inflowconn.step

end GrpcModel.Driver.S_inflowsrv
