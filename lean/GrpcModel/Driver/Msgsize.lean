import GrpcModel.Driver.Loop
import GrpcModel.Model.MsgSize
/-! component `msgsize` (C21, T1): `gms <mc|-> <dopt|-> <default>` | `minp <a> <b>` | `scp <req|-> <resp|->` -/
namespace GrpcModel.Driver.Msgsize
open GrpcModel.Driver GrpcModel.MsgSize

def optInt (s : String) : Option (Option Int) :=
  if s = "-" then some none else s.toInt?.map some

def showOpt : Option Int → String
  | none => "-"
  | some v => toString v

def model (fs : List String) : String :=
  match fs with
  | ["gms", a, b, d] =>
    match optInt a, optInt b, d.toInt? with
    | some mc, some dopt, some dv => toString (getMaxSize mc dopt dv)
    | _, _, _ => "bad-op"
  | ["minp", a, b] =>
    match a.toInt?, b.toInt? with
    | some x, some y => toString (minPointers x y)
    | _, _ => "bad-op"
  | ["scp", a, b] =>
    match optInt a, optInt b with
    | some r, some p =>
      -- encoding/json refuses numbers outside int64 for an *int64 field
      let bad (o : Option Int) := match o with | some v => v > 9223372036854775807 || v < -9223372036854775808 | none => false
      if bad r || bad p then "err" else s!"{showOpt (r.map scClamp)} {showOpt (p.map scClamp)}"
    | _, _ => "bad-op"
  | _ => "bad-op"

/-- The property on one answer: the effective limit is the default when neither source is set,
    otherwise the smaller of the limits that are set. -/
def monitor (fs : List String) (impl : String) : String :=
  match fs with
  | ["gms", a, b, d] =>
    match optInt a, optInt b, d.toInt?, impl.toInt? with
    | some mc, some dopt, some dv, some r =>
      let want : Int := match mc, dopt with
        | none, none => dv
        | some x, none => x
        | none, some y => y
        | some x, some y => if x ≤ y then x else y
      if r = want then "ok" else s!"VIOL effective limit {r} is not the minimum of the configured limits ({want})"
    | _, _, _, _ => "VIOL unparsable answer " ++ impl
  | _ => "-"

def run : IO Unit := Driver.run () (pureStepMon model monitor)

end GrpcModel.Driver.Msgsize
