import GrpcModel.Driver.Loop
import GrpcModel.Model.Event
/-!
component `event` (C57, tie T3).  Op: `step <thread>` (f<n> Fire, h<n> HasFired).  The instrumented
event.go has one yield per call (before the CAS / before the Load); the winner's `close(e.c)` runs
in the same scheduled step as its CAS (rules casOk + close), the model allows other steps between.
-/
namespace GrpcModel.Driver.Event
open GrpcModel.Driver GrpcModel.Event

inductive TPc | idle | fF | hH
deriving DecidableEq, Repr

def TPc.label : TPc → String
  | .idle => "done" | .fF => "Fire:0" | .hH => "HasFired:0"

def tstep (s : St) (kind : Char) (p : TPc) : St × TPc × String :=
  match p with
  | .idle => if kind = 'f' then ((apply s .fireStart).getD s, .fF, "-") else (s, .hH, "-")
  | .fF =>
    match apply s .casOk with
    | some t => ((apply t .close).getD t, .idle, "t")
    | none => match apply s .casFail with
      | some t => (t, .idle, "f")
      | none => (s, p, "-")
  | .hH => ((apply s .hasFired).getD s, .idle, if s.fired then "t" else "f")

structure DSt where
  s : St
  threads : List (String × TPc)

def dinit : DSt := ⟨GrpcModel.Event.init, []⟩

def lookup (ts : List (String × TPc)) (n : String) : TPc := ((ts.find? (·.1 = n)).map (·.2)).getD .idle

def setPc (ts : List (String × TPc)) (n : String) (p : TPc) : List (String × TPc) :=
  if ts.any (·.1 = n) then ts.map (fun x => if x.1 = n then (n, p) else x) else ts ++ [(n, p)]

def b2n (b : Bool) : Nat := if b then 1 else 0

def render (d : DSt) (p : TPc) (ret : String) : String :=
  let busy := (d.threads.filter fun x => x.2 ≠ .idle).length
  s!"{p.label} fired={b2n d.s.fired} closed={d.s.closed} ret={ret} trues={d.s.trues} falses={d.s.falses} busy={busy}"

def field (impl key : String) : Option String :=
  (impl.splitOn " ").findSome? fun w =>
    match w.splitOn "=" with
    | [k, v] => if k = key then some v else none
    | _ => none

/-- C57 (Event clause) on the IMPLEMENTATION's report. -/
def monitor (impl : String) : String :=
  match (field impl "fired") >>= String.toNat?, (field impl "closed") >>= String.toNat?,
        (field impl "trues") >>= String.toNat?, (field impl "falses") >>= String.toNat?,
        (field impl "busy") >>= String.toNat? with
  | some fired, some closed, some trues, some falses, some busy =>
    if trues > 1 then "VIOL Fire returned true to more than one caller"
    else if busy = 0 ∧ trues + falses ≥ 1 ∧ trues ≠ 1 then "VIOL all firers returned and none was told true"
    else if falses ≥ 1 ∧ fired = 0 then "VIOL Fire returned false but the event is not fired"
    else if trues = 1 ∧ closed = 0 then "VIOL Fire returned true but Done() is not closed"
    else if closed = 1 ∧ fired = 0 then "VIOL Done() closed but HasFired is false"
    else "ok"
  | _, _, _, _, _ =>
    if impl.startsWith "PANIC" ∨ impl.startsWith "CRASH" then "-" else "VIOL unparsable: " ++ impl

/-- `cfire n rounds`: in every round n real goroutines fire a fresh Event at the same time.  By
    `fire_true_for_exactly_one` (all calls returned, at least one call) exactly one is told true in
    every round, whatever the interleaving; the event is fired and its channel closed afterwards. -/
def monitorStress (impl : String) : String :=
  match (field impl "bad") >>= String.toNat?, (field impl "maxtrue") >>= String.toNat?,
        (field impl "unfired") >>= String.toNat? with
  | some bad, some mx, some unfired =>
    if mx > 1 then s!"VIOL {mx} concurrent Fire calls on one event were all told true"
    else if bad > 0 then "VIOL concurrent Fire calls: no caller was told true"
    else if unfired > 0 then "VIOL after Fire returned the event is not fired / Done() not closed"
    else "ok"
  | _, _, _ => if impl.startsWith "PANIC" ∨ impl.startsWith "CRASH" then "-" else "VIOL unparsable: " ++ impl

def step : Step DSt := fun d fs impl =>
  match fs with
  | ["cfire", n, r] =>
    match n.toNat?, r.toNat? with
    | some n, some r =>
      if n < 1 ∨ n > 64 ∨ r < 1 then (d, "bad-op", "-")
      else (d, s!"rounds={r} bad=0 maxtrue=1 unfired=0", monitorStress impl)
    | _, _ => (d, "bad-op", "-")
  | ["step", n] =>
    match n.toList.head? with
    | some kind =>
      if kind = 'f' ∨ kind = 'h' then
        let p := lookup d.threads n
        let (s', p', ret) := tstep d.s kind p
        let d' : DSt := ⟨s', setPc d.threads n p'⟩
        (d', render d' p' ret, monitor impl)
      else (d, "bad-op", "-")
    | none => (d, "bad-op", "-")
  | _ => (d, "bad-op", "-")

def run : IO Unit := Driver.run dinit step

end GrpcModel.Driver.Event
