import GrpcModel.Driver.Loop
import GrpcModel.Model.Serializer
/-! component `s_serializer` (C31, tie T2 on the real `grpcsync.CallbackSerializer`, see
`harness/synct/c_serializer_test.go` for the op language).

Each op is a big step "external events → quiescence". The implementation reports the one thing
the model cannot know — the linearization order of the concurrent `Put`s of the op and which of
them were accepted (that fixes where the AfterFunc goroutine's `Close` fell) — and this driver
replays exactly that schedule on the small-step model `Serializer.step`: it checks that the
reported order is a legal interleaving (program order of every scheduler goroutine; a re-entrant
child only while its parent is running), inserts `fire` before the first rejected `Put`, runs the
run goroutine to quiescence, and prints what the model then observed in the same format. Any
illegal or different observation is a divergence.

The verdict is the trace monitor `Serializer.Mon` (theorem `serializer_monitor_ok`) fed with the
IMPLEMENTATION's events of the op, followed by `Mon.quiescent` (theorem `serializer_quiescent_ok`).
-/
namespace GrpcModel.Driver.S_serializer
open GrpcModel GrpcModel.Driver GrpcModel.Serializer

inductive Kind
  | plain
  | blocking
  | nested (child : Nat)
deriving Repr, DecidableEq

structure DSt where
  ser       : St Nat
  kinds     : List (Nat × Kind)
  released  : List Nat
  childPut  : List Nat        -- nested parents whose child has been scheduled
  waiting   : List Nat        -- ScheduleAndWait callers still blocked
  rejectedW : List Nat        -- ScheduleAndWait callbacks that were rejected
  endedIds  : List Nat
  mon       : Mon Nat
  cancelReq : Bool
  -- per-op scratch
  evs       : List (Ev Nat)          -- model events of this op, reversed
  puts      : List (Nat × Bool)      -- model puts of this op, reversed
  bad       : Option String

def dinit : DSt :=
  { ser := (Serializer.step Serializer.init .run).1, kinds := [], released := [], childPut := [], waiting := [],
    rejectedW := [], endedIds := [], mon := Mon.init, cancelReq := false, evs := [], puts := [], bad := none }

def kindOf (d : DSt) (id : Nat) : Kind := (d.kinds.lookup id).getD .plain

def act (d : DSt) (a : Act Nat) : DSt :=
  let r := Serializer.step d.ser a
  let d := { d with ser := r.1, evs := r.2 :: d.evs }
  match r.2 with
  | .accepted cb => { d with puts := (cb, true) :: d.puts }
  | .rejected cb => { d with puts := (cb, false) :: d.puts }
  | .ended cb => { d with endedIds := cb :: d.endedIds }
  | _ => d

/-- `fire` if it is enabled (cancel requested, AfterFunc registered, not fired yet). -/
def fireIfDue (d : DSt) : DSt :=
  if d.ser.cancelled && d.ser.registered && !d.ser.fired then act d .fire else d

/-- One scheduling action as the implementation reported it (`acc` = accepted): a reported
    rejection while the model's buffer is still open means `Close` ran just before it. -/
def sched (d : DSt) (id : Nat) (acc : Bool) : DSt :=
  let d := if !acc then fireIfDue d else d
  act d (.sched id)

/-- Run the run goroutine until it is parked (or, with `stopAt = some p`, until callback `p` is
    running). Plain callbacks return at once; a nested callback schedules its child (if the
    implementation's order has not already placed that Put) and returns; a blocking callback
    returns only once released. -/
def drive (stopAt : Option Nat) : Nat → DSt → DSt
  | 0, d => d
  | n + 1, d =>
    match d.ser.pc with
    | .running id =>
      if stopAt = some id then d else
      match kindOf d id with
      | .plain => drive stopAt n (act d .ret)
      | .blocking => if d.released.contains id then drive stopAt n (act d .ret) else d
      | .nested c =>
        if d.childPut.contains id then drive stopAt n (act d .ret)
        else drive stopAt n (act { d with childPut := id :: d.childPut } (.sched c))
    | .exited => d
    | _ =>
      let r := Serializer.step d.ser .run
      if r.1 = d.ser then d else drive stopAt n (act d .run)

def fuel (d : DSt) : Nat := 8 * (work d.ser + 4) + 64

def parentOf (d : DSt) (c : Nat) : Option Nat :=
  (d.kinds.find? fun p => p.2 = .nested c).map (·.1)

/-- Remove `id` if it is the head of one of the chains. -/
def popHead (id : Nat) : List (List Nat) → Option (List (List Nat))
  | [] => none
  | (x :: t) :: rest => if x = id then some (t :: rest) else (popHead id rest).map ((x :: t) :: ·)
  | [] :: rest => (popHead id rest).map ([] :: ·)

/-- Replay the implementation's Put order on the model. -/
def replayPuts : List (Nat × Bool) → List (List Nat) → DSt → DSt × List (List Nat)
  | [], chains, d => (d, chains)
  | (id, acc) :: rest, chains, d =>
    match popHead id chains with
    | some chains' => replayPuts rest chains' (sched d id acc)
    | none =>
      match parentOf d id with
      | some p =>
        if d.childPut.contains p then replayPuts rest chains { d with bad := some s!"child {id} put twice" }
        else
          let d := drive (some p) (fuel d) d
          if d.ser.pc = .running p then
            replayPuts rest chains (sched { d with childPut := p :: d.childPut } id acc)
          else replayPuts rest chains { d with bad := some s!"child {id} put while parent {p} cannot be running" }
      | none => replayPuts rest chains { d with bad := some s!"put {id} breaks program order" }

def parseItem (s : String) : Option (Nat × Kind) :=
  match s.toList with
  | 'p' :: r => (String.ofList r).toNat?.map (·, .plain)
  | 'b' :: r => (String.ofList r).toNat?.map (·, .blocking)
  | 'n' :: r =>
    match (String.ofList r).splitOn "." with
    | [a, b] => do let x ← a.toNat?; let y ← b.toNat?; pure (x, .nested y)
    | _ => none
  | _ => none

/-- `conc` arguments → (cancel?, chains with kinds). -/
def parseConc : List String → Option (Bool × List (List (Nat × Kind)))
  | [] => some (false, [])
  | "cancel" :: rest => (parseConc rest).map fun (_, cs) => (true, cs)
  | g :: rest =>
    if g.startsWith "g:" then do
      let items ← ((g.drop 2).toString.splitOn ",").mapM parseItem
      let (c, cs) ← parseConc rest
      pure (c, items :: cs)
    else none

def parsePut (s : String) : Option (Nat × Bool) :=
  if s.endsWith "+" then (s.dropEnd 1).toString.toNat?.map (·, true)
  else if s.endsWith "-" then (s.dropEnd 1).toString.toNat?.map (·, false)
  else none

def parseList {β : Type} (f : String → Option β) (s : String) : Option (List β) :=
  if s = "-" then some [] else (s.splitOn ",").mapM f

structure ImplOut where
  puts : List (Nat × Bool)
  run  : List (Bool × Nat)     -- (isStart, id)
  rets : List (Nat × Bool)     -- (id, ok)
  done : Bool

def parseRunEv (s : String) : Option (Bool × Nat) :=
  match s.toList with
  | 's' :: r => (String.ofList r).toNat?.map (true, ·)
  | 'e' :: r => (String.ofList r).toNat?.map (false, ·)
  | _ => none

def parseRet (s : String) : Option (Nat × Bool) :=
  match s.splitOn ":" with
  | [a, "ok"] => a.toNat?.map (·, true)
  | [a, "closed"] => a.toNat?.map (·, false)
  | _ => none

def parseImpl (s : String) : Option ImplOut :=
  match s.splitOn " " with
  | [p, r, t, d] =>
    if p.startsWith "put=" && r.startsWith "run=" && t.startsWith "ret=" && d.startsWith "done=" then do
      let puts ← parseList parsePut (p.drop 4).toString
      let run ← parseList parseRunEv (r.drop 4).toString
      let rets ← parseList parseRet (t.drop 4).toString
      pure { puts, run, rets, done := (d.drop 5).toString = "1" }
    else none
  | _ => none

def showList (l : List String) : String := if l.isEmpty then "-" else ",".intercalate l

def insertSorted (x : Nat × Bool) : List (Nat × Bool) → List (Nat × Bool)
  | [] => [x]
  | y :: t => if x.1 ≤ y.1 then x :: y :: t else y :: insertSorted x t

/-- The model's observation of the op, in the implementation's output format, and the new state. -/
def finish (d : DSt) : DSt × String :=
  let d := fireIfDue d
  let d := drive none (fuel d) d
  let evs := d.evs.reverse
  let puts := d.puts.reverse.map fun (id, a) => s!"{id}{if a then "+" else "-"}"
  let run := evs.filterMap fun e => match e with
    | .started cb => some s!"s{cb}"
    | .ended cb => some s!"e{cb}"
    | _ => none
  let rejNow := d.puts.filterMap fun (id, a) => if a then none else some id
  let rejW := d.rejectedW ++ rejNow.filter (d.waiting.contains ·)
  let retd := d.waiting.filter fun id => d.endedIds.contains id || rejW.contains id
  let rets := (retd.foldl (fun acc id => insertSorted (id, !rejW.contains id) acc) []).map
    fun (id, ok) => s!"{id}:{if ok then "ok" else "closed"}"
  let out := s!"put={showList puts} run={showList run} ret={showList rets} done={if d.ser.done then 1 else 0}"
  let out := match d.bad with | some b => out ++ " ILLEGAL-SCHEDULE:" ++ b.replace " " "_" | none => out
  ({ d with waiting := d.waiting.filter (!retd.contains ·), rejectedW := rejW, evs := [], puts := [], bad := none }, out)

/-- Feed the implementation's events of this op to the monitor. -/
def monitorOp (m : Mon Nat) (cancelNow cancelReq : Bool) (io : ImplOut) : Mon Nat × String :=
  let wasDone := m.doneSeen
  let evs : List (Ev Nat) :=
    (if cancelNow then [.cancelled] else []) ++
    io.puts.map (fun (id, a) => if a then .accepted id else .rejected id) ++
    io.run.map (fun (st, id) => if st then .started id else .ended id) ++
    (if io.done && !wasDone then [.done] else [])
  let r := Mon.run m evs
  let firstViol := r.2.findSome? fun v => match v with | .viol c => some c | _ => none
  let v := match firstViol with
    | some c => "VIOL " ++ violText c
    | none =>
      if wasDone && !io.done then "VIOL done channel reopened" else
      match r.1.quiescent (cancelReq || cancelNow) with
      | .viol c => "VIOL " ++ violText c
      | _ => "ok"
  (r.1, v)

def step : Step DSt := fun d fs impl =>
  let io? := parseImpl impl
  let io := io?.getD { puts := [], run := [], rets := [], done := false }
  let go (d : DSt) (chains : List (List Nat)) (cancelNow : Bool) : DSt × String × String :=
    let d := if cancelNow then act d .cancel else d
    let (d, left) := replayPuts io.puts chains d
    -- Puts the implementation did not report: the model performs them itself (→ divergence)
    let d := left.foldl (fun d ch => ch.foldl (fun d id => act d (.sched id)) d) d
    let (d, out) := finish { d with cancelReq := d.cancelReq || cancelNow }
    let (m, v) := monitorOp d.mon cancelNow d.cancelReq io
    let v := if io?.isNone then "VIOL unparsable implementation output" else v
    ({ d with mon := m }, out, v)
  match fs with
  | "conc" :: gs =>
    match parseConc gs with
    | none => (d, "bad-op", "-")
    | some (c, chains) =>
      let kinds := chains.flatten
      go { d with kinds := d.kinds ++ kinds } (chains.map (·.map (·.1))) c
  | ["wait", n] =>
    match n.toNat? with
    | none => (d, "bad-op", "-")
    | some id => go { d with kinds := d.kinds ++ [(id, .plain)], waiting := d.waiting ++ [id] } [[id]] false
  | ["rel", n] =>
    match n.toNat? with
    | none => (d, "bad-op", "-")
    | some id => go { d with released := id :: d.released } [] false
  | ["cancel"] => go d [] true
  | _ => (d, "bad-op", "-")

def run : IO Unit := Driver.run dinit step

end GrpcModel.Driver.S_serializer
