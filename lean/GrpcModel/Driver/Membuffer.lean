import GrpcModel.Driver.Loop
import GrpcModel.Model.MemBuffer
/-! component `membuffer` (C53): mem.Buffer / BufferSlice / Reader over a tracking, poisoning pool.

    slots hold Buffer values, readers are numbered. Answers end with the pool events of the op,
    ` | G<mem>:<n> P<mem> …`. Kinds: `buf` (*buffer) `sl` (SliceBuffer) `empty` `nil`.

    thresh n | newbuf d n | newnil d n cap | copy d n                       → kind
    ref v | free v → ok ; len v → n ; data v → hex
    slice d v s e → kind [same] ; split dl dr v n → kind kind ; read d v n → hex kind
    mat v… → hex ; mattobuf d v… → kind [same]
    reader r v… → ok n ; rread r n → hex|eof ; rbyte r → hh|eof ; rdiscard r n → k ok|short
    rpeek r n → hex|short ; rclose r → ok ; rrem r → n ; readall d r → 0 | 1 hex
    a Go panic is `err`.
-/
namespace GrpcModel.Driver.Membuffer
open GrpcModel.Driver GrpcModel.MemBuffer

def showEv : Ev → String
  | .get m n => s!"G{m}:{n}"
  | .put m => s!"P{m}"

def withEvs (s : String) (evs : List Ev) : String :=
  if evs.isEmpty then s else s ++ " | " ++ " ".intercalate (evs.map showEv)

def kind : Val → String
  | .buf _ => "buf" | .sl _ _ => "sl" | .empty => "empty" | .nil => "nil"

def getSlot (st : St) (i : Nat) : Option Val := st.slots.lookup i
def setSlot (st : St) (i : Nat) (v : Val) : St := { st with slots := (i, v) :: st.slots.filter (·.1 != i) }
def getRd (st : St) (i : Nat) : Option Rd := st.readers.lookup i
def setRd (st : St) (i : Nat) (r : Rd) : St := { st with readers := (i, r) :: st.readers.filter (·.1 != i) }

def nums (l : List String) : Option (List Nat) := l.mapM String.toNat?

/-- ghost: references handed out on memory m (to the client or to readers) and not yet freed -/
def outstanding (st : St) (m : Nat) : Nat :=
  (st.objs.filter fun o => match st.objs[o.root]? with
    | some r => r.mem == m && r.root == o.root
    | none => false).foldl (fun a o => a + o.own) 0

def implEvents (impl : String) : List String :=
  match impl.splitOn " | " with
  | [_, e] => e.splitOn " "
  | _ => []

def implPuts (impl : String) : List Nat :=
  (implEvents impl).filterMap fun e => if e.startsWith "P" then (e.drop 1).toString.toNat? else none

def implMain (impl : String) : String := (impl.splitOn " | ").headD ""

def dedupN : List Nat → List Nat
  | [] => []
  | x :: xs => let r := dedupN xs; if r.contains x then r else x :: r

/-- C53 on the pool events of one op: the pool gets memory m back exactly in the op that frees the
    last outstanding reference to it (root, Ref copies, slices, splits, reader holdings, materialized
    buffers), never before, never twice. -/
def putVerdict (before after : St) (impl : String) : String :=
  let puts := implPuts impl
  if puts.length ≠ (dedupN puts).length then "VIOL memory returned to the pool twice"
  else
    let nb := before.mems.length
    match puts.find? (fun m => m < nb && (before.mems[m]?.map (·.puts)).getD 0 > 0) with
    | some m => s!"VIOL memory {m} returned to the pool a second time"
    | none =>
      match puts.find? (fun m => outstanding after m > 0) with
      | some m => s!"VIOL memory {m} returned to the pool while a reference to it is live"
      | none =>
        match (List.range nb).find? (fun m => outstanding before m > 0 && outstanding after m == 0 && !(puts.contains m)) with
        | some m => s!"VIOL memory {m} not returned to the pool when its last reference was freed"
        | none =>
          match puts.find? (fun m => m < nb && outstanding before m == 0) with
          | some m => s!"VIOL memory {m} returned to the pool although no reference was outstanding"
          | none => "ok"

/-- bytes read through a live reference are the original bytes -/
def bytesVerdict (expected : Option Bytes) (implHex : String) : String :=
  match expected with
  | none => "ok"
  | some b => if hex b = implHex then "ok" else "VIOL a live reference does not read the original bytes"

def both (a b : String) : String := if a.startsWith "VIOL" then a else if b.startsWith "VIOL" then b else
  if a = "ok" || b = "ok" then "ok" else "-"

structure R where
  st : St
  out : String
  evs : List Ev := []
  bytes : Option Bytes := none     -- payload bytes this op must have read (monitor)

def err (st : St) : R := ⟨st, "err", [], none⟩

def vals (st : St) (ids : List Nat) : Option (List Val) := ids.mapM (getSlot st)

def exec (st : St) (fs : List String) : R :=
  match fs with
  | ["thresh", n] => match n.toNat? with
    | some n => ⟨{ st with thresh := n }, "ok", [], none⟩
    | none => ⟨st, "bad-op", [], none⟩
  | ["newbuf", d, n] => match nums [d, n] with
    | some [d, n] =>
      let g := poolGet st n (pat d n)
      let r := newBuffer g.1 g.2.1 n
      ⟨setSlot r.1 d r.2, kind r.2, [g.2.2], none⟩
    | _ => ⟨st, "bad-op", [], none⟩
  | ["newnil", d, n, c] => match nums [d, n, c] with
    | some [d, n, c] =>
      let v := Val.sl (pat d n ++ List.replicate (c - n) 0) n
      ⟨setSlot st d v, kind v, [], none⟩
    | _ => ⟨st, "bad-op", [], none⟩
  | ["copy", d, n] => match nums [d, n] with
    | some [d, n] => let r := copyVal st (pat d n); ⟨setSlot r.1 d r.2.1, kind r.2.1, r.2.2, none⟩
    | _ => ⟨st, "bad-op", [], none⟩
  | ["ref", v] => match v.toNat? >>= getSlot st with
    | some x => match refVal st x with
      | some s => ⟨s, "ok", [], none⟩
      | none => err st
    | none => ⟨st, "bad-op", [], none⟩
  | ["free", v] => match v.toNat? >>= getSlot st with
    | some x => match freeVal st x with
      | some r => ⟨r.1, "ok", r.2, none⟩
      | none => err st
    | none => ⟨st, "bad-op", [], none⟩
  | ["len", v] => match v.toNat? >>= getSlot st with
    | some x => match lenOf st x with
      | some n => ⟨st, toString n, [], none⟩
      | none => err st
    | none => ⟨st, "bad-op", [], none⟩
  | ["data", v] => match v.toNat? >>= getSlot st with
    | some x => match dataOf st x with
      | some b => ⟨st, hex b, [], some b⟩
      | none => err st
    | none => ⟨st, "bad-op", [], none⟩
  | ["slice", d, v, s, e] => match nums [d, v, s, e] with
    | some [d, v, s, e] => match getSlot st v with
      | some x => match sliceVal st x s e with
        | some r => ⟨setSlot r.1 d r.2, kind r.2 ++ (if r.2 == x && kind x == "buf" then " same" else ""), [], none⟩
        | none => err st
      | none => ⟨st, "bad-op", [], none⟩
    | _ => ⟨st, "bad-op", [], none⟩
  | ["split", dl, dr, v, n] => match nums [dl, dr, v, n] with
    | some [dl, dr, v, n] => match getSlot st v with
      | some x => match splitVal st x n with
        | some r => ⟨setSlot (setSlot r.1 dl r.2.1) dr r.2.2, kind r.2.1 ++ " " ++ kind r.2.2, [], none⟩
        | none => err st
      | none => ⟨st, "bad-op", [], none⟩
    | _ => ⟨st, "bad-op", [], none⟩
  | ["read", d, v, n] => match nums [d, v, n] with
    | some [d, v, n] => match getSlot st v with
      | some x => match readVal st x n with
        | some r => ⟨setSlot r.1 d r.2.2.1, hex r.2.1 ++ " " ++ kind r.2.2.1, r.2.2.2, some r.2.1⟩
        | none => err st
      | none => ⟨st, "bad-op", [], none⟩
    | _ => ⟨st, "bad-op", [], none⟩
  | "mat" :: vs => match nums vs >>= vals st with
    | some xs => match dataAll st xs with
      | some b => ⟨st, hex b, [], some b⟩
      | none => err st
    | none => ⟨st, "bad-op", [], none⟩
  | "mattobuf" :: d :: vs => match d.toNat?, nums vs >>= vals st with
    | some d, some xs => match matToBuf st xs with
      | some r => ⟨setSlot r.1 d r.2.1, kind r.2.1 ++ (if xs.length = 1 && kind r.2.1 == "buf" then " same" else ""), r.2.2, none⟩
      | none => err st
    | _, _ => ⟨st, "bad-op", [], none⟩
  | "reader" :: r :: vs => match r.toNat?, nums vs >>= vals st with
    | some r, some xs => match refAll st xs with
      | some s => match lenAll s xs with
        | some n => ⟨setRd s r ⟨xs, n, 0⟩, s!"ok {n}", [], none⟩
        | none => err st
      | none => err st
    | _, _ => ⟨st, "bad-op", [], none⟩
  | ["rread", r, n] => match nums [r, n] with
    | some [r, n] => match getRd st r with
      | some rd =>
        if rd.len = 0 then ⟨st, "eof", [], none⟩ else
        match rdRead (rd.data.length + n + 1) st rd n [] [] with
        | some (s, rd2, b, evs) => ⟨setRd s r rd2, hex b, evs, some b⟩
        | none => err st
      | none => ⟨st, "bad-op", [], none⟩
    | _ => ⟨st, "bad-op", [], none⟩
  | ["rbyte", r] => match r.toNat? with
    | some r => match getRd st r with
      | some rd => match rdByte st rd with
        | some (s, rd2, some b, evs) => ⟨setRd s r rd2, hex [b], evs, some [b]⟩
        | some (_, _, none, _) => ⟨st, "eof", [], none⟩
        | none => err st
      | none => ⟨st, "bad-op", [], none⟩
    | none => ⟨st, "bad-op", [], none⟩
  | ["rdiscard", r, n] => match nums [r, n] with
    | some [r, n] => match getRd st r with
      | some rd => match rdDiscard (rd.data.length + n + 1) st rd n [] with
        | some (s, rd2, left, evs) => ⟨setRd s r rd2, s!"{n - left} " ++ (if left > 0 then "short" else "ok"), evs, none⟩
        | none => err st
      | none => ⟨st, "bad-op", [], none⟩
    | _ => ⟨st, "bad-op", [], none⟩
  | ["rpeek", r, n] => match nums [r, n] with
    | some [r, n] => match getRd st r with
      | some rd => match rdPeek st rd n with
        | some (some b) => ⟨st, hex b, [], some b⟩
        | some none => ⟨st, "short", [], none⟩
        | none => err st
      | none => ⟨st, "bad-op", [], none⟩
    | _ => ⟨st, "bad-op", [], none⟩
  | ["rclose", r] => match r.toNat? with
    | some r => match getRd st r with
      | some rd => match freeAll st rd.data with
        | some (s, evs) => ⟨setRd s r ⟨[], 0, rd.idx⟩, "ok", evs, none⟩
        | none => err st
      | none => ⟨st, "bad-op", [], none⟩
    | none => ⟨st, "bad-op", [], none⟩
  | ["rrem", r] => match r.toNat? >>= getRd st with
    | some rd => ⟨st, toString rd.len, [], none⟩
    | none => ⟨st, "bad-op", [], none⟩
  | ["readall", d, r] => match nums [d, r] with
    | some [d, r] => match getRd st r with
      | some rd => match readAll st rd with
        | some (s, rd2, some v, evs) =>
          let b := (dataOf s v).getD []
          ⟨setSlot (setRd s r rd2) d v, "1 " ++ hex b, evs, some b⟩
        | some (s, rd2, none, evs) => ⟨setSlot (setRd s r rd2) d .nil, "0", evs, none⟩
        | none => err st
      | none => ⟨st, "bad-op", [], none⟩
    | _ => ⟨st, "bad-op", [], none⟩
  | ["dbg"] => ⟨st, "dbg " ++ " ".intercalate (st.objs.map fun o => s!"(r{o.refs} o{o.own} root{o.root} m{o.mem} k{o.kids.length} {o.off}+{o.len})") ++ " outs " ++ " ".intercalate ((List.range st.mems.length).map fun m => toString (outstanding st m)), [], none⟩
  | _ => ⟨st, "bad-op", [], none⟩

def readsBytes (fs : List String) : Bool :=
  match fs with
  | op :: _ => ["data", "read", "mat", "rread", "rbyte", "rpeek", "readall"].contains op
  | [] => false

def implBytes (fs : List String) (impl : String) : String :=
  let m := implMain impl
  match fs with
  | "read" :: _ => (m.splitOn " ").headD ""
  | "readall" :: _ => match m.splitOn " " with | [_, h] => h | _ => ""
  | _ => m

def step (st : St) (fs : List String) (impl : String) : St × String × String :=
  if st.dead then (st, "*", "-") else
  let r := exec st fs
  let r := if r.out = "err" then { r with st := { r.st with dead := true } } else r
  let out := withEvs r.out r.evs
  -- an op the model rejects (misuse: over-free, use after free, out of range) is outside the property
  if r.out = "bad-op" || r.out = "err" then (r.st, out, "-") else
  let pv := putVerdict st r.st impl
  let bv := if readsBytes fs && r.bytes.isSome && implMain impl != "err" then bytesVerdict r.bytes (implBytes fs impl) else "-"
  (r.st, out, both pv bv)

def run : IO Unit := Driver.run ({} : St) step

end GrpcModel.Driver.Membuffer
