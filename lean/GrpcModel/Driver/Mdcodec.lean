import GrpcModel.Driver.Loop
import GrpcModel.Model.MdWire
/-! component `mdcodec` (C09, tie T1): isReservedHeader / isWhitelistedHeader, encodeMetadataHeader /
    decodeMetadataHeader, imetadata.Validate, AppendToOutgoingContext key lower-casing. See
    harness/cmd/impl/c_mdcodec.go. No monitor (the property is judged end to end by `s_mdwire`). -/
namespace GrpcModel.Driver.Mdcodec
open GrpcModel.Driver GrpcModel.Headers GrpcModel.MdWire GrpcModel
open GrpcModel.Base64 (Bytes)

def parseVal (s : String) : Option Bytes := if s = "~" then some [] else unhex s

def parseMD (s : String) : Option MD :=
  if s = "-" then some [] else
  (s.splitOn ";").mapM fun p =>
    match p.splitOn "=" with
    | [k, vs] => do
      let k ← unhex k
      let vals ← if vs = "" then some [] else (vs.splitOn ",").mapM parseVal
      pure (k, vals)
    | _ => none

def bit (b : Bool) : String := if b then "1" else "0"

def model (fs : List String) : Option String :=
  match fs with
  | ["res", n] => do
    let n ← unhex n
    pure (bit (isReservedHeader n) ++ bit (isWhitelistedHeader n))
  | ["enc", k, v] => do pure (hex (encodeMetadataHeader (← unhex k) (← unhex v)))
  | ["dec", k, v] => do
    match decodeMetadataHeader (← unhex k) (← unhex v) with
    | some b => pure ("ok " ++ hex b)
    | none => pure "err"
  | ["valid", md] => do pure (if validate (← parseMD md) then "ok" else "err")
  | ["append", k] => do
    let k ← unhex k
    -- strings.ToLower is modelled on ASCII only
    pure (if k.all (· < 128) then hex (lower k) else "*")
  | _ => none

def run : IO Unit := Driver.run () (pureStep fun fs => (model fs).getD "bad-op")

end GrpcModel.Driver.Mdcodec
