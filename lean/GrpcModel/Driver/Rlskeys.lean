import GrpcModel.Driver.Loop
import GrpcModel.Model.RLSKeys
/-! component `rlskeys` (C41).  Ops and encoding: see harness/cmd/impl/c_rlskeys.go. -/
namespace GrpcModel.Driver.Rlskeys
open GrpcModel.Driver GrpcModel.RLSKeys

def splitL (s sep : String) : List String := if s = "-" ∨ s = "" then [] else s.splitOn sep

def hx (s : Str) : String := hex s

def parseNames (s : String) : Option (List NameP) :=
  (splitL s ";").mapM fun n => match n.splitOn ":" with
    | [a, b] => do pure { service := ← unhex a, method := ← unhex b }
    | _ => none

def parseHeaders (s : String) : Option (List HeaderP) :=
  (splitL s ";").mapM fun h => match h.splitOn ":" with
    | [k, r, ns] => do
      let names ← (splitL ns "|").mapM unhex
      pure { key := ← unhex k, names := names, requiredMatch := r = "1" }
    | _ => none

def parseConsts (s : String) : Option (List (Str × Str)) := do
  let l ← (splitL s ";").mapM fun c => match c.splitOn ":" with
    | [k, v] => do pure (← unhex k, ← unhex v)
    | _ => none
  -- a Go map literal filled in order: the last assignment to a key wins
  pure (l.foldl (fun m c => put m c.1 c.2) [])

def putMD : List (Str × List Str) → Str → List Str → List (Str × List Str)
  | [], k, v => [(k, v)]
  | (k', v') :: t, k, v => if k' = k then (k, v) :: t else (k', v') :: putMD t k v

def parseMD (s : String) : Option (List (Str × List Str)) := do
  let l ← (splitL s ";").mapM fun it => match it.splitOn ":" with
    | [k] => do pure (← unhex k, ([] : List Str))
    | [k, vs] => do
      let vals ← if vs = "" then pure [] else (vs.splitOn "|").mapM unhex
      pure (← unhex k, vals)
    | _ => none
  pure (l.foldl (fun m c => putMD m c.1 c.2) [])

def showMap (m : List (Str × Str)) : String :=
  if m.isEmpty then "-" else ";".intercalate ((sortKV m).map fun p => hx p.1 ++ ":" ++ hx p.2)

structure DSt where
  cfg : List KB := []
  bm : Option (List (Str × Builder)) := none

def sortStr (l : List Str) : List Str := (sortKV (l.map fun s => (s, ([] : Str)))).map (·.1)

/-- parse `map=… str=…` of an implementation answer -/
def parseImplMap (impl : String) : Option (List (Str × Str)) :=
  match (impl.splitOn " ").head? with
  | some w =>
    if w.startsWith "map=" then
      (splitL (w.drop 4).toString ";").mapM fun c => match c.splitOn ":" with
        | [k, v] => do pure (← unhex k, ← unhex v)
        | _ => none
    else none
  | none => none

/-- C41 (key clause) on the implementation's answer: every key of the returned map has the value the
    statement prescribes, and no prescribed key is missing. -/
def monitorKey (bm : List (Str × Builder)) (md : List (Str × List Str)) (host path : Str) (impl : String) : String :=
  match findBuilder bm path with
  | none => if impl = "none" then "ok" else "VIOL a key map was built for a path without key builder"
  | some b =>
    match parseImplMap impl with
    | none => "VIOL no key map for a path that has a key builder: " ++ impl
    | some m =>
      let i := afterLastSlash path
      let spec := keySpec b md host (path.take i) (path.drop i)
      let cands := b.constantKeys.map (·.1) ++ [b.methodKey, b.serviceKey, b.hostKey] ++ b.headerKeys.map (·.key)
      if m.any (fun p => spec p.1 ≠ some p.2) then "VIOL key map contains a key/value the key builder does not prescribe"
      else if cands.any (fun k => (spec k).isSome ∧ (mget m k).isNone) then "VIOL key map lacks a prescribed key"
      else "ok"

def step : Step DSt := fun d fs impl =>
  match fs with
  | ["kb", ns, hs, cs, h, s, m] =>
    match parseNames ns, parseHeaders hs, parseConsts cs, unhex h, unhex s, unhex m with
    | some ns, some hs, some cs, some h, some s, some m =>
      ({ d with cfg := d.cfg ++ [{ names := ns, headers := hs, constantKeys := cs, host := h, service := s, method := m }] }, "ok", "-")
    | _, _, _, _, _, _ => (d, "bad-op", "-")
  | ["build"] =>
    match makeBuilderMap d.cfg with
    | none => ({ d with bm := none }, "err", "-")
    | some bm => ({ d with bm := some bm }, "ok " ++ ",".intercalate ((sortStr (bm.map (·.1))).map hx), "-")
  | ["key", h, p, mds] =>
    match d.bm, unhex h, unhex p, parseMD mds with
    | none, _, _, _ => (d, "nomap", "-")
    | some bm, some h, some p, some md =>
      let out := match rlsKey bm md h p with
        | none => "none"
        | some kv => s!"map={showMap kv} str={hx (mapToString kv)}"
      (d, out, monitorKey bm md h p impl)
    | _, _, _, _ => (d, "bad-op", "-")
  | ["share", h, p, md1, md2] =>
    match d.bm, unhex h, unhex p, parseMD md1, parseMD md2 with
    | none, _, _, _, _ => (d, "nomap", "-")
    | some bm, some h, some p, some m1, some m2 =>
      let k1 := rlsKey bm m1 h p
      let k2 := rlsKey bm m2 h p
      let mapseq := (k1.map sortKV) == (k2.map sortKV)
      let streq := mapToString (k1.getD []) == mapToString (k2.getD [])
      let b (x : Bool) := if x then "1" else "0"
      let verdict :=
        if (impl.splitOn " ").contains "mapseq=0" ∧ (impl.splitOn " ").contains "shared=1" then
          "VIOL two requests with different key maps share a cache entry"
        else if (impl.splitOn " ").contains "mapseq=1" ∧ (impl.splitOn " ").contains "shared=0" then
          "VIOL two requests with equal key maps do not share a cache entry"
        else "ok"
      (d, s!"mapseq={b mapseq} streq={b streq} shared={b streq}", verdict)
    | _, _, _, _, _ => (d, "bad-op", "-")
  | _ => (d, "bad-op", "-")

def run : IO Unit := Driver.run ({} : DSt) step

end GrpcModel.Driver.Rlskeys
