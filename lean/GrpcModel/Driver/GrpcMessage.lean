import GrpcModel.Driver.Loop
import GrpcModel.Model.GrpcMessage
/-! component `grpcmessage` (C08):
    `enc <hex>` / `encu <hex>` → hex of encodeGrpcMessage / …Unchecked ;
    `dec <hex>` / `decu <hex>` → hex of decodeGrpcMessage / …Unchecked ;
    `rt <hex>` → `<hex of e = encodeGrpcMessage(m)> <hex of decodeGrpcMessage(e)>` -/
namespace GrpcModel.Driver.GrpcMessage
open GrpcModel.Driver GrpcModel.GrpcMessage GrpcModel.Utf8

def showOpt : Option (List UInt8) → String
  | some bs => hex bs
  | none => "PANIC"

/-- C08 evaluated on the implementation's answers. -/
def monitor (fs : List String) (impl : String) : String :=
  match fs with
  | [op, h] =>
    match unhex h with
    | none => "-"
    | some m =>
      if op == "enc" || op == "encu" then
        match unhex impl with
        | none => "VIOL encoder gave no value: " ++ impl
        | some e =>
          if !e.all printable then "VIOL encoded grpc-message contains a byte outside printable ASCII"
          else if decode e != sanitize m then "VIOL encoded grpc-message does not decode to the (sanitized) message"
          else "ok"
      else if op == "dec" || op == "decu" then
        match unhex impl with
        | none => "VIOL decoder gave no value (panic?): " ++ impl
        | some _ => "ok"
      else if op == "rt" then
        match impl.splitOn " " with
        | [eh, dh] =>
          match unhex eh, unhex dh with
          | some e, some d =>
            if !e.all printable then "VIOL encoded grpc-message contains a byte outside printable ASCII"
            else if valid m && d != m then "VIOL valid UTF-8 message does not round-trip"
            else if d != sanitize m then "VIOL round trip changed more than invalid bytes -> U+FFFD"
            else "ok"
          | _, _ => "VIOL unparsable answer: " ++ impl
        | _ => "VIOL unparsable answer (panic?): " ++ impl
      else "-"
  | _ => "-"

def model (fs : List String) : String :=
  match fs with
  | [op, h] =>
    match unhex h with
    | none => "bad-op"
    | some m =>
      if op == "enc" then hex (encode m)
      else if op == "encu" then hex (encodeUnchecked m)
      else if op == "dec" then showOpt (decodeP m)
      else if op == "decu" then showOpt (decodeUncheckedP m)
      else if op == "rt" then
        let e := encode m
        hex e ++ " " ++ showOpt (decodeP e)
      else "bad-op"
  | _ => "bad-op"

def run : IO Unit := Driver.run () (pureStepMon model monitor)

end GrpcModel.Driver.GrpcMessage
