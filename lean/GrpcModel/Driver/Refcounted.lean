import GrpcModel.Driver.Loop
import GrpcModel.Model.RefCounted
/-!
component `refcounted` (C57, tie T3).  Op: `step <thread>` (i<n> TryIncrement, a<n> Increment,
d<n> Decrement): the named goroutine performs its next atomic access of `refCount`.  The driver
keeps, next to the counting state `St` of the proved transition system, the program point of every
named thread — only to pick WHICH rule of `GrpcModel.RefCounted.apply` the step is an instance of
and to predict the yield label the real goroutine parks at next.  Every state change goes through
`apply`.
-/
namespace GrpcModel.Driver.Refcounted
open GrpcModel.Driver GrpcModel.RefCounted

inductive TPc
  | idle            -- no call in flight
  | iL              -- TryIncrement: before the Load
  | iC (c : Int)    -- TryIncrement: before the CAS, loaded c
  | aA              -- Increment: before the Add
  | dD              -- Decrement: before the Add
deriving DecidableEq, Repr

def TPc.label : TPc → String
  | .idle => "done"
  | .iL => "TryIncrement:0"
  | .iC _ => "TryIncrement:1"
  | .aA => "Increment:0"
  | .dD => "Decrement:0"

/-- first enabled rule fires -/
def fire (s : St) (stay : TPc) : List (Rule × TPc × String) → St × TPc × String
  | [] => (s, stay, "-")
  | (r, p, ret) :: rest => match apply s r with
    | some t => (t, p, ret)
    | none => fire s stay rest

/-- One scheduled step of thread `kind` at program point `p`: (state, next point, return value). -/
def tstep (s : St) (kind : Char) (p : TPc) : St × TPc × String :=
  match p with
  | .idle =>
    if kind = 'i' then fire s p [(.tryStart, .iL, "-")]
    else if kind = 'a' then (s, .aA, "-")
    else (s, .dD, "-")
  | .iL => fire s p [(.tryLoadDead, .idle, "f"), (.tryLoadLive, .iC s.cnt, "-")]
  | .iC c => fire s p [(.casOk c, .idle, "t"), (.casFail c, .iL, "-")]
  | .aA => fire s p [(.incr, .idle, "-")]
  | .dD =>
    -- Add(-1); when it returned 0 the same goroutine calls onZero() before Decrement returns
    match apply s .decr with
    | some t => if t.z > s.z then ((apply t .onZero).getD t, .idle, "-") else (t, .idle, "-")
    | none => (s, p, "-")

structure Mon where
  everDead : Bool := false   -- the implementation's count has been <= 0
  misuse   : Bool := false   -- an Increment's Add ran while the count was <= 0 (contract broken)
  prevCnt  : Int := 1

structure DSt where
  s : St
  threads : List (String × TPc)
  mon : Mon

def dinit : DSt := ⟨GrpcModel.RefCounted.init, [], {}⟩

def lookup (ts : List (String × TPc)) (n : String) : TPc := ((ts.find? (·.1 = n)).map (·.2)).getD .idle

def setPc (ts : List (String × TPc)) (n : String) (p : TPc) : List (String × TPc) :=
  if ts.any (·.1 = n) then ts.map (fun x => if x.1 = n then (n, p) else x) else ts ++ [(n, p)]

def render (d : DSt) (p : TPc) (ret : String) : String :=
  let busy := (d.threads.filter fun x => x.2 ≠ .idle).length
  s!"{p.label} cnt={d.s.cnt} zeros={d.s.zeros} errs={d.s.errs} ret={ret} busy={busy}"

def field (impl key : String) : Option String :=
  (impl.splitOn " ").findSome? fun w =>
    match w.splitOn "=" with
    | [k, v] => if k = key then some v else none
    | _ => none

/-- C57 (RefCounted clauses) evaluated on what the IMPLEMENTATION reported after this step. -/
def monitor (m : Mon) (kind : Char) (impl : String) : Mon × String :=
  match (impl.splitOn " ").head?, (field impl "cnt") >>= String.toInt?, (field impl "zeros") >>= String.toNat?,
        field impl "ret" with
  | some label, some cnt, some zeros, some ret =>
    let misuse := m.misuse || (kind = 'a' && label = "done" && m.prevCnt ≤ 0)
    let wasDead := m.everDead
    let dead := wasDead || cnt ≤ 0
    let m' : Mon := { everDead := dead, misuse := misuse, prevCnt := cnt }
    if misuse then (m', "-")
    else if zeros > 1 then (m', "VIOL cleanup ran more than once")
    else if dead ∧ zeros ≠ 1 then (m', "VIOL count reached zero but the cleanup has not run")
    else if ¬ dead ∧ zeros ≠ 0 then (m', "VIOL cleanup ran although the count never reached zero")
    else if wasDead ∧ kind = 'i' ∧ ret = "t" then (m', "VIOL TryIncrement succeeded after the count had reached zero")
    else if wasDead ∧ cnt > 0 then (m', "VIOL count is positive again after it had reached zero")
    else (m', "ok")
  | _, _, _, _ =>
    if impl.startsWith "PANIC" ∨ impl.startsWith "CRASH" then (m, "-") else (m, "VIOL unparsable: " ++ impl)

/-- `cref n rounds`: per round n real goroutines do TryIncrement (+ Decrement when it succeeded) while one
    more releases the creator's reference, all at the same time.  Every acquired reference is released, so
    by `cleanup_exactly_once_at_zero` / `no_resurrection` the cleanup has run exactly once, the count is 0
    and a later TryIncrement fails — whatever the interleaving. -/
def monitorStress (impl : String) : String :=
  match (field impl "bad") >>= String.toNat?, (field impl "maxzeros") >>= String.toNat?,
        (field impl "resurrected") >>= String.toNat? with
  | some bad, some mz, some res =>
    if mz > 1 then s!"VIOL cleanup ran {mz} times for one resource under concurrent TryIncrement/Decrement"
    else if bad > 0 then "VIOL concurrent TryIncrement/Decrement: cleanup did not run exactly once at count zero"
    else if res > 0 then "VIOL TryIncrement succeeded after the count had reached zero"
    else "ok"
  | _, _, _ => if impl.startsWith "PANIC" ∨ impl.startsWith "CRASH" then "-" else "VIOL unparsable: " ++ impl

def step : Step DSt := fun d fs impl =>
  match fs with
  | ["cref", n, r] =>
    match n.toNat?, r.toNat? with
    | some n, some r =>
      if n < 1 ∨ n > 64 ∨ r < 1 then (d, "bad-op", "-")
      else (d, s!"rounds={r} bad=0 maxzeros=1 resurrected=0", monitorStress impl)
    | _, _ => (d, "bad-op", "-")
  | ["step", n] =>
    match n.toList.head? with
    | some kind =>
      if kind = 'i' ∨ kind = 'a' ∨ kind = 'd' then
        let p := lookup d.threads n
        let (s', p', ret) := tstep d.s kind p
        let (m', v) := monitor d.mon kind impl
        let d' : DSt := ⟨s', setPc d.threads n p', m'⟩
        (d', render d' p' ret, v)
      else (d, "bad-op", "-")
    | none => (d, "bad-op", "-")
  | _ => (d, "bad-op", "-")

def run : IO Unit := Driver.run dinit step

end GrpcModel.Driver.Refcounted
