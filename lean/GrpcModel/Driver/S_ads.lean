import GrpcModel.Driver.Loop
import GrpcModel.Model.Ads
/-! component `s_ads` (C42, T2) — ops as in harness/synct/c_ads_test.go. -/
namespace GrpcModel.Driver.S_ads
open GrpcModel.Driver GrpcModel.Ads

structure D where
  s : St
  carry : List Ev            -- events produced while constructing (shown with the first op)
  -- monitor state, fed by implementation outputs and op lines only
  mAcked : List (String × String)      -- type ↦ version of the last response the channel accepted
  mNonce : List (String × String)      -- type ↦ nonce of the latest response of that type on this stream
  mSubs  : List (String × List String) -- type ↦ current subscriptions
  mStreams : Nat
  mLastRecv : Option Msg               -- the response the implementation consumed during this op
  mQueue : List Msg                    -- responses injected, not yet consumed (per the implementation's `unread=`)
  mFc : Bool                           -- a consumed response whose watchers are not done yet
  mFcViol : Bool

def dinit : D :=
  let (s, _, evs) := settle 64 (GrpcModel.Ads.init 1000) [] []
  ⟨s, evs, [], [], [], 0, none, [], false, false⟩

def showReq (r : Req) : String :=
  let v := if r.version = "" then "-" else r.version
  let n := if r.nonce = "" then "-" else r.nonce
  let names := if r.names.isEmpty then "-" else "+".intercalate r.names
  s!"{r.typ}|{v}|{n}|{names}{if r.err then "|err" else ""}"

def sortStrs (l : List String) : List String := l.foldl (fun acc x => insertSorted' x acc) []
where insertSorted' (x : String) : List String → List String
  | [] => [x]
  | y :: ys => if x ≤ y then x :: y :: ys else y :: insertSorted' x ys

def showEv : Ev → String
  | .streamErr a => s!"streamerr(afterRecv={a})"

def render (s : St) (rs : List Req) (evs : List Ev) (nodeOk : Bool) : String :=
  let reqs := sortStrs (rs.map showReq)
  let r := if reqs.isEmpty then "-" else ";".intercalate reqs
  let e := sortStrs (evs.map showEv)
  let ev := if e.isEmpty then "-" else ",".intercalate e
  s!"reqs={r} node={if nodeOk then "ok" else "BAD"} unread={s.unread.length} streams={s.streams} ev={ev}"

def lookup (l : List (String × α)) (k : String) : Option α := (l.find? (·.1 = k)).map (·.2)
def assoc (l : List (String × α)) (k : String) (v : α) : List (String × α) :=
  (l.filter (·.1 ≠ k)) ++ [(k, v)]

def fieldOf (impl key : String) : Option String :=
  (impl.splitOn " ").findSome? fun w =>
    if w.startsWith (key ++ "=") then some (w.drop (key.length + 1)).toString else none

/-- C42 on the requests the IMPLEMENTATION put on the wire during this op. -/
def monitor (d : D) (impl : String) : D × String :=
  if impl = "nostream" then (d, "ok") else
  match fieldOf impl "reqs", fieldOf impl "node", (fieldOf impl "streams") >>= String.toNat? with
  | some reqs, some node, some streams =>
    -- a new stream resets every nonce
    let d := if streams > d.mStreams then { d with mNonce := [], mStreams := streams } else d
    if node ≠ "ok" then (d, "VIOL node identity not carried by exactly the first request of a stream")
    else
      let rs := if reqs = "-" then [] else reqs.splitOn ";"
      let bad := rs.findSome? fun r =>
        match r.splitOn "|" with
        | t :: v :: n :: names :: rest =>
          let isNack : Bool := rest == ["err"]
          let wantV := (lookup d.mAcked t).getD "-"
          let wantN := (lookup d.mNonce t).getD "-"
          let cur := (lookup d.mSubs t).getD []
          let curS := if cur.isEmpty then "-" else "+".intercalate cur
          if v ≠ wantV then some s!"VIOL request for {t} carries version {v}, last accepted is {wantV}"
          else if n ≠ wantN then some s!"VIOL request for {t} carries nonce {n}, latest on this stream is {wantN}"
          else if isNack && (match d.mLastRecv with | some m => m.verdict != "nack" || m.typ != t | none => true) then
            some "VIOL error detail on a request that is not the NACK of a rejected response"
          else if (match d.mLastRecv with | some m => m.verdict == "nack" && m.typ == t && !isNack | none => false) then
            some "VIOL rejected response answered without error detail"
          else if names ≠ curS ∧ d.mLastRecv.isSome then some s!"VIOL ACK/NACK for {t} lists {names}, subscribed is {curS}"
          else none
        | _ => some ("VIOL unparsable request " ++ r)
      (d, bad.getD "ok")
  | _, _, _ => (d, "VIOL unparsable: " ++ impl)

def parseOp (fs : List String) : Option Op :=
  match fs with
  | ["up"] => some .up
  | ["down"] => some .down
  | ["sub", t, n] => some (.sub t n)
  | ["unsub", t, n] => some (.unsub t n)
  | ["recv", t, v, n, verdict, names] =>
    some (.recv ⟨t, v, n, verdict, if names = "-" then [] else names.splitOn "+"⟩)
  | ["done"] => some .done
  | ["break"] => some .brk
  | ["sleep", ms] => ms.toNat?.map .sleep
  | _ => none

/-- consume, in the monitor's bookkeeping, the responses the implementation reports as read -/
def consume (d : D) (impl : String) : D :=
  match (fieldOf impl "unread") >>= String.toNat? with
  | none => d
  | some u =>
    let k := d.mQueue.length - u
    -- flow control: a response may be read only when the previous one has been fully processed
    let d := if k > 1 ∨ (k = 1 ∧ d.mFc) then { d with mFcViol := true } else d
    let d := if k ≥ 1 then { d with mFc := true } else d
    let rec go (d : D) (k : Nat) : D :=
      match k, d.mQueue with
      | 0, _ => d
      | _, [] => d
      | k + 1, m :: rest =>
        let known := (lookup d.mSubs m.typ).isSome
        let d := { d with mQueue := rest }
        let d := if m.verdict ≠ "unsup" ∧ known then
            { d with mNonce := assoc d.mNonce m.typ m.nonce,
                     mAcked := if m.verdict = "ack" then assoc d.mAcked m.typ m.version else d.mAcked,
                     mLastRecv := some m }
          else d
        go d k
    go d k

def dstep : Step D := fun d fs impl =>
  match parseOp fs with
  | none => (d, "bad-op", "-")
  | some op =>
    -- monitor bookkeeping from the op line (what the application / server did) and from the
    -- implementation's own report of how many responses it has read
    let d := { d with mLastRecv := none }
    let d := match op with
      | .sub t n => { d with mSubs := assoc d.mSubs t (insertSorted n ((lookup d.mSubs t).getD [])) }
      | .unsub t n => match lookup d.mSubs t with
        | some l => { d with mSubs := assoc d.mSubs t (l.filter (· ≠ n)) }
        | none => d          -- unsubscribe of a type never subscribed creates no type state
      | .recv m => if impl = "nostream" then d else { d with mQueue := d.mQueue ++ [m] }
      | .brk => { d with mQueue := [] }
      | .done => { d with mFc := false }
      | _ => d
    -- a new stream resets the nonces BEFORE anything read on it is accounted
    let streams := ((fieldOf impl "streams") >>= String.toNat?).getD d.mStreams
    let newStream := streams > d.mStreams
    let dm := if newStream then d else consume d impl
    let (dm, v) := monitor dm impl
    let dm := if newStream then consume dm impl else dm
    let v := if dm.mFcViol ∧ v = "ok" then "VIOL a response was read while the watchers were still processing the previous one" else v
    match op with
    | .recv _ =>
      if !d.s.live then (dm, "nostream", v) else
      let (s', rs, evs) := step d.s op
      ({ dm with s := s', carry := [] }, render s' rs (d.carry ++ evs) true, v)
    | _ =>
      let (s', rs, evs) := step d.s op
      ({ dm with s := s', carry := [] }, render s' rs (d.carry ++ evs) true, v)

def run : IO Unit := Driver.run dinit dstep

end GrpcModel.Driver.S_ads
