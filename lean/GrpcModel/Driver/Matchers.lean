import GrpcModel.Driver.Loop
import GrpcModel.Model.Matchers
/-! component `matchers` (C47)

    sm new|proto <kind> <ic> <pat> <input>          kind: exact prefix suffix contains regex
    hm <kind> <key> <inv> <md> <args…>              kind: exact prefix suffix contains (pat) | regex (re) |
                                                    range (start end) | present (0|1) | string (ctor smkind ic pat)
    path exact|prefix|regex <ci> <pat> <path>

  answers `1` / `0` / `err` (matcher construction rejected). Strings are hex, regexes a prefix-notation AST
  (`c<hh>` `d` `e` `n` `x` `r<hh><hh>` `s<A><B>` `a<A><B>` `k<A>`), md is `_` or `key:v1,v2;key:` (hex parts).

  Model output is `*` (not compared) exactly when the model is outside the domain it ports: case folding requested
  and a byte ≥ 128 in pattern or subject, or a regex applied to a subject with a byte ≥ 128. The monitor evaluates
  `Spec` (the property: ASCII folding on every byte string) on the implementation's answer for every op. -/
namespace GrpcModel.Driver.Matchers
open GrpcModel.Driver GrpcModel.Matchers

def strOf (h : String) : Option Str := (unhex h).map (·.map UInt8.toNat)

def hexByte (a b : Char) : Option Nat := do
  let x ← hexDigit a
  let y ← hexDigit b
  pure (x * 16 + y)

def parseRe : Nat → List Char → Option (Re × List Char)
  | 0, _ => none
  | fuel + 1, cs =>
    match cs with
    | 'c' :: a :: b :: t => (hexByte a b).map fun c => (.char c, t)
    | 'd' :: t => some (.dot, t)
    | 'e' :: t => some (.eps, t)
    | 'n' :: t => some (.none, t)
    | 'x' :: t => some (.invalid, t)
    | 'r' :: a :: b :: c :: d :: t => do
      let lo ← hexByte a b
      let hi ← hexByte c d
      pure (.range lo hi, t)
    | 's' :: t => do
      let (l, t1) ← parseRe fuel t
      let (r, t2) ← parseRe fuel t1
      pure (.seq l r, t2)
    | 'a' :: t => do
      let (l, t1) ← parseRe fuel t
      let (r, t2) ← parseRe fuel t1
      pure (.alt l r, t2)
    | 'k' :: t => do
      let (l, t1) ← parseRe fuel t
      pure (.star l, t1)
    | _ => none

def reOf (s : String) : Option Re :=
  match parseRe (s.length + 1) s.toList with
  | some (r, []) => some r
  | _ => none

def kindOf : String → Option SMKind
  | "exact" => some .exact | "prefix" => some .prefix | "suffix" => some .suffix
  | "contains" => some .contains | "regex" => some .regex | _ => none

def boolOf : String → Option Bool
  | "1" => some true | "0" => some false | _ => none

def mdEntry (e : String) : Option (Str × List Str) :=
  match e.splitOn ":" with
  | [k, vs] => do
    let key ← strOf k
    let vals ← if vs = "" then some [] else (vs.splitOn ",").mapM strOf
    pure (key, vals)
  | _ => none

def mdOf (s : String) : Option MD :=
  if s = "_" then some [] else (s.splitOn ";").mapM mdEntry

def show01 (b : Bool) : String := if b then "1" else "0"

/-- A parsed string-matcher configuration. -/
structure SMCfg where
  proto : Bool
  kind : SMKind
  ic : Bool
  pat : Str
  re : Re

def smCfgOf (ctor kind ic pat : String) : Option SMCfg := do
  let k ← kindOf kind
  let i ← boolOf ic
  let p ← if ctor = "new" then some false else if ctor = "proto" then some true else none
  if k = .regex then
    let r ← reOf pat
    pure ⟨p, k, i, [], r⟩
  else
    let s ← strOf pat
    pure ⟨p, k, i, s, .eps⟩

/-- the model's matcher for a configuration (`none` = construction error). -/
def SMCfg.build (c : SMCfg) : Option StringMatcher :=
  if c.proto then smFromProto c.kind c.pat c.re c.ic
  else if c.kind = .regex then (if c.re.valid then some (newRegexSM c.re) else none)
  else some (newSM c.kind c.pat c.ic)

/-- is the op outside the ported (ASCII) domain for subject `v`? -/
def SMCfg.offDomain (c : SMCfg) (v : Str) : Bool :=
  if c.kind = .regex then !isAscii v else c.ic && !(isAscii c.pat && isAscii v)

def SMCfg.spec (c : SMCfg) (v : Str) : Bool := Spec.sm c.kind c.pat c.re c.ic v

/-- one evaluated op: model answer (`none` = construction error), specified answer, off-domain flag, and
    whether the op is a present-matcher on a present header with empty joined value. -/
structure Eval where
  model : Option Bool
  spec : Bool
  off : Bool
  folding : Bool := false
  presentEmpty : Bool := false

def evalOp (fs : List String) : Option Eval :=
  match fs with
  | ["sm", ctor, kind, ic, pat, input] => do
    let c ← smCfgOf ctor kind ic pat
    let v ← strOf input
    pure { model := c.build.map (·.match v), spec := c.spec v, off := c.offDomain v, folding := c.kind ≠ .regex }
  | "hm" :: kind :: key :: inv :: mds :: args => do
    let key ← strOf key
    let inv ← boolOf inv
    let md ← mdOf mds
    let simple (mk : Str → HeaderMatcher) (p : Str → Str → Bool) (pat : String) : Option Eval := do
      let pat ← strOf pat
      pure { model := some ((mk pat).match md), spec := Spec.withInvert md key inv (p pat), off := false }
    match kind, args with
    | "exact", [pat] => simple (fun p => .exact key p inv) (fun p v => v == p) pat
    | "prefix", [pat] => simple (fun p => .prefix key p inv) (fun p v => p.isPrefixOf v) pat
    | "suffix", [pat] => simple (fun p => .suffix key p inv) (fun p v => p.isSuffixOf v) pat
    | "contains", [pat] => simple (fun p => .contains key p inv) (fun p v => hasInfix p v) pat
    | "regex", [re] => do
      let re ← reOf re
      let off := match valueFromMD md key with | some v => !isAscii v | none => false
      pure { model := if re.valid then some ((HeaderMatcher.regex key re inv).match md) else none,
             spec := Spec.withInvert md key inv re.matches, off := off }
    | "range", [a, b] => do
      let a ← a.toInt?
      let b ← b.toInt?
      pure { model := some ((HeaderMatcher.range key a b inv).match md),
             spec := Spec.withInvert md key inv (fun v => Spec.inRange v a b), off := false }
    | "present", [p] => do
      let p ← boolOf p
      pure { model := some ((newPresent key p inv).match md), spec := Spec.present md key p inv, off := false,
             presentEmpty := valueFromMD md key == some [] }
    | "string", [ctor, smkind, ic, pat] => do
      let c ← smCfgOf ctor smkind ic pat
      let off := match valueFromMD md key with | some v => c.offDomain v | none => false
      pure { model := c.build.map fun sm => (HeaderMatcher.string key sm inv).match md,
             spec := Spec.withInvert md key inv c.spec, off := off, folding := c.kind ≠ .regex }
    | _, _ => none
  | ["path", kind, ci, pat, path] => do
    let ci ← boolOf ci
    let path ← strOf path
    match kind with
    | "exact" => do
      let p ← strOf pat
      pure { model := some ((newPathExact p ci).match path), spec := Spec.pathExact p ci path,
             off := ci && !(isAscii p && isAscii path), folding := true }
    | "prefix" => do
      let p ← strOf pat
      pure { model := some ((newPathPrefix p ci).match path), spec := Spec.pathPrefix p ci path,
             off := ci && !(isAscii p && isAscii path), folding := true }
    | "regex" => do
      let re ← reOf pat
      pure { model := if re.valid then some ((PathMatcher.regex re).match path) else none,
             spec := re.matches path, off := !isAscii path }
    | _ => none
  | _ => none

def model (fs : List String) : String :=
  match evalOp fs with
  | none => "bad-op"
  | some e =>
    match e.model with
    | none => "err"
    | some b => if e.off then "*" else show01 b

/-- C47 on one implementation answer. -/
def monitor (fs : List String) (impl : String) : String :=
  match evalOp fs with
  | none => "-"
  | some e =>
    match e.model with
    | none => "-"          -- construction rejected: compared by the diff only
    | some _ =>
      if e.off && !e.folding then "-"      -- regex on a non-ASCII subject: outside the regex model
      else match boolOf impl with
      | none => "VIOL matcher answered " ++ impl
      | some b =>
        if b == e.spec then "ok"
        else if e.off then
          s!"VIOL non-ASCII case folding: implementation answers {show01 b}, ASCII case-insensitive comparison gives {show01 e.spec}"
        else if e.presentEmpty then
          s!"VIOL present_match: header present with empty value treated as absent (answer {show01 b}, specified {show01 e.spec})"
        else s!"VIOL matcher answers {show01 b}, specified {show01 e.spec}"

def run : IO Unit := Driver.run () (pureStepMon model monitor)

end GrpcModel.Driver.Matchers
