import GrpcModel.Driver.Loop
import GrpcModel.Model.CredsPolicy
/-!
component `s_credspolicy` (C58):
  `rpc <tkind> <via> <dialcreds> <bundlecred> <callcred>`  (syntax: harness/synct/c_credspolicy_test.go)
  → `dialerr <e>` | `rpc <CODE> <msgclass> seen=<…> inv=<…>`
-/
namespace GrpcModel.Driver.S_credspolicy
open GrpcModel.Driver GrpcModel.CredsPolicy

def parseAuth : String → Option Auth
  | "nil" => some .nilInfo | "nocommon" => some .noCommon
  | "invalid" => some (.common .invalid) | "none" => some (.common .none)
  | "integrity" => some (.common .integrityOnly) | "privacy" => some (.common .privacyAndIntegrity)
  | _ => none

def parseTKind (s : String) : Option TKind :=
  match s.splitOn ":" with
  | ["insecure"] => some .insecure
  | ["localtcp"] => some .localTCP
  | ["localuds"] => some .localUDS
  | ["localremote"] => some .localRemote
  | ["tls"] => some .tls
  | ["custom", p, a] =>
    match parseAuth a with
    | some au => if p = "insecure" then some (.custom true au) else if p = "x" then some (.custom false au) else none
    | none => none
  | _ => none

def parseVia : String → Option Via
  | "opt" => some .opt | "bundle" => some .bundle | "none" => some .none
  | "both" => some .both | "bundlenotc" => some .bundleNoTC | _ => none

def parseKV (s : String) : Option (Key × Bytes) :=
  match s.splitOn "=" with
  | [k, v] => (unhex (if v = "" then "-" else v)).map fun b => (k.toList, b)
  | _ => none

/-- `R/k=hex,k=hex` ; `-` = no credential (outer none = syntax error) -/
def parseCred (s : String) : Option (Option Cred) :=
  if s = "-" then some none else
  match s.toList with
  | r :: '/' :: rest =>
    if r ≠ 'R' ∧ r ≠ 'N' then none else
    let body := String.ofList rest
    let kvs := if body = "" then some [] else (body.splitOn ",").mapM parseKV
    kvs.map fun l => some { require := r = 'R', md := l }
  | _ => none

def parseCreds (s : String) : Option (List Cred) :=
  if s = "-" then some [] else
  (s.splitOn ";").mapM fun x => match parseCred x with
    | some (some c) => some c
    | _ => none

def parseConfig : List String → Option Config
  | ["rpc", tk, via, dial, bundle, call] => do
    let tk ← parseTKind tk
    let via ← parseVia via
    let dial ← parseCreds dial
    let bundle ← parseCred bundle
    let call ← parseCred call
    pure { tkind := tk, via := via, dial := dial, bundle := bundle, call := call }
  | _ => none

def showName : Name → String
  | .d i => s!"d{i}" | .b => "b" | .c => "c"

def showInv (l : List Name) : String :=
  if l.isEmpty then "-" else ",".intercalate (l.map showName)

def hexRaw (bs : List UInt8) : String :=
  String.ofList (bs.flatMap fun b => [hexChar (b.toNat / 16), hexChar (b.toNat % 16)])

def showSeen (s : Seen) : String :=
  if s.isEmpty then "-" else
  ",".intercalate (s.map fun kv => String.ofList kv.1 ++ "=" ++ "|".intercalate (kv.2.map hexRaw))

def showCode : Code → String
  | .ok => "OK" | .unavailable => "UNAVAILABLE" | .unauthenticated => "UNAUTHENTICATED" | .internal => "INTERNAL"

def showOutcome : Outcome → String
  | .dialErr .nosec => "dialerr nosec"
  | .dialErr .both => "dialerr both"
  | .dialErr .nobundletc => "dialerr nobundletc"
  | .dialErr .missing => "dialerr missing"
  | .connErr .handshake => "rpc UNAVAILABLE hs seen=none inv=-"
  | .connErr .insecureCreds => "rpc UNAVAILABLE sec seen=none inv=-"
  | .rpcErr .unauthenticated inv => s!"rpc UNAUTHENTICATED sec seen=none inv={showInv inv}"
  | .rpcErr code inv => s!"rpc {showCode code} other seen=none inv={showInv inv}"
  | .sent tr call inv => s!"rpc OK - seen={showSeen (seenOf tr call)} inv={showInv inv}"

/-- the metadata the server must see when the RPC goes through: every credential's pairs, keys
    lower-cased, values unchanged (connection-level credentials share one map: a later one
    overrides an earlier one on the same key), connection-level before call-level. -/
def expectedSeen (c : Config) : Option Seen :=
  match getTrAuthData [] (connCreds c), (match c.call with | some cr => addPairs [] cr.md | none => some []) with
  | (_, .ok tr), some call => some (seenOf tr call)
  | _, _ => none

/-- C58 evaluated on what the implementation did. -/
def monitor (c : Config) (impl : String) : String :=
  let fs := fields impl
  let needsSecurity := c.weak && c.anyRequire
  match fs with
  | "dialerr" :: _ => "ok"     -- nothing was sent (which configs must fail at dial is diffed, not judged)
  | ["rpc", code, _cls, seen, _inv] =>
    let handlerRan := seen ≠ "seen=none"
    if needsSecurity && handlerRan then
      "VIOL an RPC carrying security-requiring credentials reached the server over a connection below PrivacyAndIntegrity"
    else if needsSecurity && code = "OK" then
      "VIOL RPC with security-requiring credentials succeeded on a connection below PrivacyAndIntegrity"
    else if code = "OK" then
      match expectedSeen c with
      | some s => if seen = "seen=" ++ showSeen s then "ok" else "VIOL credential metadata not delivered unchanged: expected seen=" ++ showSeen s
      | none => "VIOL RPC succeeded although a credential returned invalid metadata"
    else if c.strong && c.validMD && (validateTransportCredentials c).isNone then
      "VIOL RPC failed although the connection satisfies the credentials' requirement"
    else "ok"
  | _ => "VIOL unparsable answer"

def step : Step Unit := fun _ fs impl =>
  match parseConfig fs with
  | none => ((), "bad-op", "-")
  | some c => ((), showOutcome (rpc c), monitor c impl)

def run : IO Unit := Driver.run () step

end GrpcModel.Driver.S_credspolicy
