import GrpcModel.Driver.Loop
import GrpcModel.Model.ClientConnMon
/-! component `s_goaway` (C14): real http2Client vs. the `ClientConn` model; monitor = C14's client
clauses evaluated on the implementation's snapshots. -/
namespace GrpcModel.Driver.S_goaway
open GrpcModel.Driver GrpcModel.ClientConnSim GrpcModel.ClientConnMon

structure St where
  sim : Sim
  mon : MonSt
deriving Inhabited

def step : Step St := fun st fs impl =>
  let (sim, out) := st.sim.op fs
  let cur := parseSnap impl
  let (mon, frame) := st.mon.advance fs
  let verdict := match st.mon.prev, cur with
    | some p, some c => c14Verdict fs frame p c
    | _, _ => "-"
  ({ sim := sim, mon := { mon with prev := cur.orElse fun _ => mon.prev } }, out, verdict)

def run : IO Unit := Driver.run { sim := Sim.init, mon := MonSt.init } step

end GrpcModel.Driver.S_goaway
