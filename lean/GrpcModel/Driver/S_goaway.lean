import GrpcModel.Driver.Loop
import GrpcModel.Model.ClientConnSim
/-! component `s_goaway` (C14): real http2Client vs. `ClientConn` model; monitor = C14's client clauses
evaluated on the implementation's snapshots. -/
namespace GrpcModel.Driver.S_goaway
open GrpcModel.Driver GrpcModel.ClientConnSim

structure St where
  sim : Sim
deriving Inhabited

def step : Step St := fun st fs _impl =>
  let (sim, out) := st.sim.op fs
  ({ st with sim := sim }, out, "-")

def run : IO Unit := Driver.run { sim := Sim.init } step

end GrpcModel.Driver.S_goaway
