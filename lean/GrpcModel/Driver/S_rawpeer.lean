import GrpcModel.Driver.Loop
import GrpcModel.Driver.S_mdwire
import GrpcModel.Driver.S_status
/-!
component `s_rawpeer` (C09 + C10): the real grpc-go client / server against a scripted raw HTTP/2
peer (harness/synct/c_rawpeer_test.go):

    srv <hdr|-> <nmsg> <trl>  → st=<ok|code> msg=<hex> det=<details> hdr=<md> trl=<md>
    cli <fields>              → in=<md|!> resp=<grpc-status value hex | rst:<code>>

Model: `clientHeaders` / `clientTrailers` / `serverRecv` on exactly these field lists (plus the
framer's checks). Monitor: the "reserved names never surface" clause of C09 and the "non-OK never
nil" clause of C10, for a peer that is NOT grpc-go.
-/
namespace GrpcModel.Driver.S_rawpeer
open GrpcModel.Driver GrpcModel.Status GrpcModel.Headers GrpcModel.MdWire
open GrpcModel.Base64 (Bytes)
open GrpcModel.Driver.S_mdwire (showMD parseMD)

def parseComp (s : String) : Option Bytes := if s = "~" then some [] else unhex s

def parseFields (s : String) : Option (List Field) :=
  if s = "-" then some [] else
  (s.splitOn ";").mapM fun p =>
    match p.splitOn "=" with
    | [n, v] => do pure (← parseComp n, ← parseComp v)
    | _ => none

def field (impl key : String) : String :=
  match (impl.splitOn " ").find? (·.startsWith (key ++ "=")) with
  | some t => (t.drop (key.length + 1)).toString
  | none => "?"

def plainAscii (v : Bytes) : Bool := v.all fun b => 0x20 ≤ b && b ≤ 0x7E && b != 34 && b != 92

/-- model output for `srv`; `none` components are copied from the implementation's answer -/
def modelSrv (has : Bool) (hdr trl : List Field) (impl : String) : String :=
  let copyMsg := field impl "msg"
  let fail (c : Nat) (h : String) : String := s!"st={c} msg={copyMsg} det=- hdr={h} trl=-"
  let hres : HdrRes := if has then (if framerOK hdr then clientHeaders hdr else .fail 13) else .md []
  match hres with
  | .fail c => if c = 2 then "*" else fail c "-"
  | .md hm =>
    let hs := showMD hm
    if !framerOK trl then fail 13 hs else
    let (e, tm) := clientTrailers (!has) trl
    match e with
    | .status s =>
      if s.code = 0 then s!"st=ok msg=- det=- hdr={hs} trl={showMD tm}"
      else s!"st={s.code} msg={hex s.msg} det={S_status.showDetails s.details} hdr={hs} trl={showMD tm}"
    | .malformedStatus range v =>
      if plainAscii v then
        let txt := "transport: malformed grpc-status: strconv.ParseInt: parsing \"" ++ S_status.asciiStr v ++ "\": " ++
          (if range then "value out of range" else "invalid syntax")
        s!"st=2 msg={hex (asciiBytes txt)} det=- hdr={hs} trl=-"
      else fail 2 hs
    | .nonGrpc => "*"
    | .headerError _ => fail 13 hs
    | .mismatch _ _ => s!"st=13 msg={copyMsg} det=- hdr={hs} trl={showMD tm}"

def modelCli (fs : List Field) : String :=
  if !framerOK fs then "in=! resp=rst:1" else
  match serverRecv fs with
  | .rstProtocol => "in=! resp=rst:1"
  | .earlyAbort c => s!"in=! resp={hex (asciiBytes (toString c))}"
  | .handler md => s!"in={showMD md} resp=30"

def leak (md : MD) : Option Bytes :=
  (md.find? fun kv => isReservedHeader kv.1 && !isWhitelistedHeader kv.1 && kv.1 ≠ hContentType).map (·.1)

def monitor (fs : List String) (impl : String) : String :=
  let chk (tags : List String) : String :=
    tags.foldl (fun acc t =>
      if acc ≠ "ok" then acc else
      match parseMD (field impl t) with
      | some md => match leak md with
        | some k => s!"VIOL reserved header from a peer surfaced in {t}: " ++ hex k
        | none => "ok"
      | none => if field impl t = "!" then "ok" else "VIOL unparsable " ++ t) "ok"
  match fs with
  | "srv" :: _ => chk ["hdr", "trl"]
  | "cli" :: _ => chk ["in"]
  | _ => "-"

def step : Step Unit := fun _ fs impl =>
  match fs with
  | ["srv", h, n, t] =>
    match parseFields h, parseFields t with
    | some hf, some tf => if n = "0" ∨ n = "1" then ((), modelSrv (h ≠ "-") hf tf impl, monitor fs impl) else ((), "bad-op", "-")
    | _, _ => ((), "bad-op", "-")
  | ["cli", f] =>
    match parseFields f with
    | some ff => ((), modelCli ff, monitor fs impl)
    | none => ((), "bad-op", "-")
  | _ => ((), "bad-op", "-")

def run : IO Unit := Driver.run () step

end GrpcModel.Driver.S_rawpeer
