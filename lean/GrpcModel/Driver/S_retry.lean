import GrpcModel.Driver.Loop
import GrpcModel.Driver.S_shouldretry
import GrpcModel.Model.RetryLoop
/-!
component `s_retry` (C18; end-to-end leg of C19): one RPC of a real ClientConn against the scripted
raw HTTP/2 server.

    cfg ma= codes= ib= mb= mult= chan= thr= dis= kind= script=
    new <buf|d> | send <size> | close | recv | hdr
        → <result> t=<virtual ns> ev=<N<i>p<prev>,M<i>:<seq>x<len>,E<i>,…|->

The monitor evaluates the clauses of C18 on the IMPLEMENTATION's answer: attempt bound, retry only
after a retryable trailers-only failure (or unprocessed stream for the transparent one), replay
exactness against the application's own send history, no new attempt after delivery / after the
buffer limit.
-/
namespace GrpcModel.Driver.S_retry
open GrpcModel.Driver GrpcModel.Retry GrpcModel.RetryLoop
open GrpcModel.Driver.S_shouldretry (ofDecimal getKV decodePushback)

def parseTrig (s : String) : Option Trig :=
  if s = "0" then some .atHeaders else if s = "E" then some .atHalfClose else s.toNat?.map .afterMsgs

def parseBeh (p : String) : Option Beh :=
  match p.toList with
  | 'R' :: _ => some ⟨.refuse, .atHeaders, 14, []⟩
  | 'G' :: _ => some ⟨.goaway, .atHeaders, 14, []⟩
  | 'N' :: _ => some ⟨.never, .atHeaders, 0, []⟩
  | c :: rest =>
    let q := (String.ofList rest).splitOn ":"
    match q with
    | t :: code :: more =>
      match parseTrig t, code.toNat?, (match more with | [] => some [] | [x] => decodePushback x | _ => none) with
      | some t, some code, some pb =>
        if c = 'T' then some ⟨.trailersOnly, t, code, pb⟩
        else if c = 'H' then some ⟨.headers, t, code, []⟩ else none
      | _, _, _ => none
    | _ => none
  | [] => none

def parseScript (s : String) : Option (List Beh) :=
  if s = "-" ∨ s = "" then some [] else (s.splitOn ";").mapM parseBeh

structure Cfg where
  st : St
  effMax : Int          -- min(policy.maxAttempts, channel limit), 1 without a usable policy
  codes : List Nat
  thr : Option Throttler
  nsFail : Bool := false   -- some stream creations are scripted to fail: attempts the server never sees count as retries too

/-- monitor state -/
structure Mon where
  hist : List Wire := []          -- what the application produced so far (a unary send also half-closes)
  logs : List (List Wire) := []   -- per attempt: what the server received
  prevs : List Int := []          -- per attempt: grpc-previous-rpc-attempts
  delivered : Bool := false       -- a response header or message reached the application
  overLimit : Bool := false       -- the replay buffer limit was exceeded by an earlier op
  bufSize : Int := 0
  tokens : Option Rat := none     -- the bucket as the statement prescribes it
  ended : Bool := false           -- RPC finished (terminal result returned)

structure DS where
  cfg : Option Cfg := none
  mon : Mon := {}
  dead : Bool := false        -- NewStream returned an error: there is no stream
  blocked : Bool := false     -- an earlier op never returned (or panicked): the harness skips the rest

def showEv : Ev → String
  | .newAttempt i p => s!"N{i}p{p}"
  | .msg i s z => s!"M{i}:{s}x{z}"
  | .half i => s!"E{i}"
  | .failed c => s!"F{c}"

/-- the server sees nothing of an attempt whose stream could not be created -/
def showEvs (l : List Ev) : String :=
  let l := l.filter fun e => !(e matches .failed _)
  if l.isEmpty then "-" else ",".intercalate (l.map showEv)

def parseEv (s : String) : Option Ev :=
  match s.toList with
  | 'N' :: r =>
    match (String.ofList r).splitOn "p" with
    | [i, p] => match i.toNat?, p.toInt? with | some i, some p => some (.newAttempt i p) | _, _ => none
    | _ => none
  | 'M' :: r =>
    match (String.ofList r).splitOn ":" with
    | [i, q] => match q.splitOn "x" with
      | [s, z] => match i.toNat?, s.toInt?, z.toNat? with
        | some i, some s, some z => some (.msg i s.toNat z)
        | _, _, _ => none
      | _ => none
    | _ => none
  | 'E' :: r => (String.ofList r).toNat?.map .half
  | _ => none

def parseEvs (s : String) : Option (List Ev) := if s = "-" then some [] else (s.splitOn ",").mapM parseEv

def showRes : Res → String
  | .ok => "ok" | .eof => "eof" | .err c => s!"err {c}" | .exhaustedEof => "exhausted-eof"
  | .errExhausted c => s!"err {c}x" | .msg n => s!"msg{n}" | .hdr => "hdr" | .nohdr => "nohdr"
  | .blocked => "blocked" | .outOfFuel => "MODEL-OUT-OF-FUEL"

/-- bounds of the time an op may take given the delays the model saw -/
def delayBounds (pol : Option Policy) (dl : List Delay) : Int × Rat :=
  dl.foldl (fun (acc : Int × Rat) d =>
    match d with
    | .pushback ms => (acc.1 + 1000000 * ms, acc.2 + 1000000 * ms)
    | .backoff k =>
      match pol with
      | none => acc
      | some rp =>
        let base := backoffBase rp k
        (acc.1 + (jittered base 0).floor, acc.2 + jittered base 1)) (0, 0)

def isPrefix : List Wire → List Wire → Bool
  | [], _ => true
  | _ :: _, [] => false
  | a :: as, b :: bs => a == b && isPrefix as bs

def listSet {α} (l : List α) (i : Nat) (v : α) : List α := l.set i v

/-- C18 on what the implementation showed for this op.
    `histBefore` = application history before the op, `mon.hist` already includes the op's own item. -/
def monitorOp (c : Cfg) (mon : Mon) (histBefore : List Wire) (evs : List Ev) (checkLive : Bool := true) : Mon × String := Id.run do
  let mut m := mon
  let mut verdict := "ok"
  let mut fresh : List Nat := []        -- attempts created inside this op
  for e in evs do
    match e with
    | .newAttempt i p =>
      let n := m.logs.length
      if i ≠ n + 1 then verdict := s!"VIOL attempt numbering (got {i}, expected {n + 1})"
      -- no retry after delivery / after the limit / after the end
      if n ≥ 1 ∧ m.delivered then verdict := "VIOL new attempt after a response header or message was delivered"
      if n ≥ 1 ∧ m.overLimit then verdict := "VIOL new attempt after the replay buffer limit was exceeded"
      if n ≥ 1 ∧ m.ended then verdict := "VIOL new attempt after the RPC ended"
      -- bounded
      if p + 1 > c.effMax then verdict := s!"VIOL attempt {p + 1} exceeds the effective maximum {c.effMax}"
      -- why was it retried
      if n ≥ 1 then
        let prevP := m.prevs.getLastD 0
        let b := (c.st.script.drop (n - 1)).headD Beh.dflt
        let lastLog := m.logs.getLastD []
        let wasDue := ({ beh := b, prev := 0, log := lastLog } : Att).due
        if !wasDue ∨ b.kind == .never then verdict := "VIOL retry although the previous attempt had not failed"
        else if p = prevP then
          -- transparent
          if !(n = 1 ∧ (b.kind == .refuse || b.kind == .goaway)) then
            verdict := "VIOL transparent retry of an attempt the server had processed (or not the first attempt)"
        else if c.nsFail ∧ p > prevP ∧ n = 1 ∧ (b.kind == .refuse || b.kind == .goaway) then
          -- the visible attempt was retried transparently; the counted retries in between belong to attempts whose
          -- stream creation failed, which the server never sees (they are judged by the s_shouldretry table)
          pure ()
        else if p = prevP + 1 ∨ (c.nsFail ∧ p > prevP) then
          if c.st.disableRetry ∨ c.st.pol.isNone then verdict := "VIOL retry without a retry policy / with retries disabled"
          else if b.kind == .headers then verdict := "VIOL retry although the failed attempt had received response headers"
          else
            let code := if b.kind == .trailersOnly then b.code else 14
            if !c.codes.contains code then verdict := s!"VIOL retry on status {code} which is not in the retry policy"
            else if b.kind == .trailersOnly ∧ parsePushback b.push = .abort then verdict := "VIOL retry although the server pushback said not to"
            else
              -- throttling must have allowed it: bucket after the removal above half
              match (if c.nsFail then none else m.tokens), c.thr with
              | some t, some th =>
                let t' := if t - 1 < 0 then 0 else t - 1        -- the failure being retried costs one token first
                m := { m with tokens := some t' }
                if t' ≤ th.max / 2 then verdict := "VIOL retry although the token bucket is at or below half after the removal"
              | _, _ => pure ()
        else verdict := s!"VIOL grpc-previous-rpc-attempts jumped from {prevP} to {p}"
      m := { m with logs := m.logs ++ [[]], prevs := m.prevs ++ [p] }
      fresh := fresh ++ [i]
    | .msg i s z =>
      if i = 0 ∨ i > m.logs.length then verdict := "VIOL message on an unknown attempt"
      else m := { m with logs := listSet m.logs (i - 1) ((m.logs.getD (i - 1) []) ++ [.msg s z]) }
    | .half i =>
      if i = 0 ∨ i > m.logs.length then verdict := "VIOL half-close on an unknown attempt"
      else m := { m with logs := listSet m.logs (i - 1) ((m.logs.getD (i - 1) []) ++ [.half]) }
    | .failed _ => pure ()
  -- replay exactness: every attempt's wire log is a prefix of the application's history …
  for l in m.logs do
    if !isPrefix l m.hist then verdict := "VIOL an attempt carried something the application did not produce in that order"
  -- … and an attempt created by a retry in this op starts with the whole history before the op
  for i in fresh do
    if i > 1 then
      let l := m.logs.getD (i - 1) []
      if !isPrefix histBefore l then verdict := "VIOL a retry attempt did not replay the application's complete history"
  -- … and the newest attempt, while the server has not answered it and the RPC goes on, has been sent all of it
  if checkLive then
    match m.logs.getLast? with
    | some l =>
      let b := (c.st.script.drop (m.logs.length - 1)).headD Beh.dflt
      let a : Att := { beh := b, prev := 0, log := l }
      if (b.kind == .never || !a.due) && l != m.hist then
        verdict := "VIOL the live current attempt has not been sent everything the application produced"
    | none => pure ()
  return (m, verdict)

def parseNS (s : String) : Option (List (Option Nat)) :=
  if s = "" ∨ s = "-" then some [] else
  (s.splitOn ",").mapM fun p => if p = "-" then some none else p.toNat?.map some

def showResU (r : Res) : String := (showRes r).replace " " "_"

def step (ds : DS) (fs : List String) (impl : String) : DS × String × String :=
  match fs with
  | "cfg" :: kvs =>
    let g := getKV kvs
    match (g "ma").toInt?, natList (g "codes"), (g "ib").toInt?, (g "mb").toInt?, ofDecimal (g "mult"),
          (g "chan").toInt?, parseScript (g "script"), parseNS (g "ns") with
    | some ma, some codes, some ib, some mb, some mult, some chn, some script, some ns =>
      let dis := g "dis" == "1"
      let cm := channelMax chn
      let pol := if ma = 0 then none else convertPolicy cm ma ib mb mult codes
      let thr : Option Throttler :=
        if g "thr" = "-" then none else
        match (g "thr").splitOn ":" with
        | [a, b] => match ofDecimal a, ofDecimal b with
          | some a, some b => some (Throttler.new a b)
          | _, _ => none
        | _ => none
      let kind := g "kind"
      let st : St := St.init (kind != "u") (kind == "b") dis pol 0 thr script ns
      let effMax : Int := match pol with | some p => if dis then 1 else p.maxAttempts | none => 1
      ({ cfg := some { st := st, effMax := effMax, codes := (match pol with | some p => p.codes | none => []), thr := if dis then none else thr, nsFail := ns.any Option.isSome },
         mon := { tokens := if dis then none else thr.map (·.tokens) } }, "ok", "-")
    | _, _, _, _, _, _, _, _ => (ds, "bad-op", "-")
  | op :: args =>
    match ds.cfg with
    | none => (ds, "not-configured", "-")
    | some c =>
      if ds.blocked then (ds, "skipped", "-") else
      if ds.dead ∧ op ≠ "cancel" then (ds, "no-stream", "-") else
      let ifs := fields impl
      let fuel := 64
      if op = "sendrecv" then
        match args.head?.bind String.toNat? with
        | none => (ds, "bad-op", "-")
        | some n =>
          let x := c.st.opSendRecv fuel n
          let q := if n = 0 then 0 else c.st.seq + 1
          let item := if c.st.sentLast then [] else if c.st.clientStreams then [Wire.msg q n] else [Wire.msg q n, Wire.half]
          let mline := s!"S={showResU x.2.1} R={showResU x.2.2.1} t=- ev={showEvs x.2.2.2}"
          let histBefore := ds.mon.hist
          let mon0 := { ds.mon with hist := ds.mon.hist ++ item }
          let iS := ((getKV ifs "S").replace "_" " ")
          let iR := ((getKV ifs "R").replace "_" " ")
          let endedNow := iS.startsWith "err" || iS == "exhausted-eof" || iR.startsWith "err" || iR == "eof"
          let (mon1, verdict) :=
            match parseEvs (getKV ifs "ev") with
            | none => (mon0, "-")
            | some ievs => monitorOp c mon0 histBefore ievs (!(mon0.ended || endedNow))
          let mon2 := { mon1 with
            delivered := mon1.delivered || iR.startsWith "msg",
            bufSize := mon1.bufSize + 5 + n,
            ended := mon1.ended || endedNow }
          let mon3 := { mon2 with overLimit := mon2.overLimit || decide (mon2.bufSize > x.1.maxBuf) }
          ({ ds with cfg := some { c with st := x.1 }, mon := mon3, blocked := x.2.2.1 = .blocked || x.2.1 = .blocked }, mline, verdict)
      else
      -- model
      let stepRes : Option (St × Res × List Ev × List Delay × List Wire) :=
        match op, args with
        | "new", [b] =>
          let mb : Int := if b = "d" then 262144 else (b.toInt?.getD 262144)
          let st := { c.st with maxBuf := mb }
          some (let (a, r, e, d) := st.step fuel .new; (a, r, e, d, []))
        | "send", [n] => n.toNat?.map fun n =>
            let (a, r, e, d) := c.st.step fuel (.send n)
            (a, r, e, d, let q := if n = 0 then 0 else c.st.seq + 1
            if c.st.sentLast then [] else if c.st.clientStreams then [Wire.msg q n] else [Wire.msg q n, Wire.half])
        | "close", [] => some (let (a, r, e, d) := c.st.step fuel .close; (a, r, e, d, if c.st.sentLast then [] else [Wire.half]))
        | "recv", [] => some (let (a, r, e, d) := c.st.step fuel .recv; (a, r, e, d, []))
        | "hdr", [] => some (let (a, r, e, d) := c.st.step fuel .header; (a, r, e, d, []))
        | "cancel", [] => some (let (a, r, e, d) := c.st.step fuel .cancel; (a, r, e, d, []))
        | _, _ => none
      match stepRes with
      | none => (ds, "bad-op", "-")
      | some (st', res, evs, dl, item) =>
        let (lo, hi) := delayBounds c.st.pol dl
        let it := (getKV ifs "t").toInt?
        let tOK : Bool := match it with | some t => decide (lo ≤ t) && decide ((t : Rat) ≤ hi) | none => false
        let tStr := match it with
          | some t => if tOK then s!"t={t}" else s!"t in [{lo},{hi.floor}]"
          | none => s!"t in [{lo},{hi.floor}]"
        let mline := if res = .blocked then s!"blocked t=- ev={showEvs evs}" else s!"{showRes res} {tStr} ev={showEvs evs}"
        -- monitor on the implementation's own events
        let histBefore := ds.mon.hist
        let mon0 := { ds.mon with hist := ds.mon.hist ++ item }
        let iword := ifs.headD ""
        let endedNow := op == "cancel" || ((op == "recv" || op == "hdr" || op == "send" || op == "new") && (iword == "err" || iword == "exhausted-eof" || iword == "nohdr" || (op == "recv" && iword == "eof")))
        let (mon1, verdict) :=
          match parseEvs (getKV ifs "ev") with
          | none => (mon0, "-")
          | some ievs =>
            monitorOp c mon0 histBefore ievs (!(mon0.ended || endedNow))
        -- delivery / limit / end bookkeeping from the implementation's result
        let mon2 := { mon1 with
          delivered := mon1.delivered || iword == "hdr" || iword.startsWith "msg",
          bufSize := mon1.bufSize + (match op, args with | "send", [n] => 5 + (n.toInt?.getD 0) | _, _ => 0),
          ended := mon1.ended || op == "cancel" || ((op == "recv" || op == "hdr" || op == "send") && (iword == "err" || iword == "exhausted-eof" || iword == "nohdr" || (op == "recv" && iword == "eof"))) }
        let mon3 := { mon2 with overLimit := mon2.overLimit || decide (mon2.bufSize > st'.maxBuf) }
        let verdict2 :=
          if verdict.startsWith "VIOL" then verdict
          else match dl, it with
            | _ :: _, some t =>
              if tOK then verdict
              else s!"VIOL retries of this op took {t}ns, outside the backoff/pushback bounds [{lo},{hi.floor}]"
            | _, _ => verdict
        ({ cfg := some { c with st := st' }, mon := mon3, blocked := res = .blocked,
           dead := ds.dead || (op == "new" && res != .ok && res != .blocked) }, mline, verdict2)
  | _ => (ds, "bad-op", "-")

def run : IO Unit := Driver.run ({} : DS) step

end GrpcModel.Driver.S_retry
