import GrpcModel.Driver.Loop
import GrpcModel.Model.MD
/-! component `md` (C28): the public metadata API driven as a small machine over numbered MD
    objects (`m<i>` = object i) and numbered contexts.

    creating ops print the dump of the new object (sorted by key, `k=v,v;k=!`, `-` = empty map, `~` = empty string):
      lit d <md> | new d <k=v;…> | pairs d k v k v … | copy d s | join d s1 s2 … | fromin d c | fromout d c   (`none` = no MD in ctx)
    reads:   get m k → `<vals> ci=<b>` | len m | dump m | valin c k → `<vals> full=<vals>` | valout c k → same
    writes:  set m k <vals> | append m k <vals> | delete m k → `ok ci=<b>` | scribble m → ok
    ctx:     bg c | newin c p m | newout c p m | appendout c p k v k v … → ok
    probes (mutate-after-return; print `<before>|<after>` of what must not change):
      pcopy m | pjoin s1 s2 … | pfromin c | pfromout c | pvalin c k | pvalout c k
-/
namespace GrpcModel.Driver.Md
open GrpcModel.Driver GrpcModel.MD

def keyOf (s : String) : Key := if s = "~" then [] else s.toList.map Char.toNat
def valOf (s : String) : Val := if s = "~" then "" else s
def showKey (k : Key) : String := if k.isEmpty then "~" else String.ofList (k.map Char.ofNat)
def showVal (v : Val) : String := if v = "" then "~" else v

def valsOf (s : String) : List Val := if s = "-" then [] else (s.splitOn ",").map valOf
def showVals (l : List Val) : String := if l.isEmpty then "-" else ",".intercalate (l.map showVal)

def parseGroup (s : String) : Option (Key × List Val) :=
  match s.splitOn "=" with
  | [k, vs] => some (keyOf k, if vs = "!" then [] else (vs.splitOn ",").map valOf)
  | _ => none

def parseMD (s : String) : Option MD :=
  if s = "-" then some [] else (s.splitOn ";").mapM parseGroup

def parseKV1 (s : String) : Option (Key × Val) :=
  match s.splitOn "=" with
  | [k, v] => some (keyOf k, valOf v)
  | _ => none

def parseMap (s : String) : Option (List (Key × Val)) :=
  if s = "-" then some [] else (s.splitOn ";").mapM parseKV1

def pairUp : List String → Option (List (Key × Val))
  | [] => some []
  | k :: v :: t => (pairUp t).map ((keyOf k, valOf v) :: ·)
  | [_] => none

def keyLt : Key → Key → Bool
  | [], [] => false
  | [], _ :: _ => true
  | _ :: _, [] => false
  | a :: as, b :: bs => if a < b then true else if b < a then false else keyLt as bs

def insertSorted (g : Key × List Val) : MD → MD
  | [] => [g]
  | h :: t => if keyLt g.1 h.1 then g :: h :: t else h :: insertSorted g t

def sortMD (md : MD) : MD := md.foldr insertSorted []

def dump (md : MD) : String :=
  if md.isEmpty then "-" else
  ";".intercalate ((sortMD md).map fun g => showKey g.1 ++ "=" ++ (if g.2.isEmpty then "!" else ",".intercalate (g.2.map showVal)))

def insertAll {α} (x : α) : List α → List (List α)
  | [] => [[x]]
  | y :: ys => (x :: y :: ys) :: (insertAll x ys).map (y :: ·)

def perms {α} : List α → List (List α)
  | [] => [[]]
  | x :: xs => (perms xs).flatMap (insertAll x)

def dedupS : List String → List String
  | [] => []
  | x :: xs => let r := dedupS xs; if r.contains x then r else x :: r

def maxPerm : Nat := 6

/-- the iteration orders of a map that can matter: one if no two keys collide up to case -/
def orders (md : MD) : List MD := if noFoldCollision md then [md] else perms md

def ordersKV (m : List (Key × Val)) : List (List (Key × Val)) :=
  if noFoldCollision (m.map fun p => (p.1, [p.2])) then [m] else perms m

/-- all printed results over the iteration orders; `none` when there are too many to enumerate -/
def outcomes {α} (os : List α) (f : α → String) : List String := dedupS (os.map f)

def showOut : Out → String
  | .ok => "ok" | .bad => "bad-op" | .absent => "none"
  | .vals l => showVals l | .md m => dump m | .num n => toString n

def objNum (s : String) : Option Nat := s.toNat?

/-- a result that may depend on the map order: exact when it does not, `*` otherwise -/
def exactOr (outs : List String) : String := match outs with | [o] => o | _ => "*"

def rawOrders (st : St) (x : Ctx) : Option (List RawMD) :=
  x.out.map fun o =>
    match o.1.bind (getObj st) with
    | none => [⟨none, o.2⟩]
    | some md => (orders md).map fun p => ⟨some p, o.2⟩

def tooBig (md : MD) : Bool := !(noFoldCollision md) && md.length > maxPerm

structure Res where
  st : St
  model : String
  verdict : String := "-"

def lookupD (md : MD) (k : Key) : List Val := mgetD md k

def allKeys (md : MD) : List Key := md.map (·.1)

def nodupKeys : List Key → Bool
  | [] => true
  | k :: t => !(t.contains k) && nodupKeys t

/-- property clause "FromXContext returns the multimap with keys lower-cased": evaluated on the
    implementation's MD against the SPEC functions (not the model's fold) -/
def specMD (implMD : MD) (cands : List Key) (spec : Key → List Val) : String :=
  if !(nodupKeys (allKeys implMD)) then "VIOL duplicate key in returned MD"
  else if (allKeys implMD).any (fun k => lower k != k) then "VIOL returned MD has a key that is not lower-case"
  else if (allKeys implMD ++ cands.map lower).all (fun k => lookupD implMD k == spec k) then "ok"
  else "VIOL returned MD is not the multimap of the pairs (base values then appended values per lower-cased key)"

/-- adopt what the implementation returned for object `d` (used when Go's map order decided) -/
def adopt (st : St) (d : Nat) (impl : String) : St :=
  match parseMD impl with
  | some md => putObj st d md
  | none => st

def kvCands (kvs : List (List (Key × Val))) : List Key := kvs.flatten.map (·.1)

def splitBar (s : String) : Option (String × String) :=
  match s.splitOn "|" with
  | [a, b] => some (a, b)
  | _ => none

def probeVerdict (impl : String) (det : Bool) : String :=
  if !det then "-" else
  match splitBar impl with
  | some (a, b) => if a = b then "ok" else "VIOL mutating a returned copy changed what the context/MD holds"
  | none => "VIOL unparsable answer"

def ciVerdict (impl : String) : String :=
  if impl.endsWith " ci=true" then "ok"
  else if impl.endsWith " ci=false" then "VIOL the key argument is not treated case-insensitively"
  else "VIOL unparsable answer"

def fullVerdict (impl : String) (det : Bool) : String :=
  if !det then "-" else
  match impl.splitOn " full=" with
  | [a, b] => if a = b then "ok" else "VIOL ValueFromXContext disagrees with the full lookup"
  | _ => "VIOL unparsable answer"

def stepD (st : St) (fs : List String) (impl : String) : Res :=
  let bad : Res := ⟨st, "bad-op", "-"⟩
  let run (op : Op) : St × String := let r := step st op; (r.1, showOut r.2)
  match fs with
  | ["lit", d, md] => match objNum d, parseMD md with
    | some d, some md => let r := run (.lit d md); ⟨r.1, r.2, "-"⟩
    | _, _ => bad
  | ["new", d, m] => match objNum d, parseMap m with
    | some d, some m =>
      if (getObj st d).isSome then bad else
      let outs := outcomes (ordersKV m) (fun o => dump (mdNew o))
      let v := if !(outs.contains impl) then "VIOL no iteration order of the argument map explains New's result"
        else match parseMD impl with
          | some im => specMD im (m.map (·.1)) (fun k => if (ordersKV m).length = 1 then pairVals m k else lookupD im (lower k))
          | none => "VIOL unparsable answer"
      match outs with
      | [o] => ⟨(step st (.new d m)).1, o, v⟩
      | _ => ⟨adopt st d impl, "*", v⟩
    | _, _ => bad
  | "pairs" :: d :: kv => match objNum d, pairUp kv with
    | some d, some kv =>
      let r := run (.pairs d kv)
      let v := match parseMD impl with
        | some im => specMD im (kv.map (·.1)) (pairVals kv)
        | none => if r.2 = "bad-op" then "-" else "VIOL unparsable answer"
      ⟨r.1, r.2, v⟩
    | some d, none => if (getObj st d).isSome then bad else ⟨st, "panic", "-"⟩
    | _, _ => bad
  | ["copy", d, s] => match objNum d, objNum s with
    | some d, some s =>
      let r := run (.copy d s)
      let v := match getObj st s, parseMD impl with
        | some src, some im => if dump src = dump im then "ok" else "VIOL Copy is not equal to the original"
        | _, _ => "-"
      ⟨r.1, r.2, v⟩
    | _, _ => bad
  | "join" :: d :: srcs => match objNum d, srcs.mapM objNum with
    | some d, some ss =>
      let r := run (.join d ss)
      let v := match ss.mapM (getObj st), parseMD impl with
        | some mds, some im =>
          if !(nodupKeys (allKeys im)) then "VIOL duplicate key in returned MD"
          else if (allKeys im ++ mds.flatMap allKeys).all (fun k => lookupD im k == (mds.map (lookupD · k)).flatten) then "ok"
          else "VIOL Join does not concatenate the values in argument order"
        | _, _ => "-"
      ⟨r.1, r.2, v⟩
    | _, _ => bad
  | ["get", m, k] => match objNum m with
    | some m => let r := run (.get m (keyOf k))
                if r.2 = "bad-op" then bad else ⟨r.1, r.2 ++ " ci=true", ciVerdict impl⟩
    | none => bad
  | ["set", m, k, vs] => match objNum m with
    | some m => let r := run (.set m (keyOf k) (valsOf vs))
                if r.2 = "bad-op" then bad else ⟨r.1, r.2 ++ " ci=true", ciVerdict impl⟩
    | none => bad
  | ["append", m, k, vs] => match objNum m with
    | some m => let r := run (.append m (keyOf k) (valsOf vs))
                if r.2 = "bad-op" then bad else ⟨r.1, r.2 ++ " ci=true", ciVerdict impl⟩
    | none => bad
  | ["delete", m, k] => match objNum m with
    | some m => let r := run (.delete m (keyOf k))
                if r.2 = "bad-op" then bad else ⟨r.1, r.2 ++ " ci=true", ciVerdict impl⟩
    | none => bad
  | ["len", m] => match objNum m with
    | some m => let r := run (.len m); ⟨r.1, r.2, "-"⟩
    | none => bad
  | ["dump", m] => match objNum m with
    | some m => let r := run (.dump m); ⟨r.1, r.2, "-"⟩
    | none => bad
  | ["scribble", m] => match objNum m with
    | some m => let r := run (.scribble m); ⟨r.1, r.2, "-"⟩
    | none => bad
  | ["bg", c] => match objNum c with
    | some c => let r := run (.bg c); ⟨r.1, r.2, "-"⟩
    | none => bad
  | ["newin", c, p, m] => match objNum c, objNum p, objNum m with
    | some c, some p, some m => let r := run (.newin c p m); ⟨r.1, r.2, "-"⟩
    | _, _, _ => bad
  | ["newout", c, p, m] => match objNum c, objNum p, objNum m with
    | some c, some p, some m => let r := run (.newout c p m); ⟨r.1, r.2, "-"⟩
    | _, _, _ => bad
  | "appendout" :: c :: p :: kv => match objNum c, objNum p, pairUp kv with
    | some c, some p, some kv => let r := run (.appendout c p kv); ⟨r.1, r.2, "-"⟩
    | some _, some p, none => if (getCtx st p).isNone then bad else ⟨st, "panic", "-"⟩
    | _, _, _ => bad
  | ["fromin", d, c] => match objNum d, objNum c with
    | some d, some c => match getCtx st c with
      | none => bad
      | some x =>
        if (getObj st d).isSome then bad else
        match incOf st x with
        | none => ⟨st, "none", if impl = "none" then "ok" else "VIOL metadata reported for a context without incoming MD"⟩
        | some md =>
          if tooBig md then ⟨adopt st d impl, "*", "-"⟩ else
          let outs := outcomes (orders md) (fun o => dump (fromIncoming o))
          let sv := if !(noFoldCollision md) then "ok" else match parseMD impl with
              | some im => specMD im (allKeys md) (foldLookup md)
              | none => "VIOL unparsable answer"
          let v := if sv != "ok" then sv
            else if !(outs.contains impl) then "VIOL no iteration order of the map explains FromIncomingContext's result"
            else "ok"
          match outs with
          | [o] => ⟨(step st (.fromin d c)).1, o, v⟩
          | _ => ⟨adopt st d impl, "*", v⟩
    | _, _ => bad
  | ["fromout", d, c] => match objNum d, objNum c with
    | some d, some c => match getCtx st c with
      | none => bad
      | some x =>
        if (getObj st d).isSome then bad else
        match rawOf st x, rawOrders st x with
        | some raw, some ros =>
          if tooBig (raw.md.getD []) then ⟨adopt st d impl, "*", "-"⟩ else
          let outs := outcomes ros (fun r => dump (fromOutgoing r))
          let sv := if !(noFoldCollision (raw.md.getD [])) then "ok" else match parseMD impl with
              | some im => specMD im (allKeys (raw.md.getD []) ++ kvCands raw.added) (specOutgoing raw)
              | none => "VIOL unparsable answer"
          let v := if sv != "ok" then sv
            else if !(outs.contains impl) then "VIOL no iteration order of the map explains FromOutgoingContext's result"
            else "ok"
          match outs with
          | [o] => ⟨(step st (.fromout d c)).1, o, v⟩
          | _ => ⟨adopt st d impl, "*", v⟩
        | _, _ => ⟨st, "none", if impl = "none" then "ok" else "VIOL metadata reported for a context without outgoing MD"⟩
    | _, _ => bad
  | ["valin", c, k] => match objNum c with
    | some c => match getCtx st c with
      | none => bad
      | some x =>
        match incOf st x with
        | none => ⟨st, "- full=-", fullVerdict impl true⟩
        | some md =>
          if tooBig md then ⟨st, "*", "-"⟩ else
          let outs := outcomes (orders md) (fun o => showVals (valueFromIncoming o (keyOf k)) ++ " full=" ++ showVals (lookupD (fromIncoming o) (lower (keyOf k))))
          ⟨st, exactOr outs, fullVerdict impl (noFoldCollision md)⟩
    | none => bad
  | ["valout", c, k] => match objNum c with
    | some c => match getCtx st c with
      | none => bad
      | some x =>
        match rawOf st x, rawOrders st x with
        | some raw, some ros =>
          if tooBig (raw.md.getD []) then ⟨st, "*", "-"⟩ else
          let outs := outcomes ros (fun r => showVals (valueFromOutgoing r (keyOf k)) ++ " full=" ++ showVals (lookupD (fromOutgoing r) (lower (keyOf k))))
          ⟨st, exactOr outs, fullVerdict impl (noFoldCollision (raw.md.getD []))⟩
        | _, _ => ⟨st, "- full=-", fullVerdict impl true⟩
    | none => bad
  -- probes: the model's answer is "nothing changed"
  | ["pcopy", m] => match objNum m with
    | some m => match getObj st m with
      | some md => ⟨st, dump md ++ "|" ++ dump md, probeVerdict impl true⟩
      | none => bad
    | none => bad
  | "pjoin" :: srcs => match srcs.mapM objNum with
    | some ss => match ss.mapM (getObj st) with
      | some mds => let s := " ".intercalate (mds.map dump); ⟨st, s ++ "|" ++ s, probeVerdict impl true⟩
      | none => bad
    | none => bad
  | ["pfromin", c] => match objNum c with
    | some c => match getCtx st c with
      | none => bad
      | some x => match incOf st x with
        | none => ⟨st, "none|none", probeVerdict impl true⟩
        | some md =>
          if tooBig md then ⟨st, "*", "-"⟩ else
          let outs := outcomes (orders md) (fun o => dump (fromIncoming o))
          ⟨st, exactOr (outs.map fun o => o ++ "|" ++ o), probeVerdict impl (outs.length = 1)⟩
    | none => bad
  | ["pfromout", c] => match objNum c with
    | some c => match getCtx st c with
      | none => bad
      | some x => match rawOf st x, rawOrders st x with
        | some raw, some ros =>
          if tooBig (raw.md.getD []) then ⟨st, "*", "-"⟩ else
          let outs := outcomes ros (fun r => dump (fromOutgoing r))
          ⟨st, exactOr (outs.map fun o => o ++ "|" ++ o), probeVerdict impl (outs.length = 1)⟩
        | _, _ => ⟨st, "none|none", probeVerdict impl true⟩
    | none => bad
  | ["pvalin", c, k] => match objNum c with
    | some c => match getCtx st c with
      | none => bad
      | some x => match incOf st x with
        | none => ⟨st, "-|-", probeVerdict impl true⟩
        | some md =>
          if tooBig md then ⟨st, "*", "-"⟩ else
          let outs := outcomes (orders md) (fun o => showVals (valueFromIncoming o (keyOf k)))
          ⟨st, exactOr (outs.map fun o => o ++ "|" ++ o), probeVerdict impl (outs.length = 1)⟩
    | none => bad
  | ["pvalout", c, k] => match objNum c with
    | some c => match getCtx st c with
      | none => bad
      | some x => match rawOf st x, rawOrders st x with
        | some raw, some ros =>
          if tooBig (raw.md.getD []) then ⟨st, "*", "-"⟩ else
          let outs := outcomes ros (fun r => showVals (valueFromOutgoing r (keyOf k)))
          ⟨st, exactOr (outs.map fun o => o ++ "|" ++ o), probeVerdict impl (outs.length = 1)⟩
        | _, _ => ⟨st, "-|-", probeVerdict impl true⟩
    | none => bad
  | _ => bad

def stepS (st : St) (fs : List String) (impl : String) : St × String × String :=
  let r := stepD st fs impl
  (r.st, r.model, r.verdict)

def run : IO Unit := Driver.run ({} : St) stepS

end GrpcModel.Driver.Md
