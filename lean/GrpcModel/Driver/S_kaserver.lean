import GrpcModel.Driver.Loop
import GrpcModel.Driver.S_kaclient
import GrpcModel.Model.Keepalive
/-!
component `s_kaserver` (C15, server half): see harness/synct/c_kaserver_test.go for the ops.

Model = server keepalive loop (`serverFire`) + ping-strike ledger (`handlePing`) + a table of the
streams' (done, headerSent) bits deciding which handler calls really write something.
Monitor on the IMPLEMENTATION's events:
  * keepalive: the same `healthy` / `dead peer` predicates as the client (always applicable);
  * no GOAWAY(ENHANCE_YOUR_CALM) while every ping so far was spaced as the policy demands;
  * GOAWAY(ENHANCE_YOUR_CALM) exactly at the third unforgiven too-early ping (strike run = 3),
    where a ping that follows server-sent headers/data is forgiven and restarts the run.
-/
namespace GrpcModel.Driver.S_kaserver
open GrpcModel.Driver GrpcModel.Keepalive GrpcModel.Generated
open GrpcModel.Driver.S_kaclient (Mon showOuts implClose verdict fuelFor)

structure SStream where
  done : Bool := false
  hdrSent : Bool := false

/-- The property's own bookkeeping of pings (inputs only). -/
structure PMon where
  lastPing : Option Nat := none
  writeSince : Bool := false   -- server wrote headers/data since the previous ping
  strikeRun : Nat := 0         -- unforgiven too-early pings since the last forgiven one
  spaced : Bool := true        -- every ping so far respected the required spacing
  ns : Nat := 0

structure St where
  cfg : Option (Cfg × Policy) := none
  ka : KA := KA.init ⟨1, 1, true⟩
  led : Ledger := Ledger.init
  strs : List SStream := []
  gone : Bool := false         -- model: GOAWAY sent or closed
  mon : Mon := {}
  pm : PMon := {}

/-- `g@<t>:<code>` in an implementation answer. -/
def implGoaway (impl : String) : Option (Nat × Nat) :=
  (impl.splitOn " ").findSome? fun w =>
    if w.startsWith "g@" then
      match (w.drop 2).toString.splitOn ":" with
      | [t, c] => match t.toNat?, c.toNat? with
        | some t, some c => some (t, c)
        | _, _ => none
      | _ => none
    else none

def setAt (l : List SStream) (k : Nat) (f : SStream → SStream) : List SStream :=
  l.mapIdx fun i x => if i = k then f x else x

/-- Ledger verdict for a `ping` op. -/
def pingVerdict (p : Policy) (pm : PMon) (now : Nat) (impl : String) : PMon × String :=
  let req := if pm.ns < 1 && !p.permit then 7200000000000 else p.minTime
  let early := match pm.lastPing with | none => false | some l => decide (now < l + req)
  let run := if pm.writeSince then 0 else if early then pm.strikeRun + 1 else pm.strikeRun
  let pm' := { pm with lastPing := some now, writeSince := false, strikeRun := run, spaced := pm.spaced && !early }
  let ga := match implGoaway impl with | some (_, 11) => true | _ => false
  let v :=
    if ga && pm'.spaced then "VIOL GOAWAY ENHANCE_YOUR_CALM although all pings were spaced"
    else if ga && decide (run < 3) then s!"VIOL GOAWAY ENHANCE_YOUR_CALM after only {run} strikes"
    else if !ga && decide (run ≥ 3) then "VIOL third too-early ping without GOAWAY ENHANCE_YOUR_CALM"
    else "ok"
  (pm', v)

def step : Step St := fun st fs impl =>
  match st.cfg, fs with
  | none, ["start", a, b, mt, p] =>
    match a.toNat?, b.toNat?, mt.toNat?, p with
    | some t, some to, some mt, "0" | some t, some to, some mt, "1" =>
      if t = 0 || to = 0 || mt = 0 then (st, "bad-op", "-") else
      let c : Cfg := ⟨t, to, true⟩
      ({ cfg := some (c, ⟨mt, p == "1"⟩), ka := KA.init c }, "ok", "-")
    | _, _, _, _ => (st, "bad-op", "-")
  | none, _ => (st, "bad-op", "-")
  | some (c, pol), _ =>
    if fs.head? == some "start" then (st, "bad-op", "-") else
    let m := st.mon
    let implGone := m.closed
    -- monitor bookkeeping common to all ops that are frames read by the server
    let rd (m : Mon) : Mon := { m with lastRead := m.now }
    let kaRead (ka : KA) : KA := (sstep c ka .read).1
    let fin (st' : St) (out : String) (m' : Mon) (pm' : PMon) (lv : String) : St × String × String :=
      let kv := if implGone then "-" else verdict c m' false impl
      let v := if implGone then "-" else if kv.startsWith "VIOL" then kv else if lv.startsWith "VIOL" then lv else "ok"
      let stray := match implGoaway impl with | some (_, 11) => fs != ["ping"] | _ => false
      let v := if !implGone && stray then "VIOL GOAWAY ENHANCE_YOUR_CALM without a ping" else v
      let gone' := (implClose impl).isSome || (implGoaway impl).isSome
      ({ st' with mon := { m' with closed := m.closed || gone' }, pm := pm' }, if st.gone then "closed" else out, v)
    let bad : St × String × String := (st, if st.gone then "closed" else "bad-op", "-")
    let idx (k : String) : Option Nat := match k.toNat? with
      | some i => if i < st.strs.length && toString i == k then some i else none
      | none => none
    match fs with
    | ["adv", d] =>
      match d.toNat? with
      | none => bad
      | some d =>
        let es := (schedule serverFire c st.ka d (fuelFor c d)).getD []
        let (ka', outs) := runG serverFire c st.ka es
        let closed := outs.any fun | .close _ => true | _ => false
        fin { st with ka := ka', led := lstep pol st.led (.delay d), gone := st.gone || closed }
          (if es.isEmpty then "model-out-of-fuel" else showOuts outs) { m with now := m.now + d } st.pm "ok"
    | ["ping"] =>
      let led' := lstep pol st.led .ping
      let newGo := led'.goaway && !st.led.goaway
      let (pm', lv) := pingVerdict pol st.pm m.now impl
      fin { st with ka := kaRead st.ka, led := led', gone := st.gone || newGo }
        (if newGo then s!"g@{st.led.now}:11" else "-") (rd m) pm' lv
    | ["read", k] =>
      if ["ack", "settings", "wupd"].contains k then fin { st with ka := kaRead st.ka } "-" (rd m) st.pm "ok" else bad
    | ["open"] =>
      fin { st with ka := kaRead st.ka, led := lstep pol st.led .openS, strs := st.strs ++ [{}] } "-" (rd m)
        { st.pm with ns := st.pm.ns + 1 } "ok"
    | ["rst", k] =>
      match idx k with
      | none => bad
      | some i =>
        let live := !(st.strs.getD i {}).done
        fin { st with ka := kaRead st.ka, led := if live then lstep pol st.led .doneS else st.led,
                      strs := setAt st.strs i fun x => { x with done := true } } "-" (rd m)
          { st.pm with ns := if live then st.pm.ns - 1 else st.pm.ns } "ok"
    | ["hdr", k] =>
      match idx k with
      | none => bad
      | some i =>
        let x := st.strs.getD i {}
        if x.done || x.hdrSent then fin st "err" m st.pm "ok"
        else fin { st with led := lstep pol st.led .write, strs := setAt st.strs i fun x => { x with hdrSent := true } } "-" m
          { st.pm with writeSince := true } "ok"
    | ["data", k] =>
      match idx k with
      | none => bad
      | some i =>
        let x := st.strs.getD i {}
        if x.done then fin st "err" m st.pm "ok"
        else fin { st with led := lstep pol st.led .write, strs := setAt st.strs i fun x => { x with hdrSent := true } } "-" m
          { st.pm with writeSince := true } "ok"
    | ["fin", k] =>
      match idx k with
      | none => bad
      | some i =>
        let x := st.strs.getD i {}
        if x.done then fin st "-" m st.pm "ok"
        else fin { st with led := lstep pol (lstep pol st.led .write) .doneS,
                           strs := setAt st.strs i fun x => { x with done := true, hdrSent := true } } "-" m
          { st.pm with writeSince := true, ns := st.pm.ns - 1 } "ok"
    | _ => bad

def run : IO Unit := Driver.run ({} : St) step

end GrpcModel.Driver.S_kaserver
