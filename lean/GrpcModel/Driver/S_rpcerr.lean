import GrpcModel.Driver.Loop
import GrpcModel.Driver.Rpcerr
import GrpcModel.Model.Errors
/-! component `s_rpcerr` (C24, e2e): `pick <spec> <ff>` | `cfgsel <spec>` | `creds <dial|call> <spec>` |
`dial <spec> <ff>` | `stream <scenario>`; answers are canon values of what Invoke / NewStream / SendMsg /
RecvMsg returned to the application. -/
namespace GrpcModel.Driver.S_rpcerr
open GrpcModel.Driver GrpcModel.Errors GrpcModel.Driver.Rpcerr GrpcModel.Generated

def showPick : PickOutcome → String
  | .again => canon (ctxEnd true)      -- blocks until the 1 s deadline of the harness
  | .fail e => canon e

def streamTable (scenario : String) : Option String :=
  let tail (r : String) := s!"new=nil send=nil recv={r} send2=eof recv2={r}"
  if scenario = "clean" ∨ scenario = "srvst.0" then some (tail "eof")
  else if scenario = "srvstop" then some (tail s!"st:{codeUnavailable}")
  else if scenario = "cancel" then some (tail s!"st:{codeCanceled}")
  else if scenario = "deadline" then some (tail s!"st:{codeDeadlineExceeded}")
  else if scenario = "srvplain" then some (tail s!"st:{codeUnknown}")
  else if scenario.startsWith "sendretry." then
    -- the server refuses every attempt trailers-only with UNAVAILABLE (retryable): the k-th failing SendMsg
    -- exhausts maxAttempts = k and returns shouldRetry's wrapped io.EOF; later sends see the finished stream
    (scenario.drop 10).toString.toNat?.map fun k =>
      let sends := (List.range 5).map fun i =>
        let v := if i + 1 < k then "nil" else if i + 1 = k then canon (retryExhausted .eof) else "eof"
        s!"send{i + 1}={v}"
      " ".intercalate (["new=nil"] ++ sends ++ [s!"recv=st:{codeUnavailable}"])
  else if scenario.startsWith "retryctx." then
    -- every attempt refused with a retryable status; the context ends inside shouldRetry's backoff sleep
    match scenario.splitOn "." with
    | [_, api, how] =>
      let r := canon (retryBackoffCtxDone (if how = "deadline" then .ctxDeadline else .ctxCanceled))
      if how ≠ "deadline" ∧ how ≠ "cancel" then none
      else if api = "invoke" then some s!"invoke={r}"
      else if api = "send" then some s!"new=nil send={r}"
      else if api = "recv" then some s!"new=nil send=nil recv={r}"
      else none
    | _ => none
  else if scenario.startsWith "srvst." then (scenario.drop 6).toString.toNat?.map fun c => tail s!"st:{c}"
  else none

def model (fs : List String) : String :=
  match fs with
  | ["pick", sp, ff] => match parseSpec sp with
    | some e => showPick (pickErr e (ff = "1"))
    | none => "bad-op"
  | ["cfgsel", sp] => match parseSpec sp with
    | some e => canon (configSelectorErr e)
    | none => "bad-op"
  | ["creds", site, sp] => match parseSpec sp with
    | some e => canon (credsErr (if site = "dial" then .transportCreds else .callCreds) e)
    | none => "bad-op"
  | ["dial", sp, ff] => match parseSpec sp with
    -- the dial error reaches the picker wrapped in a ConnectionError inside pick_first's error
    | some e => showPick (pickErr (.wrapped (.connErr e)) (ff = "1"))
    | none => "bad-op"
  | ["stream", sc] => (streamTable sc).getD "bad-op"
  | _ => "bad-op"

/-- gRFC A54's data-plane codes, as listed in the property. -/
def a54Codes : List Nat := [3, 5, 6, 9, 10, 11, 15]

/-- The property on what the application saw. -/
def monitor (fs : List String) (impl : String) : String :=
  let isStatus (c : String) := c.startsWith "st:"
  match fs with
  | ["stream", _] =>
    let bad := (impl.splitOn " ").filter fun item =>
      match item.splitOn "=" with
      | [k, v] =>
        if k = "new" ∨ k = "invoke" then !(v = "nil" || isStatus v)
        else !(v = "nil" || v = "eof" || isStatus v)
      | _ => true
    if bad.isEmpty then "ok" else s!"VIOL non-status error returned to the application: {bad}"
  | op :: rest =>
    if op = "pick" ∨ op = "cfgsel" ∨ op = "creds" ∨ op = "dial" then
      if impl = "eof" then "VIOL Invoke returned io.EOF, which carries no gRPC status"
      else if !isStatus impl then s!"VIOL Invoke returned {impl}: not an error with a gRPC status"
      else
        -- A54: a status error with a restricted code coming from picker / config selector / creds
        let sp := if op = "creds" then rest.getD 1 "" else rest.getD 0 ""
        match parseSpec sp with
        | some e =>
          match fromError e with
          | some c =>
            if a54Codes.contains c ∧ op ≠ "dial" ∧ e ≠ .noSubConn ∧ impl ≠ "st:13" then
              s!"VIOL restricted code {c} surfaced as {impl}, not INTERNAL"
            else "ok"
          | none => "ok"
        | none => "-"
    else "-"
  | _ => "-"

def run : IO Unit := Driver.run () (pureStepMon model monitor)

end GrpcModel.Driver.S_rpcerr
