import GrpcModel.Driver.Loop
import GrpcModel.Model.Connectivity
import GrpcModel.Generated.Connectivity
/-!
component `s_connectivity` (C30), tie T2: see harness/synct/c_connectivity_test.go for the ops and
the output format.

Each op is one external event (one or a few `Act`s of the model) followed by `settle`: every
goroutine of the model that is not waiting for the environment runs until it is (connect
goroutines re-acquire ac.mu, the serializer delivers its queue, WaitForStateChange callers run to
their select).  The model output is the same line the harness prints.

The verdict is the C30 predicate evaluated on the IMPLEMENTATION's line, from what the
implementation showed so far and the ops only:

* per sub-channel, the sequence delivered to the LB policy: nothing after SHUTDOWN, READY only
  right after CONNECTING, TRANSIENT_FAILURE left only to IDLE (and only by a `sleep` that reaches
  the 1 s back-off, or `resetbackoff`) or to SHUTDOWN;
* the published channel states never leave SHUTDOWN; `st=` (GetState) is the last published one;
* WaitForStateChange: `true` only if the published state differed from the source state at or
  after the call; `false` only with an expired context and no such difference; a caller still
  blocked after a difference is a missed notification;
* `real=`: the state last delivered to the LB policy for each of its SubConns is the addrConn's
  actual state (no update missed, none reordered).
-/
namespace GrpcModel.Driver.S_connectivity
open GrpcModel.Driver GrpcModel.Connectivity

/-- T4: in the CURRENT source of ClientConn.WaitForStateChange the notify channel is taken before the
    state is read (the order the model's `codeOrder = true` callers use and the theorems need). The
    tie cannot interleave a change between the two calls, so the order is read off the source text. -/
def sourceOrderIsCodeOrder : Bool :=
  let src := GrpcModel.Generated.waitForStateChangeSrc
  match src.splitOn "getNotifyChan()", src.splitOn "getState()" with
  | a :: _ :: _, b :: _ :: _ => a.length < b.length
  | _, _ => false

def nat? (s : String) : Option Nat :=
  match s.toNat? with
  | some n => if toString n = s ∧ n ≤ 1000000 then some n else none
  | none => none

def showState : ConnState → String
  | .idle => "IDLE" | .connecting => "CONNECTING" | .ready => "READY"
  | .transientFailure => "TRANSIENT_FAILURE" | .shutdown => "SHUTDOWN"

def state? : String → Option ConnState
  | "IDLE" => some .idle | "CONNECTING" => some .connecting | "READY" => some .ready
  | "TRANSIENT_FAILURE" => some .transientFailure | "SHUTDOWN" => some .shutdown | _ => none

structure ScInfo where
  k : Nat
  id : Nat
  version : Nat

/-- monitor record of one WaitForStateChange caller -/
structure MW where
  id : Nat
  src : ConnState
  sawDiff : Bool
  deadline : Option Nat
  cancelled : Bool
  done : Bool

structure Mon where
  lastSeen : List (Nat × ConnState)   -- per SubConn k of the current LB policy: last state delivered
  tfAt : List (Nat × Nat)             -- clock at which TRANSIENT_FAILURE was delivered
  lastPub : ConnState
  ws : List MW

structure D where
  sys : Sys
  scs : List ScInfo
  lbBuilt : Bool
  idleMode : Bool
  health : Bool
  nops : Nat
  clock : Nat
  timers : List (Nat × Nat × Nat)     -- (sc id, goroutine, deadline)
  gver : List (Nat × Nat × Nat)       -- (sc id, goroutine, address version it dials)
  curAddr : List (Nat × Nat)          -- (sc id, address version connected)
  lastTr : List (Nat × Nat × Nat)     -- (address k, sc id, transport): latest server for a<k>
  lastHf : List (Nat × Nat × Nat)     -- (address k, sc id, transport): latest health function for a<k>
  wdl : List (Nat × Nat)              -- (waiter id, deadline)
  wids : List Nat
  nDelivered : Nat
  nPublished : Nat
  wReported : List Nat
  mon : Mon

def init : D :=
  { sys := Sys.init, scs := [], lbBuilt := false, idleMode := true, health := false, nops := 0, clock := 0,
    timers := [], gver := [], curAddr := [], lastTr := [], lastHf := [], wdl := [], wids := [],
    nDelivered := 0, nPublished := 0, wReported := [],
    mon := { lastSeen := [], tfAt := [], lastPub := .idle, ws := [] } }

def lookup2 (l : List (Nat × Nat × Nat)) (a : Nat) : Option (Nat × Nat) :=
  (l.find? (·.1 = a)).map (·.2)

def lookupG (l : List (Nat × Nat × Nat)) (id g : Nat) : Option Nat :=
  (l.find? (fun x => x.1 = id ∧ x.2.1 = g)).map (·.2.2)

def setKV (l : List (Nat × Nat × Nat)) (a : Nat) (v : Nat × Nat) : List (Nat × Nat × Nat) :=
  (a, v) :: l.filter (·.1 ≠ a)

def acOf (d : D) (id : Nat) : Option AC := d.sys.acs id

def stepAc (d : D) (id : Nat) (a : AcAct) : D := { d with sys := step d.sys (.ac id a) }

/-- one pass over the goroutines of sub-channel `id`: every goroutine that can take its next
    critical section (or whose dial/back-off is ended by a dead context) does so -/
def passAc (d : D) (id : Nat) : D :=
  match acOf d id with
  | none => d
  | some a0 =>
    (List.range a0.nextG).foldl (fun d g =>
      match acOf d id with
      | none => d
      | some a =>
        match a.gors g with
        | none => d
        | some x =>
          match x.pc with
          | .created t =>
            let d1 := stepAc d id (.lockCreated g)
            -- a transport that became the current one: remember the address it is connected to
            match acOf d1 id with
            | some a1 => if a1.transport = some t ∧ a.transport ≠ some t then
                           let v := (lookupG d1.gver id g).getD 0
                           let k := ((d1.scs.find? (·.id = id)).map (·.k)).getD 0
                           { d1 with curAddr := (id, v) :: d1.curAddr.filter (·.1 ≠ id),
                                     lastHf := if a1.healthEnabled then setKV d1.lastHf k (id, t) else d1.lastHf }
                         else d1
            | none => d1
          | .failedAll =>
            let d1 := stepAc d id (.lockFailed g)
            match acOf d1 id with
            | some a1 => match a1.gors g with
              | some x1 => if x1.pc = .backoff then { d1 with timers := (id, g, d1.clock + 1) :: d1.timers } else d1
              | none => d1
            | none => d1
          | .afterBackoff => stepAc d id (.lockAfterBackoff g)
          | .backoff => if a.ctxLive x.ctx then d else stepAc d id (.backoffCtxDone g)
          | .dialing 0 => stepAc d id (.dialNone g)
          | .dialing (_ + 1) => if a.ctxLive x.ctx then d else stepAc d id (.dialFail g)
          | .done => d) d

def deliverAll : Nat → Sys → Sys
  | 0, s => s
  | n + 1, s => if s.ccb.queue.isEmpty then s else deliverAll n (step s .deliver)

def settleWaiter (s : Sys) (id : Nat) : Nat → Sys
  | 0 => s
  | n + 1 => settleWaiter (step s (.wstep id false)) id n

def settle (d : D) : D :=
  let ids := List.range d.sys.nextK
  let d1 := (List.range 6).foldl (fun d _ => ids.foldl passAc d) d
  let s2 := deliverAll (d1.sys.ccb.queue.length + 1) d1.sys
  let s3 := d1.wids.foldl (fun s id => settleWaiter s id 4) s2
  { d1 with sys := s3 }

/-- tearDown, followed by the inline onClose of the transport it closes -/
def tearDown (d : D) (id : Nat) : D :=
  match acOf d id with
  | none => d
  | some a =>
    let d1 := stepAc d id .tearDown
    match a.transport with
    | some t => stepAc d1 id (.onClose t)
    | none => d1

def liveDial (d : D) (id : Nat) : Option Nat :=
  match acOf d id with
  | none => none
  | some a => (List.range a.nextG).find? fun g =>
      match a.gors g with
      | some x => (match x.pc with | .dialing (_ + 1) => true | _ => false) && a.ctxLive x.ctx
      | none => false

/-- apply one op; returns the new state and the `lb:` events, or `none` for bad-op -/
def applyOp (d0 : D) (fs : List String) : Option (D × List String) :=
  let d := { d0 with nops := d0.nops + 1 }
  let closed := d.sys.closed
  let scOf (k : Nat) : Option ScInfo := d.scs.find? (·.k = k)
  match fs with
  | ["mode", "health"] => if d.nops = 1 then some ({ d with health := true }, []) else none
  | ["connect"] =>
    if closed then none else
    if d.idleMode then
      let s1 := step d.sys .exitIdle
      let mk (acc : Sys × List ScInfo) (k : Nat) : Sys × List ScInfo :=
        let id := acc.1.nextK
        (step acc.1 (.newSubConn 1 d.health), acc.2 ++ [{ k := k, id := id, version := 0 }])
      let (s2, scs) := [1, 2, 3].foldl mk (s1, [])
      some ({ d with sys := s2, scs := scs, lbBuilt := true, idleMode := false }, ["lb:build", "lb:exitidle"])
    else some (d, ["lb:exitidle"])
  | ["scconnect", k] =>
    match nat? k >>= scOf with
    | some sc =>
      if closed ∨ ¬ d.lbBuilt then none else
      let g := ((acOf d sc.id).map (·.nextG)).getD 0
      let d1 := stepAc d sc.id .connect
      some ({ d1 with gver := (sc.id, g, sc.version) :: d1.gver }, [])
    | none => none
  | ["scshutdown", k] =>
    match nat? k >>= scOf with
    | some sc => if closed ∨ ¬ d.lbBuilt then none else some (tearDown d sc.id, [])
    | none => none
  | ["scaddrs", k, v] =>
    match nat? k >>= scOf, nat? v with
    | some sc, some v =>
      if closed ∨ ¬ d.lbBuilt then none else
      if v = sc.version then some (d, []) else
      let scs := d.scs.map fun x => if x.k = sc.k then { x with version := v } else x
      match acOf d sc.id with
      | none => none
      | some a =>
        let still := ((d.curAddr.find? (·.1 = sc.id)).map (·.2)) = some v
        let d1 := stepAc { d with scs := scs } sc.id (.updateAddrs 1 still)
        let d2 := match acOf d1 sc.id with
          | some a1 => if a1.nextG = a.nextG + 1 then { d1 with gver := (sc.id, a.nextG, v) :: d1.gver } else d1
          | none => d1
        -- the deferred GracefulClose of the transport that was dropped
        let d3 := match a.transport, (acOf d2 sc.id).map (·.transport) with
          | some t, some none => stepAc d2 sc.id (.onClose t)
          | _, _ => d2
        some (d3, [])
    | _, _ => none
  | ["dial", k, res] =>
    match nat? k with
    | some k =>
      if res ≠ "ok" ∧ res ≠ "fail" then none else
      match scOf k with
      | some sc =>
        match liveDial d sc.id with
        | some g =>
          if res = "ok" then
            let t := ((acOf d sc.id).map (·.nextT)).getD 0
            let d1 := stepAc d sc.id (.dialOk g)
            some ({ d1 with lastTr := setKV d1.lastTr k (sc.id, t) }, [])
          else some (stepAc d sc.id (.dialFail g), [])
        | none => none
      | none => none
    | none => none
  | [op, k] =>
    if op = "goaway" ∨ op = "drop" then
      match nat? k >>= lookup2 d.lastTr with
      | some (id, t) => some (stepAc d id (.onClose t), [])
      | none => none
    else if op = "sleep" then
      match nat? k with
      | some n =>
        let clock := d.clock + n
        let due := d.timers.filter (·.2.2 ≤ clock)
        let d1 := due.foldl (fun d x => stepAc d x.1 (.backoffEnd x.2.1)) { d with clock := clock, timers := d.timers.filter (clock < ·.2.2) }
        let s2 := d1.wdl.foldl (fun s x => if x.2 ≤ clock then step s (.wctx x.1) else s) d1.sys
        some ({ d1 with sys := s2 }, [])
      | none => none
    else if op = "lbstate" then
      match state? k with
      | some st => if d.lbBuilt ∧ ¬ closed then some ({ d with sys := step d.sys (.lbUpdateState st) }, []) else none
      | none => none
    else if op = "cancel" then
      match nat? k with
      | some id => if d.wids.contains id then some ({ d with sys := step d.sys (.wctx id) }, []) else none
      | none => none
    else none
  | ["health", k, st] =>
    match nat? k >>= lookup2 d.lastHf, state? st with
    | some (id, t), some st => some (stepAc d id (.healthSet t st), [])
    | _, _ => none
  | ["resetbackoff"] =>
    if closed then none else
    let ids := d.scs.map (·.id)
    let d1 := d.timers.foldl (fun d x => if ids.contains x.1 then stepAc d x.1 (.backoffEnd x.2.1) else d) d
    some ({ d1 with timers := d1.timers.filter fun x => !ids.contains x.1 }, [])
  | ["wait", id, st, to] =>
    match nat? id, state? st, nat? to with
    | some id, some st, some to =>
      if d.wids.contains id then none else
      some ({ d with sys := step d.sys (.startWait id st true), wids := d.wids ++ [id],
                     wdl := if to = 0 then d.wdl else (id, d.clock + to) :: d.wdl }, [])
    | _, _, _ => none
  | ["idle"] =>
    if closed then none else
    if d.idleMode then some (d, []) else
    let d1 := { d with sys := step d.sys .enterIdle }
    let d2 := d.scs.foldl (fun d sc => tearDown d sc.id) d1
    some ({ d2 with scs := [], lbBuilt := false, idleMode := true }, ["lb:close"])
  | ["close"] =>
    if closed then none else
    let d1 := { d with sys := step d.sys .close }
    let d2 := d.scs.foldl (fun d sc => tearDown d sc.id) d1
    some ({ d2 with scs := [], lbBuilt := false }, if d.lbBuilt then ["lb:close"] else [])
  | _ => none

/-! ### output -/

def dash (l : List String) (sep : String) : String := if l.isEmpty then "-" else sep.intercalate l

def insertSorted (x : Nat) : List Nat → List Nat
  | [] => [x]
  | y :: ys => if x ≤ y then x :: y :: ys else y :: insertSorted x ys

def render (d : D) (scsBefore : List ScInfo) (lbEv : List String) : D × String :=
  let s := d.sys
  let newPub := (s.published.drop d.nPublished).map fun st => "ch:" ++ showState st
  let newDel := s.delivered.drop d.nDelivered
  let scs := if d.scs.isEmpty then scsBefore else d.scs
  let scEv := [1, 2, 3].flatMap fun k =>
    match scs.find? (·.k = k) with
    | some sc => (newDel.filter (·.1 = sc.id)).map fun x => s!"sc{k}:{showState x.2}"
    | none => []
  let newW := d.wids.filter fun id => !d.wReported.contains id &&
    (match s.waiters id with | some w => (match w.pc with | .done _ => true | _ => false) | none => false)
  let wEv := (newW.foldl (fun acc x => insertSorted x acc) []).map fun id =>
    match s.waiters id with
    | some w => (match w.pc with | .done r => s!"w{id}={r}" | _ => "")
    | none => ""
  let dials := (d.scs.filter fun sc => (liveDial d sc.id).isSome).map fun sc => s!"a{sc.k}"
  let real := d.scs.map fun sc => match acOf d sc.id with
    | some a => s!"{sc.k}:{showState a.state}"
    | none => s!"{sc.k}:?"
  ({ d with nPublished := s.published.length, nDelivered := s.delivered.length, wReported := d.wReported ++ newW },
   s!"{dash (lbEv ++ newPub ++ scEv ++ wEv) " "} st={showState s.csm.state} dials={dash dials ","} real={dash real ","}")

/-! ### the monitor -/

def stripPrefix? (p s : String) : Option String :=
  if s.startsWith p then some (String.ofList (s.toList.drop p.length)) else none

def getSeen (m : Mon) (k : Nat) : ConnState := ((m.lastSeen.find? (·.1 = k)).map (·.2)).getD .idle

def judgeEvent (health : Bool) (clock : Nat) (op : String) (m : Mon) (e : String) : Mon × Option String :=
  if e = "lb:build" then ({ m with lastSeen := [], tfAt := [] }, none)
  else if e.startsWith "lb:" then (m, none)
  else match stripPrefix? "ch:" e with
  | some st =>
    match state? st with
    | some st =>
      let v := if m.lastPub = .shutdown then some "channel state left SHUTDOWN" else none
      ({ m with lastPub := st, ws := m.ws.map fun w => if w.done then w else { w with sawDiff := w.sawDiff || decide (st ≠ w.src) } }, v)
    | none => (m, some s!"unparsable event {e}")
  | none =>
  if e.startsWith "sc" then
    match (String.ofList (e.toList.drop 2)).splitOn ":" with
    | [k, st] =>
      match nat? k, state? st with
      | some k, some st =>
        let prev := getSeen m k
        let v :=
          if prev = .shutdown then some s!"sc{k}: update {showState st} delivered after SHUTDOWN"
          else if st = .ready ∧ prev ≠ .connecting then some s!"sc{k}: reached READY from {showState prev}, not from CONNECTING"
          else if prev = .transientFailure ∧ st ≠ .idle ∧ st ≠ .shutdown then
            some s!"sc{k}: left TRANSIENT_FAILURE to {showState st}"
          else if prev = .transientFailure ∧ st = .idle then
            let t0 := ((m.tfAt.find? (·.1 = k)).map (·.2)).getD 0
            if op = "resetbackoff" then none
            else if op = "sleep" ∧ t0 + 1 ≤ clock then none
            else some s!"sc{k}: left TRANSIENT_FAILURE to IDLE before the back-off ended"
          else none
        let v := v.map fun r => if health then r ++ " [health-checked sub-channel]" else r
        ({ m with lastSeen := (k, st) :: m.lastSeen.filter (·.1 ≠ k),
                  tfAt := if st = .transientFailure then (k, clock) :: m.tfAt.filter (·.1 ≠ k) else m.tfAt }, v)
      | _, _ => (m, some s!"unparsable event {e}")
    | _ => (m, some s!"unparsable event {e}")
  else if e.startsWith "w" then
    match (String.ofList (e.toList.drop 1)).splitOn "=" with
    | [id, r] =>
      match nat? id with
      | some id =>
        match m.ws.find? (·.id = id) with
        | some w =>
          let expired := w.cancelled || (match w.deadline with | some dl => decide (dl ≤ clock) | none => false)
          let v :=
            if w.done then some s!"w{id}: returned twice"
            else if r = "true" then (if w.sawDiff then none else some s!"w{id}: WaitForStateChange returned true although the state never differed from the source state")
            else if r = "false" then
              (if ¬ expired then some s!"w{id}: returned false with a live context"
               else if w.sawDiff then some s!"w{id}: returned false although the state differed from the source state (missed change)"
               else none)
            else some s!"unparsable event {e}"
          ({ m with ws := m.ws.map fun x => if x.id = id then { x with done := true } else x }, v)
        | none => (m, some s!"w{id}: unknown caller")
      | none => (m, some s!"unparsable event {e}")
    | _ => (m, some s!"unparsable event {e}")
  else (m, some s!"unparsable event {e}")

def judgeLine (health : Bool) (clock : Nat) (op : String) (m : Mon) (impl : String) : Mon × Option String :=
  let toks := (impl.splitOn " ").filter (· ≠ "")
  let evs := toks.takeWhile fun t => !t.startsWith "st="
  let rest := toks.dropWhile fun t => !t.startsWith "st="
  let (m1, v1) := evs.foldl (fun (acc : Mon × Option String) e =>
      if e = "-" then acc else
      let (m', v) := judgeEvent health clock op acc.1 e
      (m', acc.2 <|> v)) (m, none)
  let v2 := match rest with
    | st :: _dials :: real :: _ =>
      let a := match stripPrefix? "st=" st >>= state? with
        | some x => if x = m1.lastPub then none else some s!"GetState returned {showState x} but the most recently published state is {showState m1.lastPub}"
        | none => some "unparsable st="
      let b := match stripPrefix? "real=" real with
        | some "-" => none
        | some r => (r.splitOn ",").foldl (fun acc kv =>
            acc <|> (match kv.splitOn ":" with
              | [k, st] => (match nat? k, state? st with
                | some k, some st => if getSeen m1 k = st then none else
                    some s!"sc{k} is {showState st} but the LB policy was last told {showState (getSeen m1 k)} (missed or reordered update)"
                | _, _ => some "unparsable real=")
              | _ => some "unparsable real=")) none
        | none => some "unparsable real="
      a <|> b
    | _ => some "unparsable line"
  let v0 := if op = "wait" ∧ !sourceOrderIsCodeOrder then
      some "WaitForStateChange no longer takes the notify channel before reading the state: a change between the two calls is missed (theorem wrong_order_misses_a_change)"
    else none
  let v3 := m1.ws.foldl (fun acc w => acc <|>
      (if ¬ w.done ∧ w.sawDiff then some s!"w{w.id}: still blocked although the state differed from the source state (missed notification)" else none)) none
  (m1, v0 <|> v1 <|> v2 <|> v3)

def monOp (d : D) (fs : List String) (m : Mon) : Mon :=
  match fs with
  | ["wait", id, st, to] =>
    match nat? id, state? st, nat? to with
    | some id, some st, some to =>
      { m with ws := m.ws ++ [{ id := id, src := st, sawDiff := decide (m.lastPub ≠ st),
                                deadline := if to = 0 then none else some (d.clock + to), cancelled := false, done := false }] }
    | _, _, _ => m
  | ["cancel", id] =>
    match nat? id with
    | some id => { m with ws := m.ws.map fun w => if w.id = id then { w with cancelled := true } else w }
    | none => m
  | _ => m

def stepD : Step D := fun d fs impl =>
  match applyOp d fs with
  | none => ({ d with nops := d.nops + 1 }, "bad-op", "-")
  | some (d1, lbEv) =>
    let d2 := settle d1
    let (d3, out) := render d2 d.scs lbEv
    if impl = "bad-op" then (d3, out, "-") else
    let m0 := monOp d fs d3.mon
    let (m1, v) := judgeLine d3.health d3.clock (fs.headD "") m0 impl
    ({ d3 with mon := m1 }, out, match v with | some r => "VIOL " ++ r | none => "ok")

def run : IO Unit := Driver.run init stepD

end GrpcModel.Driver.S_connectivity
